"""C04 – write/read round trip (directory and zip) reproduces the model.

Three parts.

1. Correspondence of the two Lean kernels with the real functions (`mxdriver codec`):
   `abs_to_rel` / `rel_to_abs` / `abs_to_rel_tuple` / `rel_to_abs_tuple` of modelx/core/util.py on
   generated paths (branches that diverge and share a name again at the same depth, ItemSpace argument
   tuples, and a malformed stream for the readers: too many dots, empty tuples, first element not a run
   of dots, empty names); `quote_docstring` of modelx/core/formula.py against the model's `quoteDocstring`
   (every key of the escape table, runs of 1..7 quotes at the start / in the middle / at the end, backslashes
   before quotes, non-ASCII, random), the model's tokenizer and escape decoder against Python's own on
   arbitrary triple-quoted texts, and the line re-join against `"\n".join(text.splitlines())`.
2. The property itself on the two codecs, evaluated on the implementation alone (round trip of every
   generated path; Python's reading of `quote_docstring(doc)` as a token, as a module docstring and as the
   docstring of a def that went through the `Formula` constructor must give back `doc` - for the def up to
   the whitespace-only lines that `textwrap.dedent` empties in every def source, see `doc_oracle`).
3. The main oracle, implementation only: models built through the public API from a vocabulary
   (`gen_program`), written to a directory AND to a zip, read back, compared by a complete canonical
   description and by the values of all cells; directory listing and bytes against the zip members;
   writing leaves everything but `model.path` alone; write-read-write chains.

Defects of the unchanged tree that are still there are predicted field by field (`predict`): a field
that differs after reading is a *known finding* only if it is exactly what the recorded defect produces,
everything else is a violation.  Repaired defects (docstring quoting 2b72506, lambda cells flags 2afb524)
are not predicted any more: their witnesses in corpus/C04/fixed-*.json run first and must round-trip.
"""
import ast
import io
import json
import os
import re
import shutil
import tempfile
import tokenize
import warnings
import zipfile

from .. import core
from ..impl import mx, close_all, quiet, err_kind

from modelx.core.util import abs_to_rel, rel_to_abs, abs_to_rel_tuple, rel_to_abs_tuple  # noqa: E402
from modelx.core.base import Interface  # noqa: E402
from modelx.core.formula import quote_docstring, Formula  # noqa: E402

SECTION_DIVIDER = "# " + "-" * 75


class Pt:
    """a picklable value with equality (importable as mxh.props.c04.Pt when unpickled)"""

    def __init__(self, a, b):
        self.a = a
        self.b = b

    def __eq__(self, other):
        return type(other) is Pt and (self.a, self.b) == (other.a, other.b)

    def __hash__(self):
        return hash(("Pt", self.a, repr(self.b)))

    def __repr__(self):
        return "Pt(%r, %r)" % (self.a, self.b)


# =====================================================================================
# 1. generation of model programs
# =====================================================================================

SPACE_NAMES = ["A", "B", "C", "D"]
CELLS_NAMES = ["foo", "foo2", "rate", "rate_adj", "bar", "ba", "fo", "g1", "h"]
REF_NAMES = ["k", "k2", "t", "tr", "ta", "lit", "obj", "sp", "lst", "pt", "mod"]
MREF_NAMES = ["gk", "gobj", "glit"]

DOCS = ["ab", "line1\nline2", "\"quoted\" text", "it's", "two \"\" quotes", " lead", "trail ",
        "\u00e9\u2603", "regex \\d+ \\w", "tab\there", "# not a comment", "x = 1", "\"starts with a quote",
        "multi\n\n\nblank", "", "ends with 'single'", "percent %s %d",
        # what the un-escaped writer lost before 2b72506
        "ends with a \"", "\"", "has \"\"\" inside", "two at the end \"\"", "x\"\"\"\n\"\"\"y", "\"\"\"\"\"\"\"",
        "a\\nb", "C:\\temp\\new", "ends with \\", "esc \\\" quote", "double \\\\ bs", "cont \\\nline", "\\x41",
        "\\N{DASH}", "\\u00e9", "oct \\101", "\\'", "bs before the end \\\"", "a\rb", "a\r\nb", "\r", "\n", "nl at end\n",
        "nul \0 inside", "\U0001F600 astral", "blank line\n \nwith a space", "a\n\t\n   \nb", " \n \n "]
# every character at which str.splitlines splits (the Formula constructor re-joins the lines of a def)
LINE_BOUNDARIES = ["\x0b", "\x0c", "\x1c", "\x1d", "\x1e", "\x85", "\u2028", "\u2029"]
BOUNDARY_DOCS = ["a%sb" % c for c in LINE_BOUNDARIES] + [c for c in LINE_BOUNDARIES] + \
    ["end%s" % c for c in LINE_BOUNDARIES] + ["all " + "|".join(LINE_BOUNDARIES) + "\r|\r\n|\n|\0|\\|\""]

INT_ATOMS = ["1", "2", "7", "10"]


def _pick(rng, xs):
    return xs[rng.randrange(len(xs))]


def gen_tree(rng, max_depth):
    """-> list of (path tuple) in creation order; children draw from the same small pool so that
    different branches carry the same names at the same depth"""
    paths = []

    def grow(parent, depth):
        n = rng.choice([1, 2, 2, 3]) if depth == 1 else rng.choice([0, 1, 1, 2])
        names = rng.sample(SPACE_NAMES, min(n, len(SPACE_NAMES)))
        for nm in names:
            p = parent + (nm,)
            paths.append(p)
            if depth < max_depth and rng.random() < (0.75 if depth == 1 else 0.5):
                grow(p, depth + 1)

    grow((), 1)
    return paths


def _params(rng):
    return rng.choice([["x"], ["x"], ["x"], ["x", "y=2"], [], ["x", "y"]])


def _arity(params):
    return len(params)


def _call(name, arity, argexpr):
    if arity == 0:
        return "%s()" % name
    if arity == 1:
        return "%s(%s)" % (name, argexpr)
    return "%s(%s, 1)" % (name, argexpr)


def gen_body(rng, params, ns, depth=0):
    """an int-valued expression over the names known to be visible in the space"""
    has_x = bool(params)
    x = "x" if has_x else "1"
    choices = ["const", "x", "x"]
    if ns["ints"]:
        choices += ["intref"] * 2
    if ns["lower"]:
        choices += ["cell"] * 3
    if ns["crefs"]:
        choices += ["cref"] * 3
    if ns["srefs"]:
        choices += ["sref"] * 2
    if ns["strs"]:
        choices += ["strref"]
    if ns["lists"]:
        choices += ["listref"]
    if ns["pts"]:
        choices += ["ptref"]
    if ns["iparams"]:
        choices += ["iparam"] * 2
    if depth < 2:
        choices += ["add", "add", "mul", "cond", "max"]
    k = _pick(rng, choices)
    if k == "const":
        return _pick(rng, INT_ATOMS)
    if k == "x":
        return x
    if k == "intref":
        return _pick(rng, ns["ints"])
    if k == "cell":
        nm, ar = _pick(rng, ns["lower"])
        return _call(nm, ar, x)
    if k == "cref":
        nm, ar = _pick(rng, ns["crefs"])
        return _call(nm, ar, x)
    if k == "sref":
        nm, cells = _pick(rng, ns["srefs"])
        if cells:
            cn, ar = _pick(rng, cells)
            return _call("%s.%s" % (nm, cn), ar, x)
        return "len(%s.cells)" % nm
    if k == "strref":
        return "len(%s)" % _pick(rng, ns["strs"])
    if k == "listref":
        return "%s[0]" % _pick(rng, ns["lists"])
    if k == "ptref":
        return "%s.a" % _pick(rng, ns["pts"])
    if k == "iparam":
        return _pick(rng, ns["iparams"])
    a = gen_body(rng, params, ns, depth + 1)
    b = gen_body(rng, params, ns, depth + 1)
    if k == "add":
        return "%s + %s" % (a, b)
    if k == "mul":
        return "(%s) * 2" % a
    if k == "cond":
        return "%s if %s > 1 else %s" % (a, x, b)
    return "max(%s, %s)" % (a, b)


LAMBDA_STYLES = ["plain", "paren", "multiline", "comment", "assigned"]
DEF_STYLES = ["plain", "docstring", "docstring3", "comments", "oneline", "local", "trailing", "renamed",
              "indented", "tab", "nested", "longdoc"]


def render_formula(rng, name, params, body, kind, style):
    ps = ", ".join(params)
    if kind == "lambda":
        head = "lambda %s: " % ps if ps else "lambda: "
        if style == "plain":
            return head + body
        if style == "paren":
            return head + "(" + body + ")"
        if style == "multiline":
            return head + "(\n    " + body + "\n)"
        if style == "comment":
            return head + body + "  # the comment is not part of the lambda"
        return "%s = %s%s" % (name, head, body)
    if style == "plain":
        return "def %s(%s):\n    return %s" % (name, ps, body)
    if style == "docstring":
        return "def %s(%s):\n    'one line doc'\n    return %s" % (name, ps, body)
    if style == "docstring3":
        return 'def %s(%s):\n    """Summary line\n\n    Details with "quotes" and a \\\\ backslash.\n    """\n    return %s' % (
            name, ps, body)
    if style == "comments":
        return "def %s(%s):\n    # a comment\n\n    r = %s  # inline\n\n    # another\n    return r" % (name, ps, body)
    if style == "oneline":
        return "def %s(%s): return %s" % (name, ps, body)
    if style == "local":
        return "def %s(%s):\n    a = %s\n    b = a\n    return b" % (name, ps, body)
    if style == "trailing":
        return "def %s(%s):\n    return %s  # trailing comment on the last line" % (name, ps, body)
    if style == "renamed":
        return "def some_other_name(%s):\n    return %s" % (ps, body)
    if style == "indented":
        return "    def %s(%s):\n        return %s" % (name, ps, body)
    if style == "tab":
        return "def %s(%s):\n\treturn %s" % (name, ps, body)
    if style == "nested":
        return "def %s(%s):\n    def inner(v):\n        return v\n    return inner(%s)" % (name, ps, body)
    if style == "longdoc":
        return ("def %s(%s):\n    '''doc with the section marker\n%s\n# Cells\n    '''\n    return %s"
                % (name, ps, SECTION_DIVIDER, body))
    raise ValueError(style)


def gen_value(rng, kind, targets, shared):
    """value specs (JSON): see `make_value`"""
    if kind == "int":
        return ["int", rng.choice([0, 1, 3, -5, 42])]
    if kind == "bigint":
        return ["int", rng.choice([2 ** 70, -(2 ** 65) - 1])]
    if kind == "str":
        return ["str", rng.choice(["", "abc", "q\"uo'te", "back\\slash", "nl\nnl", "\u00e9\u2028\u2603", "tab\t",
                                   "\"\"\"", "# x", "0"])]
    if kind == "float":
        return ["float", rng.choice(["1.5", "-0.0", "nan", "inf", "-inf", "1e+300", "-1.5e-07", "0.1"])]
    if kind == "bool":
        return ["bool", rng.random() < 0.5]
    if kind == "none":
        return ["none"]
    if kind == "obj":
        return ["obj", _pick(rng, targets)]
    if kind == "list":
        items = [["int", rng.randrange(5)]]
        for _ in range(rng.randrange(3)):
            items.append(gen_value(rng, rng.choice(["int", "str", "obj", "float", "none"]), targets, shared))
        return ["list", items]
    if kind == "tuple":
        return ["tuple", [["str", "Pickle"], ["int", rng.randrange(9)]]]
    if kind == "dict":
        return ["dict", [[["str", "a"], ["int", 1]], [["int", 2], gen_value(rng, "obj", targets, shared)]]]
    if kind == "pt":
        return ["pt", rng.randrange(4), gen_value(rng, rng.choice(["int", "str", "obj"]), targets, shared)]
    if kind == "module":
        return ["module", rng.choice(["math", "json"])]
    if kind == "func":
        return ["func", rng.choice(["math.sqrt", "len"])]
    if kind == "bytes":
        return ["bytes", "00ff41"]
    if kind == "shared":
        return ["shared", rng.randrange(2)]
    if kind == "subtype":
        # an instance of a SUBCLASS of a literal type (or a numpy look-alike): it must come back with its exact
        # type, i.e. it must not be written as the bare text of an int / float / str
        return ["xv", rng.choice(SUBTYPE_KINDS), rng.randrange(3)]
    raise ValueError(kind)


# kinds of harness/mxh/exportvals.py (the catalogue built for C15) whose values are instances of strict subclasses
# of int / float / str - user classes, IntEnum / StrEnum / IntFlag members, numpy scalars - or look like them
SUBTYPE_KINDS = ["sub_float", "sub_int", "sub_str", "sub_int_repr", "intenum", "intenum_std", "intflag", "strenum",
                 "floatenum", "np_float64", "np_str", "np_int64", "np_bool"]

REF_KINDS = (["int"] * 5 + ["obj"] * 8 + ["str", "float", "bool", "none", "bigint", "list", "list", "tuple", "dict",
                                          "pt", "module", "func", "bytes", "shared", "shared",
                                          "subtype", "subtype", "subtype"])


def gen_doc(rng):
    """a documentation string for a model, a space or a cells"""
    r = rng.random()
    if r < 0.6:
        return _pick(rng, DOCS)
    if r < 0.75:
        return _pick(rng, BOUNDARY_DOCS)
    return random_doc(rng)


def gen_program(rng, size="normal"):
    """-> {"ops": [...], "cfg": {...}}; ops are applied in order through the public API"""
    max_depth = 3 if size == "normal" else 2
    tree = gen_tree(rng, max_depth)
    ops = []
    info = {}            # path -> {"cells": [(name, params)], "iparams": [...]}
    formulas = {}        # path -> parameter formula of the space (None = not parametrised)
    for p in tree:
        formula = None
        r = rng.random()
        if r < 0.12:
            formula = "lambda i: None"
        elif r < 0.18:
            formula = "lambda i, j=2: None"
        elif r < 0.24:
            formula = "def _formula(i):\n    # parameters of the ItemSpaces\n    return None"
        iparams = []
        if formula:
            iparams = ["i", "j"] if "j=2" in formula else ["i"]
        ops.append(["space", ".".join(p[:-1]), p[-1], formula])
        formulas[p] = formula
        info[p] = {"cells": [], "iparams": iparams, "refs": {}}
    # ItemSpace parameters are visible in child spaces as well
    for p in tree:
        for q in tree:
            if len(q) > len(p) and q[:len(p)] == p:
                for ip in info[p]["iparams"]:
                    if ip not in info[q]["iparams"]:
                        info[q]["iparams"] = info[q]["iparams"] + [ip]

    # plan cells (names only first, so that references can point at cells of any branch)
    for p in tree:
        n = rng.choice([0, 1, 2, 2, 3, 4])
        names = rng.sample(CELLS_NAMES, n)
        if "rate" in names and "rate_adj" not in names and rng.random() < 0.7:
            names.append("rate_adj")
        for nm in names:
            params = _params(rng)
            info[p]["cells"].append((nm, params))
    targets = [""] + [".".join(p) for p in tree]
    for p in tree:
        for nm, _ in info[p]["cells"]:
            targets.append(".".join(p + (nm,)))

    # bases (before or after the members, at random)
    base_ops = []
    for p in tree:
        if rng.random() < 0.3:
            cands = [q for q in tree if q != p and q[:len(p)] != p and p[:len(q)] != q]
            if cands:
                bs = rng.sample(cands, min(len(cands), rng.choice([1, 1, 2])))
                base_ops.append(["bases", ".".join(p), [".".join(b) for b in bs]])
    early = [b for b in base_ops if rng.random() < 0.5]
    late = [b for b in base_ops if b not in early]
    ops.extend(early)

    # model-level references
    for nm in MREF_NAMES:
        if rng.random() < 0.3:
            kind = "int" if nm == "gk" else ("obj" if nm == "gobj" else rng.choice(["str", "float", "list"]))
            ops.append(["ref", "", nm, gen_value(rng, kind, targets, None), "attr"])

    # references per space, then cells using them
    for p in tree:
        ns = {"ints": [], "lower": [], "crefs": [], "srefs": [], "strs": [], "lists": [], "pts": [],
              "iparams": info[p]["iparams"]}
        nrefs = rng.choice([0, 1, 2, 3, 4])
        for nm in rng.sample(REF_NAMES, nrefs):
            kind = _pick(rng, REF_KINDS)
            val = gen_value(rng, kind, targets, None)
            if kind == "obj":
                mode = rng.choice(["auto", "absolute", "relative", "attr"])
            else:
                mode = rng.choice(["auto", "attr"])       # see known finding C04-refmode-noninterface
            ops.append(["ref", ".".join(p), nm, val, mode])
            if kind == "int":
                ns["ints"].append(nm)
            elif kind == "str":
                ns["strs"].append(nm)
            elif kind == "list":
                ns["lists"].append(nm)
            elif kind == "pt":
                ns["pts"].append(nm)
            elif kind == "obj":
                tp = tuple(val[1].split(".")) if val[1] else ()
                if tp in info:
                    ns["srefs"].append((nm, [(cn, _arity(ps)) for cn, ps in info[tp]["cells"]]))
                elif tp:
                    owner = info.get(tp[:-1])
                    if owner:
                        ar = [_arity(ps) for cn, ps in owner["cells"] if cn == tp[-1]]
                        if ar:
                            ns["crefs"].append((nm, ar[0]))
        for nm, params in info[p]["cells"]:
            kind = "lambda" if rng.random() < 0.5 else "def"
            style = _pick(rng, LAMBDA_STYLES if kind == "lambda" else DEF_STYLES)
            body = gen_body(rng, params, ns)
            src = render_formula(rng, nm, params, body, kind, style)
            opts = {}
            if rng.random() < 0.25:
                opts["is_cached"] = False
            if rng.random() < 0.3:
                opts["allow_none"] = rng.choice([True, False])
            ops.append(["cells", ".".join(p), nm, src, opts])
            if rng.random() < (0.3 if kind == "lambda" else 0.15):
                # set_doc: stored beside a lambda, written into the source of a def (quote_docstring)
                ops.append(["cdoc", ".".join(p + (nm,)), gen_doc(rng)])
            ns["lower"].append((nm, _arity(params)))
        if rng.random() < 0.08:
            ops.append(["cells", ".".join(p), "nof", None, {}])     # new_cells without a formula

    ops.extend(late)

    # docs and flags
    if rng.random() < 0.5:
        ops.append(["doc", "", gen_doc(rng)])
    if rng.random() < 0.4:
        ops.append(["allow_none", "", rng.choice([True, False])])
    for p in tree:
        if rng.random() < 0.3:
            ops.append(["doc", ".".join(p), gen_doc(rng)])
        if rng.random() < 0.3:
            ops.append(["allow_none", ".".join(p), rng.choice([True, False, None])])

    # input values (after every structural edit: edits delete ItemSpaces)
    vkinds = ["int"] * 6 + ["str", "list", "obj", "pt", "float", "shared"]
    for p in tree:
        for nm, params in info[p]["cells"]:
            if rng.random() < 0.4:
                for _ in range(rng.choice([1, 1, 2])):
                    key = [rng.randrange(4) for _ in params]
                    ops.append(["input", ".".join(p + (nm,)), key, gen_value(rng, _pick(rng, vkinds), targets, None)])
    for p in tree:
        if not formulas[p] or rng.random() > 0.8:
            continue
        for _ in range(rng.choice([1, 2])):
            args = [rng.randrange(3) for _ in range(2 if "j=2" in formulas[p] else 1)]
            # a cells of the ItemSpace itself or of a child space of it
            cands = [(p, c) for c in info[p]["cells"]]
            for q in tree:
                if len(q) == len(p) + 1 and q[:len(p)] == p:
                    cands += [(q, c) for c in info[q]["cells"]]
            if not cands:
                continue
            q, (cn, params) = _pick(rng, cands)
            segs = [[".".join(p), args]]
            if q != p:
                if formulas[q]:
                    segs.append([q[-1], [rng.randrange(3) for _ in range(2 if "j=2" in formulas[q] else 1)]])
                else:
                    segs.append([q[-1], None])
            key = [rng.randrange(4) for _ in params]
            ops.append(["iinput", segs, cn, key, gen_value(rng, _pick(rng, vkinds), targets, None)])

    # evaluations before writing (fills caches and creates ItemSpaces that must not be saved as inputs)
    for p in tree:
        for nm, params in info[p]["cells"]:
            if rng.random() < 0.3:
                ops.append(["eval", ".".join(p + (nm,)), [rng.randrange(3) for prm in params if "=" not in prm]])
    cfg = {"log_input": rng.random() < 0.15, "keep_original": rng.random() < 0.5,
           "stored": rng.random() < 0.2, "read_by_written_name": rng.random() < 0.5}
    return {"ops": ops, "cfg": cfg}


# ---- the known triggers, one per small program ------------------------------------------

def gen_trigger(rng, kind):
    a, b = rng.sample(SPACE_NAMES, 2)
    cn = _pick(rng, CELLS_NAMES)
    ops = [["space", "", a, None], ["space", "", b, None],
           ["cells", a, cn, "lambda x: x + 1", {}],
           ["cells", b, "other", "def other(x):\n    return 2 * x", {}],
           ["ref", b, "t", ["obj", a + "." + cn], "absolute"],
           ["input", a + "." + cn, [3], ["int", 30]]]
    if kind == "lambda-uncached":
        opts = {"is_cached": False}
        if rng.random() < 0.5:
            opts["allow_none"] = rng.choice([True, False])      # both trailers after one lambda
        ops.append(["cells", a, "unc", rng.choice(["lambda x: x * 3", "lambda: 3", "lambda x, y=1: (x +\n y)"]), opts])
        if rng.random() < 0.5:
            ops.append(["cdoc", a + ".unc", gen_doc(rng)])
    elif kind == "lambda-empty-doc":
        ops.append(["cdoc", a + "." + cn, ""])
        if rng.random() < 0.5:
            ops.append(["cells", a, "unc", "lambda x: x", {"is_cached": False}])
            ops.append(["cdoc", a + ".unc", ""])
    elif kind == "refmode-noninterface":
        val = gen_value(rng, rng.choice(["int", "str", "list", "module", "pt", "none"]), [a], None)
        ops.append(["ref", b, "lit", val, rng.choice(["absolute", "relative"])])
    elif kind == "derived-input":
        ops.append(["bases", b, [a]])
        ops.append(["input", b + "." + cn, [rng.randrange(3)], ["int", 77]])
    elif kind == "def-text-outside-node":
        body = "def dd(x):\n    return x + 5"
        src = rng.choice(["# leading comment\n" + body, body + "\n    # comment after the last statement",
                          body + "\n# comment below", body + "\n\n\n", body + ";", body + "\n\n# c\n\n"])
        ops.append(["cells", a, "dd", src, {}])
    elif kind in ("doc-quote", "doc-backslash", "doc-cr", "doc-line-boundary"):
        # repaired by 2b72506 (quote_docstring); a difference after reading is a violation again
        if kind == "doc-quote":
            doc = rng.choice(["ends with a \"", "\"", "has \"\"\" inside", "two at the end \"\"", "x\"\"\"\n\"\"\"y",
                              "a\"\"\" \"\"\"b", "\"" * rng.randrange(1, 8), "s" + "\"" * rng.randrange(1, 8),
                              "\"" * rng.randrange(1, 8) + "e", "m" + "\"" * rng.randrange(1, 8) + "m"])
        elif kind == "doc-backslash":
            doc = rng.choice(["a\\nb", "C:\\temp\\new", "ends with \\", "esc \\\" quote", "double \\\\ bs", "cont \\\nline",
                              "\\x41", "\\N{DASH}", "\\u00e9", "oct \\101", "\\'", "\\" * rng.randrange(1, 5) + "\"",
                              "\\" * rng.randrange(1, 5), "q\"" + "\\" * rng.randrange(1, 4)])
        elif kind == "doc-cr":
            doc = rng.choice(["a\rb", "a\r\nb", "\r", "\r\n", "a\n\rb", "ends\r"])
        else:
            doc = rng.choice(BOUNDARY_DOCS + ["nul \0", "\0"])
        ops.append(["cells", b, "one", "def one(x): return x", {}])
        ops.append(["cells", b, "olddoc", "def olddoc(x):\n    'old doc'\n    return x", {}])
        where = rng.choice(["model", "space", "lambda", "def", "def-oneline", "def-olddoc", "all"])
        if where in ("model", "all"):
            ops.append(["doc", "", doc])
        if where in ("space", "all"):
            ops.append(["doc", a, doc])
        if where in ("lambda", "all"):
            ops.append(["cdoc", a + "." + cn, doc])
        if where in ("def", "all"):
            ops.append(["cdoc", b + ".other", doc])
        if where in ("def-oneline", "all"):
            ops.append(["cdoc", b + ".one", doc])
        if where in ("def-olddoc", "all"):
            ops.append(["cdoc", b + ".olddoc", doc])
    elif kind == "doc-section-marker":
        ops.append(["allow_none", a, rng.choice([True, False])])
        ops.append(["doc", a, "first line\n" + SECTION_DIVIDER + "\n# Cells\nlast line"])
    elif kind == "ref-override-order":
        # the sub space (created first) and its base both define the reference
        ops = [["space", "", a, None], ["space", "", b, None],
               ["ref", a, "k", ["int", 1], "auto"], ["ref", b, "k", ["int", 2], "auto"],
               ["cells", a, cn, "lambda x: x + k", {}],
               ["bases", a, [b]]]
    elif kind == "relref-override-order":
        ops = [["space", "", a, None], ["space", "", b, None], ["space", "", "Z", None],
               ["ref", a, "k", ["obj", "Z"], "relative"], ["ref", b, "k", ["int", 2], "auto"],
               ["bases", b, [a]]]
    elif kind == "derived-member-stale":
        ops = [["space", "", a, None], ["space", "", b, None], ["bases", b, [a]],
               ["cells", a, cn, "lambda x: x + 1", {"allow_none": rng.choice([True, False])}]]
    else:
        raise ValueError(kind)
    return {"ops": ops, "cfg": {"log_input": False, "keep_original": rng.random() < 0.5}}


# ---- cells made from Formula objects ---------------------------------------------------------
#
# A cells can be made from the Formula OBJECT of another cells: `Cells.copy(space[, name])`,
# `new_cells(name, formula=other.formula)`, `cells.formula = other.formula`, `UserSpace.copy`.  What is written
# is the formula's source text, and the reader names a def cells after the `def` in that text: the round trip
# holds only if the source of the new cells is a definition under ITS name.  The family enumerates
# (kind of source formula) x (how the new cells is made, under the same or another name, in the same space,
# another space, a child space, from another model), gives the new cells an input of its own where it has a
# name of its own, and adds a cells that calls it by name.

FOBJ_SOURCES = [
    ("def", "rate", "def rate(x):\n    return 3 * x + k", [0]),
    ("def-doc-two-params", "two", 'def two(x, y=2):\n    """Doc of two."""\n    return x + y + k', [1, 2]),
    ("lambda", "lam", "lambda x: x * 5 + k", [2]),
    ("def-named-otherwise", "orig", "def some_other_name(x):\n    return x - k", [3]),
]


def formula_object_family():
    """[(tag, program)]"""
    progs = []
    cfg = {"log_input": False, "keep_original": True}
    for skind, sname, src, key in FOBJ_SOURCES:
        base_ops = [["space", "", "A", None], ["space", "", "B", None], ["space", "A", "C", None],
                    ["ref", "A", "k", ["int", 2], "attr"], ["ref", "B", "k", ["int", 3], "attr"],
                    ["ref", "A.C", "k", ["int", 5], "attr"],
                    ["cells", "A", sname, src, {}], ["input", "A." + sname, key, ["int", 40]]]
        two = len(key) == 2
        hows = [
            ("copy, same name, other space", [["ccopy", "A." + sname, "B", None]], "B", sname),
            ("copy, other name, same space", [["ccopy", "A." + sname, "A", "disc"]], "A", "disc"),
            ("copy, other name, other space", [["ccopy", "A." + sname, "B", "disc"]], "B", "disc"),
            ("copy, other name, child space", [["ccopy", "A." + sname, "A.C", "disc"]], "A.C", "disc"),
            ("new_cells from the formula, same name, other space", [["cfrom", "B", sname, "A." + sname, {}]], "B", sname),
            ("new_cells from the formula, other name, same space", [["cfrom", "A", "disc", "A." + sname, {}]], "A", "disc"),
            ("new_cells from the formula, other name, other space, uncached",
             [["cfrom", "B", "disc", "A." + sname, {"is_cached": False}]], "B", "disc"),
            ("formula assigned to an existing cells of another name",
             [["cells", "B", "disc", "lambda x%s: 0" % (", y=2" if two else ""), {}], ["fset", "B.disc", "A." + sname]],
             "B", "disc"),
            ("set_formula on an existing def cells of another name",
             [["cells", "A.C", "disc", "def disc(x%s):\n    return 1" % (", y=2" if two else ""), {}],
              ["fset", "A.C.disc", "A." + sname, "method"]], "A.C", "disc"),
            ("space copied", [["scopy", "A", "", "A2"]], "A2", sname),
            ("copy of a copy, each under another name",
             [["ccopy", "A." + sname, "B", "disc"], ["ccopy", "B.disc", "A.C", "fo"]], "A.C", "fo"),
        ]
        for how, ops, where, newname in hows:
            after = []
            uncached = any(o[0] == "cfrom" and o[4].get("is_cached") is False for o in ops)
            if not uncached:
                after.append(["input", where + "." + newname, [3, 1] if two else [3], ["int", 50]])
            after.append(["cells", where, "pv", "def pv(x):\n    return %s(x) + 1" % newname, {}])
            progs.append(("fobj:%s:%s" % (skind, how), {"ops": base_ops + ops + after, "cfg": dict(cfg)}))
    # from another model
    for how, ops, newname in [
            ("def of another model, same name", [["ccopy", "@L.rate", "B", None]], "rate"),
            ("def of another model, other name", [["ccopy", "@L.rate", "B", "disc"]], "disc"),
            ("lambda of another model, other name", [["ccopy", "@L.disc", "B", "lam2"]], "lam2"),
            ("new_cells from the formula of a def of another model, other name", [["cfrom", "B", "fo", "@L.two", {}]], "fo"),
            ("formula of a def of another model assigned",
             [["cells", "B", "ba", "lambda x: 0", {}], ["fset", "B.ba", "@L.orig"]], "ba")]:
        base_ops = [["space", "", "A", None], ["space", "", "B", None], ["ref", "B", "k", ["int", 3], "attr"]]
        after = [["input", "B." + newname, [3, 1] if "two" in str(ops) else [3], ["int", 50]],
                 ["cells", "B", "pv", "def pv(x):\n    return %s(x) + 1" % newname, {}]]
        progs.append(("fobj:%s" % how, {"ops": base_ops + ops + after, "cfg": dict(cfg)}))
    # the parameter formula of a SPACE taken from the Formula object of a cells / of another space
    for how, src_ops, src in [
            ("space formula from the formula of a def cells", [["cells", "A", "par", "def par(i):\n    return None", {}]], "A.par"),
            ("space formula from the formula of a lambda cells", [["cells", "A", "par", "lambda i, j=2: None", {}]], "A.par"),
            ("space formula from the def formula of another space",
             [["space", "", "P", "def _formula(i):\n    # parameters\n    return None"]], "P"),
            ("space formula from the formula of a def cells of another model", [], "@L.par")]:
        ops = [["space", "", "A", None], ["space", "", "B", None], ["cells", "B", "foo", "lambda x: x + i", {}]] + src_ops + \
            [["sformula_from", "B", src], ["iinput", [["B", [1]]], "foo", [2], ["int", 5]]]
        progs.append(("fobj:%s" % how, {"ops": ops, "cfg": dict(cfg)}))
    return progs


def add_copies(prog, rng):
    """a generated program with cells made from the Formula objects of its own cells (and of another model's):
    the operations are put before the first input / evaluation (creating a cells discards ItemSpaces)"""
    ops = prog["ops"]
    cells = [(o[1], o[2]) for o in ops if o[0] == "cells" and o[3] is not None]
    spaces = [(o[1] + "." + o[2]) if o[1] else o[2] for o in ops if o[0] == "space"]
    if not cells or not spaces:
        return prog
    new = []
    for i in range(rng.choice([1, 1, 2, 3])):
        sp, cn = _pick(rng, cells)
        src = sp + "." + cn if rng.random() < 0.85 else _pick(rng, ["@L.rate", "@L.disc", "@L.two", "@L.orig"])
        dst = sp if rng.random() < 0.4 else _pick(rng, spaces)
        name = _pick(rng, ["cp%d" % i, "cq%d" % i, None])
        r = rng.random()
        if r < 0.5:
            new.append(["ccopy", src, dst, name])
        elif r < 0.8:
            new.append(["cfrom", dst, name or "cn%d" % i, src, {}])
        else:
            new.append(["cells", dst, "cs%d" % i, "lambda x: 0", {}])
            new.append(["fset", "%s.cs%d" % (dst, i), src, rng.choice(["attr", "method"])])
        if name and new[-1][0] != "fset" and rng.random() < 0.5:
            new.append(["input", dst + "." + name, [rng.randrange(4) for _ in range(1)], ["int", 60 + i]])
    at = next((j for j, o in enumerate(ops) if o[0] in ("input", "iinput", "eval")), len(ops))
    return {"ops": ops[:at] + new + ops[at:], "cfg": prog["cfg"]}


# small programs around one construct: the recorded findings, and the repaired ones (lambda-uncached,
# lambda-empty-doc: 2afb524; doc-quote, doc-backslash, doc-cr, doc-line-boundary: 2b72506) as regressions
TRIGGERS = ["lambda-uncached", "lambda-empty-doc", "refmode-noninterface", "derived-input",
            "def-text-outside-node", "doc-quote", "doc-backslash", "doc-cr", "doc-line-boundary",
            "doc-section-marker", "ref-override-order", "relref-override-order", "derived-member-stale"]


# =====================================================================================
# 2. building, describing, evaluating
# =====================================================================================

def _get(m, path):
    obj = m
    if path:
        for part in path.split("."):
            obj = getattr(obj, part)
    return obj


class Builder:
    def __init__(self, name="M"):
        self.m = mx.new_model(name)
        self.shared = {}
        self.rejected = []
        self._lib = None

    def lib(self):
        """a second model (`Lib`) whose cells are copied INTO the model under test (`@L.rate` ...)"""
        if self._lib is None:
            lm = mx.new_model("Lib")
            sp = lm.new_space("L")
            sp.k = 4
            sp.new_cells("rate", formula="def rate(x):\n    return 3 * x + k")
            sp.rate[0] = 7
            sp.new_cells("disc", formula="lambda x: x * 5 + k")
            sp.disc[1] = 9
            sp.new_cells("two", formula='def two(x, y=2):\n    """Doc of two."""\n    return x + y')
            sp.new_cells("orig", formula="def some_other_name(x):\n    return x - 1")
            sp.new_cells("par", formula="def par(i):\n    return None")
            self._lib = lm
        return self._lib

    def obj(self, path):
        """an object of the model by its dotted name; `@...`: of the auxiliary model"""
        if path.startswith("@"):
            return _get(self.lib(), path[1:])
        return _get(self.m, path)

    def make_value(self, spec):
        k = spec[0]
        if k == "int":
            return spec[1]
        if k == "str":
            return spec[1]
        if k == "float":
            return float(spec[1])
        if k == "bool":
            return bool(spec[1])
        if k == "none":
            return None
        if k == "obj":
            return _get(self.m, spec[1])
        if k == "list":
            return [self.make_value(s) for s in spec[1]]
        if k == "tuple":
            return tuple(self.make_value(s) for s in spec[1])
        if k == "dict":
            return {self.make_value(a): self.make_value(b) for a, b in spec[1]}
        if k == "pt":
            return Pt(spec[1], self.make_value(spec[2]))
        if k == "module":
            return __import__(spec[1])
        if k == "func":
            if spec[1] == "len":
                return len
            import math
            return getattr(math, spec[1].split(".")[1])
        if k == "bytes":
            return bytes.fromhex(spec[1])
        if k == "xv":
            from .. import exportvals
            return exportvals.make({"kind": spec[1], "alt": spec[2]})
        if k == "shared":
            if spec[1] not in self.shared:
                self.shared[spec[1]] = [100 + spec[1], "shared"]
            return self.shared[spec[1]]
        raise ValueError(k)

    def apply(self, op):
        m = self.m
        k = op[0]
        if k == "space":
            parent = _get(m, op[1])
            if op[3]:
                parent.new_space(op[2], formula=op[3])
            else:
                parent.new_space(op[2])
        elif k == "cells":
            sp = _get(m, op[1])
            kw = {}
            if "is_cached" in op[4]:
                kw["is_cached"] = op[4]["is_cached"]
            c = sp.new_cells(op[2], formula=op[3], **kw) if op[3] is not None else sp.new_cells(op[2])
            if "allow_none" in op[4]:
                c.allow_none = op[4]["allow_none"]
        # ---- cells made from the Formula OBJECT of another cells (of this or of another model)
        elif k == "ccopy":
            # Cells.copy(parent[, name]): formula, inputs
            src, dst = self.obj(op[1]), _get(m, op[2])
            if op[3] is None:
                src.copy(dst)
            else:
                src.copy(dst, op[3])
        elif k == "cfrom":
            # new_cells(name, formula=<Formula object>)
            kw = {}
            if "is_cached" in op[4]:
                kw["is_cached"] = op[4]["is_cached"]
            _get(m, op[1]).new_cells(op[2], formula=self.obj(op[3]).formula, **kw)
        elif k == "fset":
            # the formula of an existing cells replaced by the Formula object of another one
            if len(op) > 3 and op[3] == "method":
                _get(m, op[1]).set_formula(self.obj(op[2]).formula)
            else:
                _get(m, op[1]).formula = self.obj(op[2]).formula
        elif k == "sformula_from":
            # the parameter formula of a space set from the Formula object of a cells or of another space
            _get(m, op[1]).formula = self.obj(op[2]).formula
        elif k == "scopy":
            # UserSpace.copy(parent[, name]): the cells of the copy are made from the Formula objects of the original's
            src = self.obj(op[1])
            if op[3] is None:
                src.copy(_get(m, op[2]))
            else:
                src.copy(_get(m, op[2]), op[3])
        elif k == "cdoc":
            _get(m, op[1]).set_doc(op[2])
        elif k == "doc":
            _get(m, op[1]).doc = op[2]
        elif k == "allow_none":
            _get(m, op[1]).allow_none = op[2]
        elif k == "bases":
            _get(m, op[1]).add_bases(*[_get(m, b) for b in op[2]])
        elif k == "ref":
            owner = _get(m, op[1])
            val = self.make_value(op[3])
            if op[4] == "attr" or not op[1]:
                setattr(owner, op[2], val)
            else:
                owner.set_ref(op[2], val, op[4])
        elif k == "input":
            c = _get(m, op[1])
            c[tuple(op[2])] = self.make_value(op[3])
        elif k == "iinput":
            obj = m
            for nm, args in op[1]:
                obj = _get(obj, nm)
                if args is not None:
                    obj = obj[tuple(args)] if len(args) > 1 else obj[args[0]]
            c = getattr(obj, op[2])
            c[tuple(op[3])] = self.make_value(op[4])
        elif k == "eval":
            try:
                _get(m, op[1])(*op[2])
            except Exception:
                pass
        # ---- edits that take content away again or change it (write histories, `c04hist`)
        elif k == "clear_at":
            _get(m, op[1]).clear_at(*op[2])
        elif k == "clear_all":
            _get(m, op[1]).clear_all()
        elif k == "sclear":
            sp = _get(m, op[1])
            if op[2] == "all":
                sp.clear_all()
            elif op[2] == "items":
                sp.clear_items()
            elif op[2] == "cells":
                sp.clear_cells(clear_input=True)
            else:
                raise ValueError("unknown op %r" % (op,))
        elif k == "item_del":
            _get(m, op[1]).clear_at(*op[2])
        elif k == "iclear":
            obj = m
            for nm, args in op[1]:
                obj = _get(obj, nm)
                if args is not None:
                    obj = obj[tuple(args)] if len(args) > 1 else obj[args[0]]
            c = getattr(obj, op[2])
            if op[3] is None:
                c.clear_all()
            else:
                c.clear_at(*op[3])
        elif k == "del":
            delattr(_get(m, op[1]), op[2])
        elif k == "formula":
            _get(m, op[1]).formula = op[2]
        elif k == "sformula":
            sp = _get(m, op[1])
            if op[2] is None:
                del sp.formula
            else:
                sp.formula = op[2]
        elif k == "rmbases":
            _get(m, op[1]).remove_bases(*[_get(m, b) for b in op[2]])
        elif k == "rename":
            _get(m, op[1]).rename(op[2])
        elif k == "cached":
            _get(m, op[1]).is_cached = op[2]
        elif k == "pandas":
            import pandas as pd
            spec = op[4]
            if spec[0] == "frame":
                val = pd.DataFrame({c: list(col) for c, col in spec[1]})
            else:
                val = pd.Series(list(spec[1]), name=spec[2])
            _get(m, op[1]).new_pandas(op[2], op[3], val, file_type="csv")
        else:
            raise ValueError("unknown op %r" % (op,))

    def build(self, ops, stats=None):
        for i, op in enumerate(ops):
            try:
                with quiet():
                    self.apply(op)
            except Exception as e:
                self.rejected.append(i)
                self.rejected_kinds = getattr(self, "rejected_kinds", []) + ["%s:%s" % (op[0], err_kind(e))]
        return self.m


def rel_name(obj, model):
    """fullname without the model's name ('' = the model)"""
    fn = obj.fullname
    mn = model.name
    if fn == mn:
        return ""
    if fn.startswith(mn + "."):
        return fn[len(mn) + 1:]
    return "!" + fn       # an object of another model


def valuedesc(v, model):
    if isinstance(v, Interface):
        if not v._is_valid():
            return ["null", type(v).__name__]
        return ["obj", type(v).__name__, rel_name(v, model), v.model is model]
    if v is None or isinstance(v, (bool, int, str, bytes)):
        return [type(v).__name__, repr(v)]
    if isinstance(v, float):
        return [type(v).__name__, repr(v)]       # the exact type: a subclass instance must not come back as float
    if isinstance(v, (list, tuple)):
        return [type(v).__name__, [valuedesc(x, model) for x in v]]
    if isinstance(v, dict):
        return ["dict", [[valuedesc(a, model), valuedesc(b, model)] for a, b in v.items()]]
    if isinstance(v, Pt):
        return ["Pt", v.a, valuedesc(v.b, model)]
    if type(v).__name__ == "module":
        return ["module", v.__name__]
    if type(v).__name__ in ("DataFrame", "Series") and type(v).__module__.startswith("pandas"):
        def plain(x):
            x = x.item() if hasattr(x, "item") else x
            return repr(x)
        cols = [str(c) for c in v.columns] if type(v).__name__ == "DataFrame" else [str(v.name)]
        return [type(v).__name__, cols, [plain(i) for i in v.index],
                [[plain(x) for x in (row if isinstance(row, list) else [row])] for row in v.values.tolist()]]
    if callable(v) and hasattr(v, "__name__"):
        return ["func", getattr(v, "__module__", None), v.__name__]
    return ["other", type(v).__name__]


def d_ref(owner, name, model, is_model):
    proxy = owner._get_object(name, as_proxy=True)
    d = {"value": valuedesc(proxy.value, model), "mode": proxy.refmode}
    if d["value"][0] in ("DataFrame", "Series"):
        # the IO spec OF THIS REFERENCE (file, type).  `model.iospecs` as a whole is not compared: a spec
        # that no reference holds any more (C18-del-space) is not something C04 speaks about
        try:
            d["iospec"] = repr(model.get_spec(proxy.value))
        except Exception as e:
            d["iospec"] = "no spec (%s)" % err_kind(e)
    if not is_model:
        d["derived"] = bool(proxy.is_derived())
    return d


def d_inputs(cells, model):
    out = {}
    for key in cells._impl.input_keys:
        out[repr(key)] = valuedesc(cells._impl.data[key], model)
    return out


def d_cells(c, model):
    f = c.formula
    return {"source": f.source if f is not None else None,
            "parameters": list(c.parameters),
            "allow_none": c.allow_none,
            "is_cached": c.is_cached,
            "doc": c.doc,
            "derived": bool(c._is_derived()),
            "inputs": d_inputs(c, model)}


def d_items(space, model, prefix, out):
    """inputs inside ItemSpaces (and their sub spaces), flattened: address -> cells -> inputs"""
    for it in space._named_itemspaces.values():
        addr = prefix + [repr(tuple(it.argvalues))]
        for cn, c in it.cells.items():
            inp = d_inputs(c, model)
            if inp:
                out["/".join(addr + [cn])] = inp
        for sn, sub in it.named_spaces.items():
            for cn, c in sub.cells.items():
                inp = d_inputs(c, model)
                if inp:
                    out["/".join(addr + [sn, cn])] = inp
            d_items(sub, model, addr + [sn], out)
        d_items(it, model, addr, out)


def d_space(s, model):
    f = s.formula
    items = {}
    d_items(s, model, [], items)
    return {"doc": s.doc,
            "allow_none": s.allow_none,
            "formula": f.source if f is not None else None,
            "parameters": list(s.parameters) if s.parameters is not None else None,
            "direct_bases": [rel_name(b, model) for b in s._direct_bases],
            "bases": [rel_name(b, model) for b in s.bases],
            "cells": {cn: d_cells(c, model) for cn, c in s.cells.items()},
            "refs": {k: d_ref(s, k, model, False) for k in s.refs if not k.startswith("_")},
            "spaces": {sn: d_space(sub, model) for sn, sub in s.spaces.items()},
            "item_inputs": items}


def describe(m):
    return {"doc": m.doc,
            "allow_none": m.allow_none,
            "refs": {k: d_ref(m, k, m, True) for k in m.refs if not k.startswith("_")},
            "spaces": {sn: d_space(s, m) for sn, s in m.spaces.items()}}


def flatten(d, prefix=(), out=None):
    if out is None:
        out = {}
    if isinstance(d, dict):
        if not d:
            out[prefix + ("{}",)] = True
        for k, v in d.items():
            flatten(v, prefix + (str(k),), out)
    else:
        out[prefix] = json.dumps(d, sort_keys=True, default=str)
    return out


def all_spaces(m):
    res = []

    def walk(s):
        res.append(s)
        for sub in s.spaces.values():
            walk(sub)
    for s in m.spaces.values():
        walk(s)
    return res


def arg_grid(c):
    n = len(c.parameters)
    if n == 0:
        return [()]
    if n == 1:
        return [(0,), (1,), (2,), (3,)]
    return [(0, 1), (2, 3), (1, 2)]


def result_of(fn):
    try:
        with quiet():
            v = fn()
        return v
    except Exception as e:
        return ("err", err_kind(e))


def evaluate_all(m):
    """every cells of every static space (derived ones included) on a small grid, and the cells of the
    ItemSpaces that hold inputs"""
    vals = {}
    for s in all_spaces(m):
        for cn, c in s.cells.items():
            for args in arg_grid(c):
                r = result_of(lambda: c(*args))
                vals["%s.%s%r" % (rel_name(s, m), cn, args)] = r if isinstance(r, tuple) and r[:1] == ("err",) \
                    else valuedesc(r, m)
    for s in all_spaces(m):
        items = {}
        d_items(s, m, [], items)
        with_inputs = set(k.split("/")[0] for k in items)
        for it in list(s._named_itemspaces.values()):
            if repr(tuple(it.argvalues)) not in with_inputs:
                continue        # created by an evaluation only: not part of what is saved
            for cn, c in it.cells.items():
                for args in arg_grid(c)[:2]:
                    r = result_of(lambda: c(*args))
                    vals["%s%r.%s%r" % (rel_name(s, m), tuple(it.argvalues), cn, args)] = \
                        r if isinstance(r, tuple) and r[:1] == ("err",) else valuedesc(r, m)
    return vals


def cache_snapshot(m):
    """what writing must not touch: every stored value (computed or input) and the ItemSpaces"""
    snap = {}
    for s in all_spaces(m):
        for cn, c in s.cells.items():
            snap["%s.%s" % (rel_name(s, m), cn)] = sorted(
                (repr(k), json.dumps(valuedesc(v, m), default=str)) for k, v in c._impl.data.items())
        snap["%s[items]" % rel_name(s, m)] = sorted(repr(tuple(it.argvalues)) for it in s._named_itemspaces.values())
    return snap


# =====================================================================================
# 3. known defects of the unchanged tree, predicted field by field
# =====================================================================================

def def_source_after_read(src):
    """FunctionDefParser: the text of the def node as asttokens delimits it, plus the comment that
    follows on its last line; the Formula constructor then re-joins the lines and appends a newline"""
    import asttokens
    atok = asttokens.ASTTokens(src, parse=True)
    node = atok.tree.body[0]
    funcdef = atok.get_text(node)
    nxtok = node.last_token.index + 1
    if nxtok < len(atok.tokens) and atok.tokens[nxtok].type == tokenize.COMMENT \
            and node.last_token.line == atok.tokens[nxtok].line:
        deflines = funcdef.splitlines()
        deflines.pop()
        deflines.append(node.last_token.line.rstrip())
        funcdef = "\n".join(deflines)
    return "\n".join(funcdef.splitlines()) + "\n"


ANY_INT = "<some integer>"       # expected value of a field that the recorded defect fills with an id()


def _matches(expected_json, actual_json):
    if expected_json == actual_json:
        return True
    if expected_json == json.dumps(ANY_INT) and actual_json is not None:
        return re.fullmatch(r"\d+", actual_json) is not None
    return False


def predict(desc):
    """-> (expected flat description after reading, {flat path: finding key}, values_comparable,
    keys of the known findings that make the read itself fail)

    Documentation strings (model, space, lambda cells, def cells) and the flags of lambda cells are
    NOT predicted: since 2b72506 / 2afb524 they must come back as they were."""
    exp = json.loads(json.dumps(desc))
    keys = {}
    values_ok = True
    unsafe = []

    def space(sd, path):
        nonlocal values_ok
        doc = desc_at(desc, path)["doc"]
        if doc is not None and (SECTION_DIVIDER + "\n# Cells\n") in (doc + "\n") and sd["allow_none"] is not None:
            sd["allow_none"] = None
            keys[path + ("allow_none",)] = "C04-doc-section-marker"
            values_ok = False
        for cn, cd in sd["cells"].items():
            cpath = path + ("cells", cn)
            if cd["derived"]:
                if cd["inputs"]:
                    for kk in list(cd["inputs"]):
                        keys[cpath + ("inputs", kk)] = "C04-derived-input"
                    keys[cpath + ("inputs", "{}")] = "C04-derived-input"
                    cd["inputs"] = {}
                    values_ok = False
                continue
            src = cd["source"]
            if src is not None and not src.startswith("lambda"):
                try:
                    after = def_source_after_read(src)
                except Exception:
                    after = src
                if after != src:
                    cd["source"] = after
                    keys[cpath + ("source",)] = "C04-def-text-outside-node"
        for rn, rd in sd["refs"].items():
            if not rd["derived"] and rd["value"][0] in ("DataFrame", "Series"):
                # written as ("IOSpec", <value id>, <spec id>); RefAssignParser takes the third element of
                # every tuple for the reference mode: the spec id, an integer that differs from run to run
                rd["mode"] = ANY_INT
                keys[path + ("refs", rn, "mode")] = "C04-iospec-ref-mode"
            elif not rd["derived"] and rd["value"][0] != "obj" and rd["mode"] != "auto":
                rd["mode"] = "auto"
                keys[path + ("refs", rn, "mode")] = "C04-refmode-noninterface"
        for sn, sub in sd["spaces"].items():
            space(sub, path + ("spaces", sn))

    for sn, sd in exp["spaces"].items():
        space(sd, ("spaces", sn))
    unsafe.extend(ref_override_order(desc))
    unsafe.extend(bases_order(desc))

    # derived members are not written; the reader derives them again from the definitions it has read.
    # Expected = the (predicted) definition, first base in the linearisation that defines the name.
    byname = {}

    def index(sd, name, path):
        byname[name] = (sd, path)
        for sn, sub in sd["spaces"].items():
            index(sub, name + "." + sn, path + ("spaces", sn))
    for sn, sd in exp["spaces"].items():
        index(sd, sn, ("spaces", sn))
    for name, (sd, path) in byname.items():
        for cn, cd in sd["cells"].items():
            if not cd["derived"]:
                continue
            for b in sd["bases"]:
                bd, bpath = byname.get(b, (None, None))
                if bd and cn in bd["cells"] and not bd["cells"][cn]["derived"]:
                    for field in ("source", "parameters", "allow_none", "is_cached", "doc"):
                        if cd[field] != bd["cells"][cn][field]:
                            cd[field] = bd["cells"][cn][field]
                            keys[path + ("cells", cn, field)] = keys.get(
                                bpath + ("cells", cn, field), "C04-derived-member-stale")
                    break
        for rn, rd in sd["refs"].items():
            if not rd["derived"]:
                continue
            for b in sd["bases"]:
                bd, bpath = byname.get(b, (None, None))
                if bd and rn in bd["refs"] and not bd["refs"][rn]["derived"]:
                    if rd["mode"] != bd["refs"][rn]["mode"]:
                        rd["mode"] = bd["refs"][rn]["mode"]
                        keys[path + ("refs", rn, "mode")] = keys.get(
                            bpath + ("refs", rn, "mode"), "C04-derived-member-stale")
                    break
    return exp, keys, values_ok, unsafe


def ref_override_order(desc):
    """The reader adds all bases first and then creates references space by space in tree order.
    Creating a reference in a base space fails (`Cannot create reference`) when a sub space already has
    the name - defined by the sub space itself, or derived from another base that was handled earlier.
    So: some space S and name r with two definers among S and its bases, the later one (in tree order)
    being a base."""
    order, byname = {}, {}

    def walk(sd, name):
        order[name] = len(order)
        byname[name] = sd
        for sn, sub in sd["spaces"].items():
            walk(sub, name + "." + sn if name else sn)
    for sn, sd in desc["spaces"].items():
        walk(sd, sn)

    def defines(n, r):
        sd = byname.get(n)
        return bool(sd) and r in sd["refs"] and not sd["refs"][r]["derived"]
    found = set()
    for name, sd in byname.items():
        if not sd["bases"]:
            continue
        names = set(sd["refs"])
        for r in names:
            definers = [n for n in [name] + list(sd["bases"]) if defines(n, r)]
            for y in definers:
                if y != name and any(order[x] < order[y] for x in definers if x != y):
                    found.add("C04-ref-override-order")
            # a base's *relative* reference to something outside the base, overridden in this space,
            # created while this space (already a sub space) does not have its own definition yet
            if defines(name, r):
                for y in sd["bases"]:
                    if defines(y, r) and order[y] < order[name]:
                        rd = byname[y]["refs"][r]
                        v = rd["value"]
                        if rd["mode"] == "relative" and v[0] == "obj" and not (
                                v[2] == y or v[2].startswith(y + ".")):
                            found.add("C04-relref-override-order")
    return sorted(found)


def bases_order(desc):
    """C04-bases-order: the reader adds the direct bases space by space in tree order; an intermediate graph
    (later spaces still without their bases) need not have a C3 linearisation although the complete one has.
    Decided by the Lean model (`mxdriver serial`, op `hk`, hypothesis `NoBasesOrderConflict`) on the skeleton of
    the description (names and direct bases only)."""
    def has_bases(sd):
        return bool(sd["direct_bases"]) or any(has_bases(x) for x in sd["spaces"].values())
    if not any(has_bases(sd) for sd in desc["spaces"].values()):
        return []
    from .. import serialworld as sw

    def space(name, sd):
        return sw.sx("space", sw.enc(name), "N", "N", "N",
                     sw.sx("bases", *[sw.sx("p", *[sw.enc(x) for x in b.split(".")]) for b in sd["direct_bases"]]),
                     "(cells)", "(refs)", "(dyn)", "(dinp)",
                     sw.sx("spaces", *[space(n, x) for n, x in sd["spaces"].items()]))
    text = sw.sx("model", sw.enc("M"), "N", "F", "(refs)",
                 sw.sx("spaces", *[space(n, sd) for n, sd in desc["spaces"].items()]))
    try:
        got = core.run_driver("serial", ["hk " + text])[0]
    except Exception:
        return []
    return ["C04-bases-order"] if " bases=0" in got else []


def desc_at(desc, path):
    d = desc
    for p in path:
        d = d[p]
    return d


def compare(desc0, actual, what, hist, out, stats):
    """field-by-field; returns True when nothing unexpected was seen"""
    exp, keys, values_ok, unsafe = predict(desc0)
    f0, fa, fe = flatten(desc0), flatten(actual), flatten(exp)
    clean = True
    reported = set()
    for path in sorted(set(f0) | set(fa)):
        a0, aa = f0.get(path), fa.get(path)
        if a0 == aa:
            continue
        ee = fe.get(path)
        key = keys.get(path)
        if key and _matches(ee, aa):
            if key not in reported:
                reported.add(key)
                out.fail("%s: %s differs after reading (%s)" % (what, "/".join(path), key), hist,
                         detail={"before": a0, "after": aa}, key=key)
            stats["known:" + key] = stats.get("known:" + key, 0) + 1
            continue
        clean = False
        out.fail("%s: %s is %s, was %s before writing" % (what, "/".join(path), _short(aa), _short(a0)), hist,
                 detail={"path": list(path), "before": a0, "after": aa, "expected_with_known_defects": ee})
        break
    return clean, values_ok, unsafe


def _short(s):
    s = repr(s)
    return s if len(s) < 120 else s[:117] + "..."


# =====================================================================================
# 4. one program: write (dir, zip), read, compare, chain
# =====================================================================================

def dir_listing(root):
    res = {}
    for base, dirs, files in os.walk(root):
        for f in files:
            p = os.path.join(base, f)
            res[os.path.relpath(p, root).replace(os.sep, "/")] = open(p, "rb").read()
    return res


def zip_listing(path):
    res = {}
    with zipfile.ZipFile(path) as z:
        for n in z.namelist():
            if not n.endswith("/"):
                res[n] = z.read(n)
    return res


def run_program(prog, out, stats, chain=1):
    if "steps" in prog:
        # a history of writes to one target path
        from .. import c04hist
        c04hist.run_history(prog, out, stats)
        return
    ops, cfg = prog["ops"], prog.get("cfg", {})
    hist = {"ops": ops, "cfg": cfg}
    close_all()
    tmp = tempfile.mkdtemp(prefix="mxh_c04_")
    try:
        # Only models built by ACCEPTED operations: what a rejected operation leaves behind is C11's
        # subject (a rejected add_bases leaves derived cells without bases).  Rebuild without them.
        for _ in range(4):
            b = Builder("M")
            m = b.build(ops, None)
            if not b.rejected:
                break
            for rk in b.rejected_kinds:
                stats["rejected:" + rk] = stats.get("rejected:" + rk, 0) + 1
            ops = [o for i, o in enumerate(ops) if i not in set(b.rejected)]
            stats["rebuilt-without-rejected-ops"] = stats.get("rebuilt-without-rejected-ops", 0) + 1
            close_all()
        else:
            stats["dropped-still-rejecting"] = stats.get("dropped-still-rejecting", 0) + 1
            return
        hist = {"ops": ops, "cfg": cfg}
        for o in ops:
            stats["op:" + o[0]] = stats.get("op:" + o[0], 0) + 1
        with quiet():
            desc0 = describe(m)
            vals0 = evaluate_all(m)
            desc0b = describe(m)
        if desc0 != desc0b:
            out.fail("evaluating cells changed the description of the model", hist)
            return
        snap0 = cache_snapshot(m)
        _features(desc0, ops, stats)

        # ---- write both containers; writing changes nothing but `path`
        p_dir = os.path.join(tmp, "as_dir")
        p_zip = os.path.join(tmp, "as_zip.zip")
        werr = {}
        for label, path, fn in (("dir", p_dir, mx.write_model), ("zip", p_zip, mx.zip_model)):
            kw = {"log_input": cfg.get("log_input", False)}
            if label == "zip" and cfg.get("stored"):
                kw["compression"] = zipfile.ZIP_STORED
            try:
                with quiet():
                    fn(m, path, **kw)
            except Exception as e:
                werr[label] = err_kind(e)
                stats["write-error:" + err_kind(e)] = stats.get("write-error:" + err_kind(e), 0) + 1
                continue
            if str(m.path) != path:
                out.fail("model.path is %r after writing to %s" % (str(m.path), label), hist)
            with quiet():
                d1 = describe(m)
                s1 = cache_snapshot(m)
            if d1 != desc0:
                fa, fb = flatten(desc0), flatten(d1)
                diff = sorted(p for p in set(fa) | set(fb) if fa.get(p) != fb.get(p))[:3]
                out.fail("writing (%s) altered the model: %s" % (label, ["/".join(p) for p in diff]), hist)
            elif s1 != snap0:
                diff = sorted(k for k in set(snap0) | set(s1) if snap0.get(k) != s1.get(k))[:3]
                out.fail("writing (%s) altered stored values or ItemSpaces: %s" % (label, diff), hist)
        if werr:
            if len(werr) == 1:
                out.fail("the model can be written as %s but not as %s (%s)" % (
                    "zip" if "dir" in werr else "directory", list(werr)[0], list(werr.values())[0]), hist)
            return
        stats["written"] = stats.get("written", 0) + 1

        # ---- the two containers hold the same files
        ld, lz = dir_listing(p_dir), zip_listing(p_zip)
        if sorted(ld) != sorted(lz):
            out.fail("directory and zip hold different files: only in dir %s, only in zip %s" % (
                sorted(set(ld) - set(lz)), sorted(set(lz) - set(ld))), hist)
        else:
            for n in sorted(ld):
                if ld[n] != lz[n]:
                    out.fail("file %s differs between directory and zip" % n, hist)
                    break
        stats["files"] = stats.get("files", 0) + len(ld)

        # ---- original out of the way
        if cfg.get("keep_original"):
            m.rename("M_orig")
        else:
            m.close()

        # ---- read back both, compare, then chain
        name = None if cfg.get("read_by_written_name") else "M"
        for label, path in (("directory", p_dir), ("zip", p_zip)):
            ok = read_and_compare(path, label, desc0, vals0, hist, out, stats, name=name)
            if ok is None:
                continue
            m2 = ok
            cur_desc, cur_vals = desc0, vals0
            for hop in range(chain):
                with quiet():
                    cur_desc = describe(m2)
                    cur_vals = evaluate_all(m2)
                    cur_desc = describe(m2)
                nxt = os.path.join(tmp, "chain_%s_%d%s" % (label, hop, ".zip" if (hop + (label == "zip")) % 2 else ""))
                try:
                    with quiet():
                        (mx.zip_model if nxt.endswith(".zip") else mx.write_model)(m2, nxt)
                except Exception as e:
                    out.fail("a model read from a %s cannot be written again (%s)" % (label, err_kind(e)), hist)
                    break
                m2.close()
                m2 = read_and_compare(nxt, "%s, hop %d" % (label, hop + 2), cur_desc, cur_vals, hist, out, stats)
                if m2 is None:
                    break
            if m2 is not None:
                m2.close()
    finally:
        close_all()
        shutil.rmtree(tmp, ignore_errors=True)


def read_and_compare(path, label, desc0, vals0, hist, out, stats, name="M", expect_name="M"):
    exp, keys, values_ok, unsafe = predict(desc0)
    try:
        with quiet():
            m2 = mx.read_model(path, name=name) if name else mx.read_model(path)
    except Exception as e:
        k = err_kind(e)
        stats["read-error:" + k] = stats.get("read-error:" + k, 0) + 1
        # the two *-override-order findings raise ValueError, C04-bases-order TypeError (no C3 linearisation)
        explained = [u for u in unsafe if (k == "Type") == (u == "C04-bases-order") and k in ("Value", "Type")]
        if explained:
            out.fail("a model written without error cannot be read back from the %s (%s): %s" % (
                label, k, explained[0]), hist, key=explained[0])
            stats["known:" + explained[0]] = stats.get("known:" + explained[0], 0) + 1
        else:
            out.fail("a model written without error cannot be read back from the %s (%s)" % (label, k), hist,
                     detail={"error": k})
        # the failed read must not leave the half-built model behind under the name (C19's subject) - not checked
        for mm in list(mx.get_models().values()):
            if mm.name == expect_name:
                mm.close()
        return None
    stats["read"] = stats.get("read", 0) + 1
    if m2.name != expect_name:
        out.fail("the model read from %s is named %r, expected %r" % (label, m2.name, expect_name), hist)
    if str(m2.path) != path:
        out.fail("model.path is %r after reading from %s" % (str(m2.path), label), hist)
    with quiet():
        desc2 = describe(m2)
    clean, values_ok, unsafe = compare(desc0, desc2, "read from " + label, hist, out, stats)
    if clean and values_ok:
        with quiet():
            vals2 = evaluate_all(m2)
        stats["evaluations"] = stats.get("evaluations", 0) + len(vals2)
        if vals2 != vals0:
            diff = sorted(k for k in set(vals0) | set(vals2) if vals0.get(k) != vals2.get(k))
            out.fail("read from %s: %s returns %s, returned %s before writing" % (
                label, diff[0], _short(vals2.get(diff[0])), _short(vals0.get(diff[0]))), hist,
                detail={"differing": diff[:10]})
    return m2


def _features(desc, ops, stats):
    """measured input distribution"""
    def bump(k, n=1):
        stats[k] = stats.get(k, 0) + n
    depth = 0

    def walk(sd, path):
        nonlocal depth
        depth = max(depth, len(path))
        if sd["formula"]:
            bump("space-with-parameters")
        if sd["direct_bases"]:
            bump("space-with-bases")
        if sd["doc"] is not None:
            bump("space-doc")
        if sd["item_inputs"]:
            bump("itemspace-inputs", len(sd["item_inputs"]))
        names = sorted(sd["cells"])
        for cn, cd in sd["cells"].items():
            bump("cells")
            bump("cells-derived" if cd["derived"] else "cells-defined")
            src = cd["source"] or ""
            bump("formula-lambda" if src.startswith("lambda") else "formula-def")
            if cd["inputs"]:
                bump("cells-with-inputs")
                if any(o != cn and cn.startswith(o) and not sd["cells"][o]["inputs"] for o in names):
                    bump("input-only-in-longer-of-prefix-pair")
            if cd["is_cached"] is False:
                bump("uncached")
            if cd["doc"]:
                bump("cells-doc")
        for rn, rd in sd["refs"].items():
            if rd["derived"]:
                bump("ref-derived")
                continue
            v = rd["value"]
            bump("ref:%s:%s" % (v[0], rd["mode"]))
            if v[0] == "obj" and v[2]:
                tp = v[2].split(".")
                shared = 0
                while shared < min(len(tp), len(path)) and tp[shared] == path[shared]:
                    shared += 1
                if any(a == b for a, b in list(zip(tp, path))[shared + 1:]):
                    bump("objref-branches-share-name-after-diverging")
                elif shared < len(path):
                    bump("objref-other-branch")
        for sn, sub in sd["spaces"].items():
            walk(sub, path + [sn])
    for sn, sd in desc["spaces"].items():
        walk(sd, [sn])
    bump("depth:%d" % depth)
    for rn, rd in desc["refs"].items():
        bump("modelref:%s" % rd["value"][0])


# =====================================================================================
# 5. the codecs: correspondence with the Lean kernels and the property on the implementation
# =====================================================================================

def enc_str(s):
    return ",".join(str(ord(c)) for c in s) if s else "-"


def dec_str(s):
    return "" if s == "-" else "".join(chr(int(x)) for x in s.split(","))


def enc_tuple(t):
    if not t:
        return "()"
    return ";".join(("s:" + enc_str(e)) if isinstance(e, str) else ("k:" + enc_str(repr(e))) for e in t)


def gen_names(rng, n):
    pool = ["M", "A", "B", "C", "foo"]
    return [_pick(rng, pool) for _ in range(n)]


def gen_path_pair(rng):
    """target and namespace as lists; biased to share a prefix, diverge, and agree again later"""
    tg = gen_names(rng, rng.randrange(1, 6))
    r = rng.random()
    if r < 0.6:
        ns = list(tg)
        # mutate one or two positions, maybe change the length
        for _ in range(rng.choice([1, 1, 2])):
            if ns:
                ns[rng.randrange(len(ns))] = _pick(rng, ["A", "B", "C", "X"])
        if rng.random() < 0.5:
            ns = ns[:rng.randrange(1, len(ns) + 1)]
        if rng.random() < 0.3:
            ns = ns + gen_names(rng, rng.randrange(1, 3))
    else:
        ns = gen_names(rng, rng.randrange(1, 6))
    return tg, ns


def with_keys(rng, names):
    """sprinkle ItemSpace argument tuples into an id tuple"""
    res = []
    for i, n in enumerate(names):
        res.append(n)
        if i > 0 and rng.random() < 0.2:
            res.append(rng.choice([(1,), (1, 2), (0,)]))
    return tuple(res)


def call(fn, *a):
    try:
        return "ok", fn(*a)
    except IndexError:
        return "err Index", None
    except ValueError:
        return "err Value", None
    except Exception as e:
        return "err " + err_kind(e), None


def run_paths(ctx, out, stats, n, salt="path"):
    lines, expect, hist = [], [], []
    for i in range(n):
        rng = ctx.rng(salt, i)
        tg, ns = gen_path_pair(rng)
        kind = rng.random()
        if kind < 0.35:
            # string forms, well-formed
            t, s = ".".join(tg), ".".join(ns)
            st, rel = call(abs_to_rel, t, s)
            lines.append("a2r %s %s" % (enc_str(t), enc_str(s)))
            expect.append("ok " + enc_str(rel))
            hist.append(["abs_to_rel", t, s])
            st2, back = call(rel_to_abs, rel, s)
            lines.append("r2a %s %s" % (enc_str(rel), enc_str(s)))
            expect.append("ok " + enc_str(back))
            hist.append(["rel_to_abs", rel, s])
            stats["path:str"] = stats.get("path:str", 0) + 1
            if back != t:
                out.fail("rel_to_abs(abs_to_rel(t, ns), ns) != t", [["abs_to_rel", t, s]],
                         detail={"relative": rel, "back": back})
        elif kind < 0.75:
            t, s = with_keys(rng, tg), with_keys(rng, ns)
            if rng.random() < 0.1:
                t = ()
            if rng.random() < 0.05:
                s = ()
            st, rel = call(abs_to_rel_tuple, t, s)
            lines.append("a2rt %s %s" % (enc_tuple(t), enc_tuple(s)))
            expect.append("ok " + enc_tuple(rel))
            hist.append(["abs_to_rel_tuple", list(map(repr, t)), list(map(repr, s))])
            st2, back = call(rel_to_abs_tuple, rel, s)
            lines.append("r2at %s %s" % (enc_tuple(rel), enc_tuple(s)))
            expect.append(st2 + (" " + enc_tuple(back) if st2 == "ok" else ""))
            hist.append(["rel_to_abs_tuple", list(map(repr, rel)), list(map(repr, s))])
            stats["path:tuple"] = stats.get("path:tuple", 0) + 1
            shared = 0
            while shared < min(len(t), len(s)) and t[shared] == s[shared]:
                shared += 1
            if any(a == b for a, b in list(zip(t, s))[shared + 1:]):
                stats["path:tuple-share-after-diverging"] = stats.get("path:tuple-share-after-diverging", 0) + 1
            if back != t:
                out.fail("rel_to_abs_tuple(abs_to_rel_tuple(t, ns), ns) != t",
                         [["abs_to_rel_tuple", list(map(repr, t)), list(map(repr, s))]],
                         detail={"relative": repr(rel), "back": repr(back)})
        elif kind < 0.88:
            # malformed / unusual input for the string functions
            t = rng.choice(["", ".", "..", "a.", ".a", "a..b", "...x", "x.y", "....", "..x..y", ".x."]) \
                if rng.random() < 0.6 else "." * rng.randrange(7) + ".".join(tg)
            s = rng.choice(["", "a", "a.b", "a..c", "M.A.C"]) if rng.random() < 0.5 else ".".join(ns)
            for nm, fn in (("a2r", abs_to_rel), ("r2a", rel_to_abs)):
                st, r = call(fn, t, s)
                lines.append("%s %s %s" % (nm, enc_str(t), enc_str(s)))
                expect.append(st + (" " + enc_str(r) if st == "ok" else ""))
                hist.append([fn.__name__, t, s])
            stats["path:str-malformed"] = stats.get("path:str-malformed", 0) + 1
        else:
            # malformed relative tuples for the reader
            first = rng.choice(["." * rng.randrange(8), "", "x", ".x", (1,), "..", "."])
            t = (first,) + with_keys(rng, tg[:rng.randrange(0, 3)]) if rng.random() < 0.9 else ()
            s = with_keys(rng, ns) if rng.random() < 0.9 else ()
            st, r = call(rel_to_abs_tuple, t, s)
            lines.append("r2at %s %s" % (enc_tuple(t), enc_tuple(s)))
            expect.append(st + (" " + enc_tuple(r) if st == "ok" else ""))
            hist.append(["rel_to_abs_tuple", list(map(repr, t)), list(map(repr, s))])
            stats["path:tuple-malformed"] = stats.get("path:tuple-malformed", 0) + 1
            if st != "ok":
                stats["path:rejected:" + st[4:]] = stats.get("path:rejected:" + st[4:], 0) + 1
    got = core.run_driver("codec", lines)
    for j, (a, b) in enumerate(zip(expect, got)):
        if a.rstrip() != b.rstrip():
            out.disagree([hist[j]], 0, a, b, layer="codec")     # the operations are independent
            break
    return len(lines)


ESCAPE_KEYS = ["\\", "\0", "\r", "\x0b", "\x0c", "\x1c", "\x1d", "\x1e", "\x85", "\u2028", "\u2029"]
DOC_ALPHABET = (['"'] * 6 + ["\\"] * 4 + ["\n", "\n", "n", "d", " ", "e", "#", "\u00e9", "{", "'", "x", "0", "u", "N", "r",
                                          "\u2603", "\U0001F600", "\x7f", "\xa0", "\t", "\ufeff"] + ESCAPE_KEYS)
# for arbitrary literal texts (the reader): no NUL (not a source character); hex digits and escape letters
READ_ALPHABET = (['"'] * 4 + ["\\"] * 8 + list("abfnrtvxuN01789AaFfgGdeq{}' \n   ") +
                 ["\r", "\r", "\n", "\u00e9", "\x0c", "\u2028", "\U0001F600"])


def systematic_docs():
    """every key of the escape table (alone, inside, first, last, before and after a quote), runs of 1..7
    quotes at the start / in the middle / at the end / alone, 0..4 backslashes before a quote and at the
    end, non-ASCII"""
    res = ["", "a", "\n", "\u00e9", "\u2603\U0001F600", "'", "'" * 3, "'" * 6]
    for k in ESCAPE_KEYS + ["\n"]:
        res += [k, "a" + k + "b", k + "b", "a" + k, k + '"', '"' + k, '""' + k + '"', k * 3, k + "\n" + k]
    for n in range(1, 8):
        q = '"' * n
        res += [q, q + "e", "s" + q, "m" + q + "m", q + "m" + q, "s" + q + "\n", "\\" + q, q + "\\", "a" + q + "\\" + q]
    for n in range(0, 5):
        bs = "\\" * n
        res += [bs, "a" + bs, bs + '"', "a" + bs + '"', bs + '"b', bs + '""', bs + '"' * 3, bs + "n", bs + "\n",
                bs + "x41", bs + "u2028", bs + "N{DASH}", bs + "101", bs + "\r\n"]
    res += ["".join(ESCAPE_KEYS), "".join(reversed(ESCAPE_KEYS)) + '"', '"' + "".join(ESCAPE_KEYS)]
    return res


def random_doc(rng):
    ln = rng.choice([0, 1, 2, 3, 4, 5, 6, 8, 12, 20])
    return "".join(_pick(rng, DOC_ALPHABET) for _ in range(ln))


def first_string_token(text):
    """Python's tokenizer on `text` (read the way modelx reads files: universal newlines):
    -> (text of the first token if it is a string literal, rest of the text) or None"""
    norm = io.StringIO(text, newline=None).read()
    gen = tokenize.generate_tokens(io.StringIO(norm).readline)
    try:
        tok = next(gen)
    except (tokenize.TokenError, SyntaxError, IndentationError):
        return None
    if tok.type != tokenize.STRING:
        return None
    if not norm.startswith(tok.string):
        raise core.Infra("tokenizer returned a token that is not a prefix of the text: %r / %r" % (tok.string, norm))
    # (tok.end is not used: for multi-line tokens with non-ASCII text its column is not a character index)
    return tok.string, norm[len(tok.string):]


def literal_value(tokstr):
    """value of a string token, or None when Python rejects its escapes"""
    try:
        with warnings.catch_warnings():
            warnings.simplefilter("ignore")
            return ast.literal_eval(tokstr)
    except (SyntaxError, ValueError):
        return None


def uses_named_escape(body):
    i = 0
    while i < len(body) - 1:
        if body[i] == "\\":
            if body[i + 1] == "N":
                return True
            i += 2
        else:
            i += 1
    return False


def has_surrogate(s):
    return any(0xD800 <= ord(c) <= 0xDFFF for c in s)


def doc_oracle(doc, with_formula=False):
    """The property on the implementation alone: what the real `quote_docstring` writes for `doc`, read
    the way the serializer's reader reads it, is `doc`.  -> None or a sentence saying what failed."""
    lit = quote_docstring(doc)
    # (a) text file, universal newlines, tokenizer: one token, nothing swallowed, value = doc
    tail = "\nx = 1\n"
    r = first_string_token(lit + tail)
    if r is None:
        return "quote_docstring(doc) is not a string token"
    tokstr, rest = r
    if tokstr != lit or rest != tail:
        return "the token of quote_docstring(doc) ends elsewhere than the text does"
    if literal_value(tokstr) != doc:
        return "ast.literal_eval(token of quote_docstring(doc)) != doc (lambda cells docs are read this way)"
    # (b) as the first statement of a module (model and space docs are read this way)
    try:
        with warnings.catch_warnings():
            warnings.simplefilter("ignore")
            tree = ast.parse(io.StringIO(lit + tail, newline=None).read())
        got = tree.body[0].value.value
    except Exception as e:
        return "ast.parse rejects a file starting with quote_docstring(doc) (%s)" % err_kind(e)
    if got != doc:
        return "ast.parse reads the module docstring quote_docstring(doc) as another text"
    # (c) nothing in it that the line re-join of a def's source alters
    if "\n".join(lit.splitlines()) != lit:
        return "quote_docstring(doc) is altered by '\\n'.join(text.splitlines())"
    # (d) as the docstring of a def, through the Formula constructor (def cells are read this way).
    # Formula() passes the source through textwrap.dedent, which empties the lines of a def that hold
    # only blanks and tabs - also inside its docstring (what set_doc then reports is C20's subject).  A
    # def cells of a live model has been through it already, so the round trip needs: the docstring is
    # doc up to that, and constructing the Formula again from its source changes nothing.
    if with_formula:
        parts = doc.split("\n")     # the first and the last line share a source line with the quotes
        want = doc if len(parts) < 2 else "\n".join(
            parts[:1] + ["" if re.fullmatch(r"[ \t]+", p) else p for p in parts[1:-1]] + parts[-1:])
        for src in ("def f(x):\n    %s\n    return x\n" % lit, "def f(x): %s; return x" % lit):
            try:
                with warnings.catch_warnings():
                    warnings.simplefilter("ignore")
                    f = Formula(src, name="f")
                    f2 = Formula(f.source, name="f")
            except Exception as e:
                return "Formula rejects a def whose docstring is quote_docstring(doc) (%s)" % err_kind(e)
            if f.func.__doc__ != want:
                return "a def whose docstring is quote_docstring(doc) has another __doc__ after Formula()"
            if f2.source != f.source or f2.func.__doc__ != f.func.__doc__:
                return "Formula(Formula(def).source) differs from Formula(def): a def cells would change when read back"
    return None


def run_docs(ctx, out, stats, n, salt="doc"):
    lines, expect, hist = [], [], []

    def bump(k):
        stats[k] = stats.get(k, 0) + 1

    # ---- writer: quote_docstring against the model, and the property on the implementation
    docs = [(d, True) for d in systematic_docs() + DOCS + BOUNDARY_DOCS]
    for i in range(n):
        rng = ctx.rng(salt, i)
        docs.append((random_doc(rng), i % 10 == 0))
    for doc, with_formula in docs:
        lit = quote_docstring(doc)
        lines.append("quote " + enc_str(doc))
        expect.append("ok " + enc_str(lit))
        hist.append(["quote", doc])
        why = doc_oracle(doc, with_formula)
        if why:
            out.fail("docstring codec: " + why, [["quote", doc]], detail={"doc": doc, "written": lit})
        lines.append("doc " + enc_str(doc))
        expect.append("same" if not why else "?")
        hist.append(["quote", doc])
        bump("doc:written")
        if any(c in doc for c in ESCAPE_KEYS):
            bump("doc:with-escape-table-char")
        if '"' * 3 in doc or doc.endswith('"'):
            bump("doc:with-closing-quotes")
        if "\\" in doc:
            bump("doc:with-backslash")

    # ---- reader: arbitrary triple-quoted texts (also what the un-escaped writer used to produce)
    for i in range(n):
        rng = ctx.rng(salt, "read", i)
        ln = rng.choice([0, 1, 2, 3, 4, 5, 6, 8, 12])
        body = "".join(_pick(rng, READ_ALPHABET) for _ in range(ln))
        r = rng.random()
        if r < 0.15:
            body = random_doc(rng).replace("\0", "")       # '"""' + doc + '"""', the former writer
        elif r < 0.3:
            k = rng.choice(["x", "u", "U", ""])            # well-formed numeric escapes
            digits = {"x": 2, "u": 4, "U": 8, "": rng.randrange(1, 4)}[k]
            pool = "01234567" if k == "" else "0123456789abcdefABCDEF"
            val = "".join(rng.choice(pool) for _ in range(digits))
            if k == "U":
                val = "000" + rng.choice("01") + val[4:]
            body = body[:ln // 2] + "\\" + k + val + body[ln // 2:]
        text = '"' * 3 + body + '"' * 3 + rng.choice([""] * 12 + ["\n", '"', " x", "\nx = 1\r\n"])
        try:
            tok = first_string_token(text)
        except core.Infra:
            raise
        except Exception:
            tok = None
        if tok is None:
            exp_lex, exp_read = "unterminated", "unreadable"
        else:
            tokstr, rest = tok
            exp_lex = "ok %s %s" % (enc_str(tokstr[3:-3]), enc_str(rest))
            if rest != "":
                exp_read = "unreadable"
            elif uses_named_escape(tokstr[3:-3]):
                exp_read = "unsupported"
            else:
                v = literal_value(tokstr)
                if v is None:
                    exp_read = "unreadable"
                elif has_surrogate(v):
                    exp_read = "unreadable"                 # the model does not cover surrogate code points
                    bump("doc:read-surrogate-not-modelled")
                else:
                    exp_read = "ok " + enc_str(v)
        lines.append("lex " + enc_str(text))
        expect.append(exp_lex)
        hist.append(["lex", text])
        lines.append("read " + enc_str(text))
        expect.append(exp_read)
        hist.append(["read", text])
        bump("doc:read:" + exp_read.split(" ")[0])
        if tok is None:
            bump("doc:read:unterminated")
        elif tok[1] != "":
            bump("doc:read:text-after-the-token")

    # ---- "\n".join(text.splitlines())
    for i in range(n // 4):
        rng = ctx.rng(salt, "sj", i)
        ln = rng.choice([0, 1, 2, 3, 4, 6, 9])
        text = "".join(rng.choice(["a", "b", " ", "\n", "\n", "\r", "\r", '"'] + LINE_BOUNDARIES) for _ in range(ln))
        lines.append("sj " + enc_str(text))
        expect.append("ok " + enc_str("\n".join(text.splitlines())))
        hist.append(["splitlines-join", text])

    got = core.run_driver("codec", lines)
    for j, (a, b) in enumerate(zip(expect, got)):
        if a == "?":
            continue                                        # the oracle already failed on this doc
        if a.rstrip() != b.rstrip():
            out.disagree([hist[j]], 0, a, b, layer="codec")
            break
    return len(lines)


# =====================================================================================
# 6. entry points
# =====================================================================================

def corpus_programs():
    res = []
    d = os.path.join(core.CORPUS_DIR, "C04")
    if os.path.isdir(d):
        for f in sorted(os.listdir(d)):
            if f.endswith(".json"):
                payload = json.load(open(os.path.join(d, f)))
                res.append((f, payload["history"]))
    return res


def run(ctx, out):
    stats = {}
    n_models = ctx.n(47, 1000)
    n_triggers = ctx.n(2, 12)
    n_paths = ctx.n(1500, 40000)
    n_docs = ctx.n(1500, 40000)
    chain = ctx.n(1, 2)

    ev = run_paths(ctx, out, stats, n_paths)
    ev += run_docs(ctx, out, stats, n_docs)

    seen, nontrivial, samples = set(), set(), []
    programs = [("corpus:" + f, p) for f, p in corpus_programs()]
    for i in range(n_models):
        prog = gen_program(ctx.rng("model", i), "normal" if i % 4 else "small")
        if i % 3 == 2:
            # every third model also holds cells made from the Formula objects of its cells (own random stream:
            # the models themselves are the ones drawn without it)
            prog = add_copies(prog, ctx.rng("copies", i))
        programs.append(("gen:%d" % i, prog))
    programs += formula_object_family()
    for k in TRIGGERS:
        for j in range(n_triggers):
            programs.append(("trigger:%s:%d" % (k, j), gen_trigger(ctx.rng("trigger", k, j), k)))
    for tag, prog in programs:
        before = dict(stats)
        run_program(prog, out, stats, chain=chain)
        text = json.dumps(prog["ops"], sort_keys=True)
        seen.add(text)
        grew = lambda k: stats.get(k, 0) > before.get(k, 0)     # noqa: E731
        if (grew("read") and (grew("objref-other-branch") or grew("objref-branches-share-name-after-diverging")
                               or grew("space-with-bases"))
                and (grew("cells-with-inputs") or grew("itemspace-inputs"))):
            nontrivial.add(text)
        if len(samples) < 3 and tag.startswith("gen:"):
            samples.append([json.dumps(o) for o in prog["ops"][:40]])

    # the statement-level model of writer and reader (Kernels/Serial*.lean) against the real files
    from .. import serialworld
    n_serial = ctx.n(28, 600)
    import time as _time
    t_serial = _time.time()
    sprogs = [(t, p) for t, p in programs if t.startswith("gen:")][:n_serial]
    sprogs += [(t, p) for t, p in programs if t.startswith("trigger:") and t.endswith(":0")]
    sprogs += [(t, p) for t, p in programs if t.startswith("corpus:") and "steps" not in p]
    sprogs += [("serial:" + t, p) for t, p in serialworld.extra_programs()]
    fobj = [(t, p) for t, p in programs if t.startswith("fobj:")]
    sprogs += fobj if ctx.tier == "thorough" else ctx.rng("serial-fobj").sample(fobj, 16)
    ev_serial = 0
    for tag, prog in sprogs:
        ev_serial += serialworld.check_program(prog, out, stats, tag)
    ev += ev_serial
    stats["serial:seconds"] = round(_time.time() - t_serial, 1)

    # histories of writes to ONE target path: (edit*, write)+ with every option that decides what is on disk
    from .. import c04hist
    ev_hist = c04hist.run_batch(ctx, out, stats)
    ev += ev_hist

    out.coverage.update({
        "evaluations": ev + stats.get("evaluations", 0),
        "distinct_nontrivial": len(nontrivial),
        "rule": "model programs distinct by op text; non-trivial = written and read back, with an object-valued "
                "reference into another branch or inheritance across branches, and input values (cells or ItemSpace)",
        "samples": samples,
        "programs": len(seen),
        "codec_lines_compared": ev,
        "write_histories": stats.get("hist:histories", 0),
        "writes_in_histories": stats.get("hist:writes", 0),
        "writes_producing_fewer_files_than_the_target_held": {
            k.split(":", 2)[2]: v for k, v in sorted(stats.items()) if k.startswith("hist:fewer-files-than-before:")},
        "save_step_lines_compared": ev_hist,
        "serial_models_compared": stats.get("serial:models", 0),
        "serial_statement_tokens_compared": stats.get("serial:statement-tokens-compared", 0),
        "serial_description_tokens_compared": stats.get("serial:description-tokens-compared", 0),
        "cells_values_compared": stats.get("evaluations", 0),
        "input_distribution": {k: stats[k] for k in sorted(stats)},
    })
    out.assumptions.append(
        "read_write_round_trip_partial is about the statement-level model of ModelWriter / ModelReader "
        "(Kernels/Serial*.lean); it is tied to the code by comparing, for every generated model, the statements and "
        "data files modelx writes with the model's `write`, and the model modelx reads back with the model's `read` "
        "of the real files (member order inside a space, pickle bytes, values of cells: oracle only)")


def search(ctx, out, extra):
    """called when a theorem no longer checks or model and implementation disagree but the oracle held:
    a fresh, larger batch through the implementation-only oracles (codec round trips and whole models)"""
    stats = {}
    run_paths(ctx, extra, stats, 20000, salt="search-path")
    run_docs(ctx, extra, stats, 5000, salt="search-doc")
    extra.disagreements.clear()
    for i in range(60):
        run_program(gen_program(ctx.rng("search-model", i), "normal"), extra, stats, chain=1)


def replay(ctx, payload, out):
    stats = {}
    h = payload.get("history")
    if h is None:
        un = payload.get("unexplained") or []
        for u in un:
            if u.get("kind") == "correspondence":
                h = u["detail"]["history"]
    if isinstance(h, dict) and "ops" in h:
        run_program(h, out, stats, chain=1)
        if "steps" not in h:
            from .. import serialworld
            serialworld.check_program(h, out, stats, "replay")
        return
    if isinstance(h, list):
        # codec histories: re-evaluate the property on the implementation
        for item in h:
            if item[0] == "abs_to_rel":
                if rel_to_abs(abs_to_rel(item[1], item[2]), item[2]) != item[1]:
                    out.fail("rel_to_abs(abs_to_rel(t, ns), ns) != t", [item])
            elif item[0] == "quote":
                why = doc_oracle(item[1], True)
                if why:
                    out.fail("docstring codec: " + why, [item])
            elif item[0] == "abs_to_rel_tuple":
                t = tuple(ast.literal_eval(x) for x in item[1])
                s = tuple(ast.literal_eval(x) for x in item[2])
                st, rel = call(abs_to_rel_tuple, t, s)
                st2, back = call(rel_to_abs_tuple, rel, s)
                if back != t:
                    out.fail("rel_to_abs_tuple(abs_to_rel_tuple(t, ns), ns) != t", [item])
