"""C10 – object-valued references rebind relatively or stay absolute as their mode says.

Model: `MxModel.Relative` (Kernels/Relative.lean: `SpaceGraph.get_relative`, the decision logic of
`ReferenceImpl.on_inherit`, `SpaceManager.new_ref/change_ref`, `DynBaseRefDict.wrap_impl`), theorems
in Props/C10.lean.  After every operation of every history

* correspondence: every derived reference of every space is compared with the kernel's decision for
  the world modelx itself reports (direct bases, members, the definer's mode and value): bound object (kind, dotted name, identity with the object that name denotes), the flag
  `is_relative`; when a reference is (re)assigned in a base, the loop of
  `new_ref`/`change_ref` is an admitted alternative for exactly the reference objects that loop
  created (it differs from re-derivation only where change_ref does not check relative references
  and in the flag of references holding no object); every reference of every dynamic space of an instantiated ItemSpace tree is compared with
  the kernel's `wrap_impl` (or, when the ItemSpace cannot be built, the kind of error);
* oracle (implementation only, Python on paths and objects): the statement – relative/auto references
  to the defining space / its cells denote the deriving space / its cells, absolute ones and those
  with a target outside the tree the original, `ReferenceProxy.refmode` of a derived reference is its
  definer's, ItemSpace trees rebind every object inside the base's tree and keep the rest, formulas
  reading the references evaluate, write/read preserves modes and bindings.

Histories: the exhaustive grid (mode x target placement x holder x definer depth x deriver kind),
hand-written edit scenarios, and adaptively generated random edit histories.
"""
import collections
import json
import os
import shutil
import tempfile
import types

from .. import core
from .. import structworld as W
from ..relhist import HistCorr
from ..impl import mx, close_all, quiet, err_kind
from modelx.core.base import Interface
from modelx.core.reference import ReferenceImpl

MODES = ["auto", "relative", "absolute"]
PLACEMENTS = ["self", "cells", "child", "chcells", "grand", "grcells", "up", "out", "outcells", "plain"]
HOLDERS = ["def", "ch", "gr"]
STATIC_DERIVERS = ["bases", "addbases", "late", "subsub", "nested", "nestedsub"]
DYNAMIC_DERIVERS = ["item", "itemnested", "itemderived", "itemderivedchild", "itemchange"]

# the two known findings that are not repaired in /repo (the six others are `fixed` entries of
# known_findings.json; their witnesses corpus/C10/fixed-*.json run first as regression inputs)
KEY_DYN_ABS = "C10-dyn-derived-absolute-inside"
KEY_ENCL = "C10-enclosing-base-change"
KEY_CHG_REL = "C10-change-ref-relative-unchecked"


# ----------------------------------------------------------------------------- model driver

class Driver:
    """one `mxdriver relative` process for the whole run (the driver flushes after every line)"""
    proc = None

    @classmethod
    def ask(cls, lines):
        import subprocess
        if cls.proc is None or cls.proc.poll() is not None:
            if not os.path.exists(core.DRIVER):
                raise core.Infra("driver not built: " + core.DRIVER)
            core.USED_LAYERS.add("relative")
            cls.proc = subprocess.Popen([core.DRIVER, "relative"], stdin=subprocess.PIPE, stdout=subprocess.PIPE,
                                        text=True, bufsize=1)
        p = cls.proc
        out = []
        # write in chunks smaller than the pipe buffers, reading the answers in between
        for i in range(0, len(lines), 200):
            chunk = lines[i:i + 200]
            p.stdin.write("\n".join(chunk) + "\n")
            p.stdin.flush()
            for _ in chunk:
                line = p.stdout.readline()
                if not line:
                    raise core.Infra("model driver died (rc=%s)" % p.poll())
                out.append(line.rstrip("\n"))
        return out

    @classmethod
    def close(cls):
        if cls.proc is not None:
            try:
                cls.proc.stdin.close()
                cls.proc.wait(timeout=5)
            except Exception:
                cls.proc.kill()
            cls.proc = None


# ----------------------------------------------------------------------------- live model

class Live(W.Live):
    """structworld's live model plus the operations this property needs"""

    def _apply(self, k, op):
        if k == "cells":
            self.space(op[1]).new_cells(op[2], formula="lambda x: x + %d" % (op[3] if len(op) > 3 else 0))
            return "ok"
        if k == "usecells":     # a cells whose formula reads the reference op[3] as a cells
            self.space(op[1]).new_cells(op[2], formula="lambda x: %s(x) + 1" % op[3])
            return "ok"
        if k == "getcells":     # a cells whose formula returns what the name op[3] denotes for formulas of the space
            self.space(op[1]).new_cells(op[2], formula="lambda: %s" % op[3])
            return "ok"
        if k == "set_src":
            self.space(op[1]).cells[op[2]].formula = "lambda x: 10 * x + %d" % (op[3] if len(op) > 3 else 0)
            return "ok"
        if k == "params":
            self.space(op[1]).parameters = ("i",)
            return "ok"
        if k == "noparams":
            del self.space(op[1]).formula
            return "ok"
        return W.Live._apply(self, k, op)

    def lookup(self, idstr):
        """the object a dotted name denotes now (space or member), or None"""
        obj = self.m
        try:
            for p in idstr.split("."):
                if isinstance(obj, mx.core.model.Model):
                    obj = obj.spaces[p]
                elif p in obj.spaces:
                    obj = obj.spaces[p]
                elif p in obj.cells:
                    obj = obj.cells[p]
                else:
                    return None
            return obj
        except Exception:
            return None


def classify(v):
    if isinstance(v, Interface):
        if v._is_valid():
            return ("obj", v._impl.idstr)
        return ("null", "-")
    if isinstance(v, bool) or not isinstance(v, int):
        return ("plain", "0")
    return ("plain", str(v))


def tgt_str(c):
    return "%s:%s" % c if c[0] != "null" else "null"


def definer_of(simpl, name):
    for b in simpl.bases:
        r = b.own_refs.get(name)
        if r is not None and r.is_defined():
            return b, r
    return None, None


def world_lines(live, extra=None):
    """the world as modelx reports it: spaces, direct bases, member names"""
    lines = ["reset"]
    for path, s in W.all_spaces(live.m):
        bases = [b._impl.idstr for b in s._direct_bases]
        members = list(s.cells) + list(s._impl.own_refs)
        lines.append("space %s %s %s" % (path, ",".join(bases) or "-", ",".join(members) or "-"))
    for e in extra or []:
        lines.append(e)
    return lines


def under(root, path):
    """path is root or below it (by components)"""
    return path == root or path.startswith(root + ".")


# ----------------------------------------------------------------------------- python statement of the rule

def tree_root(simpl, dimpl):
    """the outermost pair of spaces (rs, rb) below which the deriving space and the definer sit at the
    same relative position and rs derives from rb; None when there is none"""
    sp, dp = simpl.idstr.split("."), dimpl.idstr.split(".")
    n = 0
    while n < min(len(sp), len(dp)) and sp[len(sp) - 1 - n] == dp[len(dp) - 1 - n]:
        n += 1
    model = simpl.model
    for k in range(n, -1, -1):
        rs, rb = sp[:len(sp) - k], dp[:len(dp) - k]
        if not rs or not rb:
            continue
        try:
            rsi = model.get_impl_from_name(".".join(rs))
            rbi = model.get_impl_from_name(".".join(rb))
        except Exception:
            continue
        if rsi is None or rbi is None:
            continue
        if rbi is rsi or rbi in rsi.bases:
            return ".".join(rs), ".".join(rb)
    return None


# ----------------------------------------------------------------------------- one history

class Run:
    def __init__(self, ops, out, stats, tag, views=True):
        self.ops = ops
        self.out = out
        self.stats = stats
        self.tag = tag
        self.lines = []          # driver input
        self.pending = []        # (first line index, n lines, handler)
        self.alt = {}            # (space, name) -> (refobj, expected string) set by new_ref/change_ref loops
        self.prevdef = {}        # (space, name) -> (refobj, definer refobj, definer mode)
        self.enclosing = {}      # id(refobj) -> refobj not re-derived after the enclosing pair changed
        self.history_refs = set()
        self.chg_rel = {}        # id(refobj) -> relative-mode derived reference change_ref bound absolutely
        self.last = {}           # id(refobj) -> (refobj, interface, flag, agreed with the model, tree root)
        self.tmp = None
        self.nontrivial = False
        self.silent = set()      # keys already reported in this history
        self.dead = False
        self.views = views       # read every user-visible view of every reference after every operation
        self.kept = []           # ItemSpaces created earlier: (op, item, impl) - alive ones are re-checked after edits
        self.hist = HistCorr()   # the state machine of Kernels/RelativeHist.lean, fed one operation per edit

    # -- driver batching
    def ask(self, lines, handler):
        self.pending.append((len(self.lines), len(lines), handler))
        self.lines += lines

    def flush(self):
        while self.lines:
            lines, pending = self.lines, self.pending
            self.lines, self.pending = [], []
            res = Driver.ask(lines)
            for start, n, handler in pending:
                handler(res[start:start + n])

    def fail(self, what, k, detail=None, key=None):
        if key is not None:
            if key in self.silent:
                return
            self.silent.add(key)
        self.out.fail(what, {"ops": self.ops[:k + 1]}, detail=detail, key=key)

    def disagree(self, k, impl, model):
        self.out.disagree({"ops": self.ops[:k + 1]}, k, impl, model, layer="relative")

    # -- main loop
    def run(self):
        close_all()
        live = Live("M")
        self.live = live
        try:
            for k, op in enumerate(self.ops):
                self.stats["op:" + op[0]] += 1
                if not self.step(k, op):
                    break
                if self.dead or unkeyed(self.out) >= 4:
                    break
            self.flush()
            self.finish_hist()
        finally:
            try:
                self.live.close()
            except Exception:
                pass
            close_all()
            if self.tmp:
                shutil.rmtree(self.tmp, ignore_errors=True)
        return self.nontrivial

    def finish_hist(self):
        self.hist.finish(self.out, lambda k: {"ops": self.ops[:k + 1]}, self.stats)

    def step(self, k, op):
        """one operation with its observations.  An exception that comes out of the implementation while the
        harness looks at the model (not while applying the operation: that is the operation's result) is an
        observation about the implementation and ends the history as a failure, not the check as a crash"""
        try:
            if op[0] == "item":
                self.op_item(k, op)
            elif op[0] == "roundtrip":
                self.hist.stop(k, "roundtrip")
                self.op_roundtrip(k, op)
            elif op[0] == "evalrefs":
                self.op_evalrefs(k)
            else:
                self.op_edit(k, op)
            return True
        except core.Infra:
            raise
        except Exception as e:
            if not core.raised_by_impl(e):
                raise
            self.fail("the model cannot be observed after %s: modelx raised %s" % (op[0], core.impl_error_text(e)), k)
            self.lines, self.pending = [], []
            self.dead = True
            return False

    # -- edits
    def op_edit(self, k, op):
        live = self.live
        pre = None
        hyp = None
        if op[0] == "set_ref":
            pre = self.before_set_ref(op)
        if op[0] in ("new_space", "add_bases") :
            hyp = self.hypothetical(op)
        before_refs = self.ref_objects()
        r = live.apply(op)
        self.hist.after(live, k, op, r)
        if r.startswith("err"):
            self.stats["rejected:" + op[0] + ":" + r[4:]] += 1
            self.after_rejected(k, op, r, pre, hyp)
            return
        if pre is not None:
            self.after_set_ref(k, op, pre)
        self.track_definers(k, op, before_refs)
        self.snapshot(k)

    def ref_objects(self):
        out = {}
        for path, s in W.all_spaces(self.live.m):
            for name, r in s._impl.own_refs.items():
                out[(path, name)] = r
        return out

    def before_set_ref(self, op):
        """which path SpaceManager takes and which sub spaces its loop visits, in its order"""
        live = self.live
        try:
            s = live.space(op[1])._impl
        except Exception:
            return None
        name = op[2]
        kind = "change" if name in s.own_refs else "new"
        subs = []
        for sub in s.spmgr._get_subs(s):
            if kind == "new":
                if name in sub.own_refs:
                    continue
            else:
                sr = sub.own_refs.get(name)
                if sr is None or sr.is_defined():
                    continue
                # `subref.defined_bases[0] is not space.own_refs[name]` is evaluated after the space's
                # reference was replaced by a defined one: the first definer along the sub space's
                # linearisation, counting the space itself as a definer
                first = None
                for b in sub.bases:
                    if b is s or (name in b.own_refs and b.own_refs[name].is_defined()):
                        first = b
                        break
                if first is not s:
                    continue
            subs.append(sub.idstr)
        mode = op[4] if len(op) > 4 else "auto"
        v = op[3]
        if isinstance(v, (list, tuple)) and v and v[0] == "obj":
            val = ("obj", v[1])
        else:
            val = ("plain", str(v))
        return {"kind": kind, "subs": subs, "space": s.idstr, "mode": mode, "val": val, "name": name,
                "world": world_lines(live)}

    def after_set_ref(self, k, op, pre):
        """the references the loop created: the kernel's loop over the visited sub spaces is an
        admitted alternative to re-derivation for exactly these objects (it differs from it only in
        the flag of references that hold no valid object)"""
        if not pre["subs"]:
            return
        lines = list(pre["world"])
        lines.append("refloop %s %s %s %s %s %s" % (
            "1" if pre["kind"] == "change" else "0", pre["mode"], pre["space"], pre["val"][0], pre["val"][1],
            ",".join(pre["subs"])))
        refs = {}
        for sub in pre["subs"]:
            try:
                refs[sub] = self.live.space(sub)._impl.own_refs.get(pre["name"])
            except Exception:
                refs[sub] = None
        base = len(pre["world"])

        def handler(res, pre=pre, refs=refs):
            loop = res[base].split(" | ")
            for i, sub in enumerate(pre["subs"]):
                exp = loop[i] if i < len(loop) else "mnh"
                if refs[sub] is not None:
                    self.alt[id(refs[sub])] = (refs[sub],) + self.resolve(exp)
        self.ask(lines, handler)
        self.flush()

    def resolve(self, exp):
        """a model answer `bound <target> <flag>` with the target resolved to the live object now
        (names change under renames, objects do not)"""
        parts = exp.split(" ")
        if parts[0] != "bound":
            return (exp, None, None)
        t = parts[1]
        if t.startswith("obj:"):
            return ("obj", self.live.lookup(t[4:]), parts[2])
        if t == "null":
            return ("null", None, parts[2])
        return ("plain", t[6:], parts[2])

    def hypothetical(self, op):
        """the world as it would be after a new_space / add_bases, to predict rejections"""
        live = self.live
        try:
            if op[0] == "new_space":
                path = op[2] if op[1] == "-" else op[1] + "." + op[2]
                bases = list(op[3] or [])
                if not bases:
                    return None
            else:
                path = op[1]
                s = live.space(path)
                bases = [b._impl.idstr for b in s._direct_bases] + list(op[2])
            for b in bases:
                live.space(b)
        except Exception:
            return None
        return {"path": path, "bases": bases}

    def after_rejected(self, k, op, r, pre, hyp):
        """a rejected edit: the kernel must predict the rejection; what the failed edit left behind is
        C11's subject, so the history ends here"""
        kind = r[4:].split(" ")[0]
        # (an impossible linearisation is detected on a copy of the graph: nothing was touched)
        self.dead = kind != "Type"
        if op[0] == "set_ref" and pre is not None and kind in ("Value", "Runtime"):
            # _check_subs_relrefs over all sub spaces that do not define the name
            live = self.live
            lines = list(pre["world"])
            n0 = len(lines)
            try:
                s = live.space(op[1])._impl
                subs = [x.idstr for x in s.spmgr._get_subs(s) if op[2] not in x.own_refs or pre["kind"] == "change"]
            except Exception:
                subs = pre["subs"]
            allsubs = []
            try:
                s = live.space(op[1])._impl
                for x in s.spmgr._get_subs(s):
                    allsubs.append(x.idstr)
            except Exception:
                pass
            for sub in allsubs:
                lines.append("check %s %s %s %s %s" % (pre["mode"], sub, pre["space"], pre["val"][0], pre["val"][1]))
                lines.append("rel %s %s %s" % (sub, pre["space"], pre["val"][1] if pre["val"][0] == "obj" else "-"))

            def handler(res, kind=kind):
                raised = any(x == "raise" for x in res[n0::2])
                mnh = any(x == "mnh" for x in res[n0 + 1::2]) and pre["val"][0] == "obj"
                if kind == "Value" and not raised:
                    self.disagree(k, r, "model: no sub space rejects the relative reference")
                if kind == "Runtime":
                    self.runtime_error(k, op, r, mnh)
            self.ask(lines, handler)
            self.flush()
            return
        if op[0] in ("new_space", "add_bases") and hyp is not None and kind in ("Value", "Runtime"):
            self.predict_structural(k, op, r, hyp, kind)
            return
        if kind in ("Value", "Runtime", "Attribute", "Key", "Name", "Type"):
            self.stats["unpredicted_rejection:" + op[0] + ":" + kind] += 1

    def predict_structural(self, k, op, r, hyp, kind):
        live = self.live
        lines = ["reset"]
        members = {}
        for path, s in W.all_spaces(live.m):
            members[path] = list(s.cells) + list(s._impl.own_refs)
        inherited = []
        for b in hyp["bases"]:
            for n in members.get(b, []):
                if n not in inherited:
                    inherited.append(n)
        for path, s in W.all_spaces(live.m):
            if path == hyp["path"]:
                continue
            bases = [b._impl.idstr for b in s._direct_bases]
            lines.append("space %s %s %s" % (path, ",".join(bases) or "-", ",".join(members[path]) or "-"))
        own = members.get(hyp["path"], [])
        lines.append("space %s %s %s" % (hyp["path"], ",".join(hyp["bases"]), ",".join(own + [n for n in inherited if n not in own]) or "-"))
        # the space itself and every space inheriting from it are derived again
        targets = [hyp["path"]]
        try:
            simpl = live.space(hyp["path"])._impl
            targets += [x.idstr for x in simpl.spmgr._get_subs(simpl)]
        except Exception:
            pass
        n0 = len(lines)
        for t in targets:
            lines.append("mro " + t)

        def handler(res):
            qs = []
            for t, line in zip(targets, res[n0:]):
                mro = line.split(" ")[1:]
                # first definer of each reference name along the linearisation
                seen = set()
                try:
                    own_def = set(n for n, rr in live.space(t)._impl.own_refs.items() if rr.is_defined())
                except Exception:
                    own_def = set()
                for b in mro[1:]:
                    try:
                        bi = live.space(b)._impl
                    except Exception:
                        continue
                    for n, rr in bi.own_refs.items():
                        if rr.is_defined() and n not in seen and n not in own_def:
                            seen.add(n)
                            c = classify(rr.interface)
                            try:
                                cur = live.space(t)._impl.own_refs.get(n)
                            except Exception:
                                cur = None
                            qs.append("inherit %s %s %s %s %s R" % (rr.refmode, t, b, c[0], c[1]))
            if not qs:
                self.stats["unpredicted_rejection:%s:%s" % (op[0], kind)] += 1
                if kind == "Runtime":
                    self.runtime_error(k, op, r, False)
                return

            def handler2(res2):
                rej = any(x == "reject" for x in res2[len(lines):])
                mnh = any(x == "mnh" for x in res2[len(lines):])
                if kind == "Value" and not rej:
                    self.stats["unpredicted_rejection:%s:%s" % (op[0], kind)] += 1
                if kind == "Runtime":
                    self.runtime_error(k, op, r, mnh)
                if kind == "Value" and rej:
                    self.stats["predicted_rejection:relative_out_of_scope"] += 1
            self.ask(lines + qs, handler2)
        self.ask(lines, handler)
        self.flush()

    def runtime_error(self, k, op, r, model_mnh):
        """a RuntimeError out of an edit ('must not happen'): never right, whatever the model says
        (for a space that has the definer in its linearisation the model proves it unreachable:
        static_never_must_not_happen)"""
        self.stats["runtime_error"] += 1
        self.fail("an edit of references / bases ended in RuntimeError", k,
                  detail={"op": op, "result": r, "model_reaches_must_not_happen": model_mnh})

    # -- tracking of definers: which derived reference objects changed their definer
    def track_definers(self, k, op, before_refs):
        cur = {}
        for path, s in W.all_spaces(self.live.m):
            for name, r in s._impl.own_refs.items():
                if r.is_derived():
                    b, dr = definer_of(s._impl, name)
                    if dr is None:
                        continue
                    old = self.prevdef.get(id(r))
                    if old is not None and old[0] is r and old[1] is not dr and old[2] != dr.refmode:
                        self.stats["definer_switch_with_other_mode"] += 1
                    cur[id(r)] = (r, dr, dr.refmode)
        self.prevdef = cur

    # -- every view of a reference shows the binding the reference has
    def views_agree(self, k):
        """What a reference denotes is observable in several ways: attribute access on the space, the `refs`
        mapping, the mapping of own references, the namespace formulas are bound to, a formula that reads the
        name, the reference proxy.  All of them must show the object the reference is bound to NOW (the binding
        itself is compared with the statement by oracle_static).  Reading the views also brings the lazily
        evaluated maps up to date BEFORE the next edit - a re-derivation that updates a reference in place and
        forgets to tell the maps is visible only then."""
        if not self.views:
            return
        live = self.live
        mname = live.m.name

        def same(a, b):
            if isinstance(a, Interface) or isinstance(b, Interface):
                return a is b
            return a == b

        for path, s in W.all_spaces(live.m):
            simpl = s._impl
            for name, r in list(simpl.own_refs.items()):
                want = r.interface
                views = [("attribute access %s.%s" % (path, name), lambda: getattr(s, name)),
                         ("%s.refs[%r]" % (path, name), lambda: s.refs[name]),
                         ("the own-reference mapping of %s under %r" % (path, name), lambda: s._own_refs[name]),
                         ("the namespace the formulas of %s are bound to, under %r," % (path, name),
                          lambda: simpl.namespace.interfaces[name]),
                         ("the reference proxy of %s.%s" % (path, name),
                          lambda: mx.get_object("%s.%s.%s" % (mname, path, name), as_proxy=True).value)]
                if "get_" + name in s.cells:
                    views.append(("the formula %s.get_%s, which returns what it reads under the name," % (path, name),
                                  lambda: s.cells["get_" + name]()))
                for what, f in views:
                    self.stats["views_compared"] += 1
                    try:
                        with quiet():
                            got = f()
                    except Exception as e:
                        self.fail("%s raises %s although the space has the reference" % (what, err_kind(e)), k)
                        continue
                    if isinstance(got, types.MethodType) and isinstance(got.__self__, mx.core.cells.CellsImpl):
                        got = got.__self__.interface      # formulas see a cells as the bound `call` of its implementation
                    if not same(got, want):
                        self.fail("%s shows %s but the reference is bound to %s (mode %s%s)" % (
                            what, W.val_repr(got) if isinstance(got, Interface) else repr(got),
                            W.val_repr(want) if isinstance(want, Interface) else repr(want), r.refmode,
                            ", derived" if r.is_derived() else ""), k)
                        break

    def recheck_items(self, k):
        """ItemSpaces created earlier in the history that are still alive after this operation must show what
        the statement says for the references of their base tree as they are NOW (an edit that re-binds a
        reference of the base either discards the ItemSpace or updates it)"""
        kept = []
        for op, item, impl in self.kept:
            try:
                alive = item._is_valid() and item._impl is impl
            except Exception:
                alive = False
            if not alive:
                continue
            kept.append((op, item, impl))
            try:
                base = impl._dynbase
                if not base.interface._is_valid():
                    continue
            except Exception:
                continue
            plan = []

            def walk(b, rel):
                for name, br in b.own_refs.items():
                    plan.append((rel, name, br))
                for cn, ch in b.named_spaces.items():
                    walk(ch, rel + [cn])
            walk(base, [])
            self.stats["kept_items_rechecked"] += 1
            self.oracle_item(k, ["item", base.idstr], base, plan, item, None, again=True)
        self.kept = kept

    # -- the static snapshot: correspondence + oracle
    def snapshot(self, k, after_read=False):
        self.snapshot_refs(k, after_read)
        self.views_agree(k)
        self.recheck_items(k)

    def snapshot_refs(self, k, after_read=False):
        live = self.live
        lines = world_lines(live)
        n0 = len(lines)
        items = []
        for path, s in W.all_spaces(live.m):
            simpl = s._impl
            for name, r in simpl.own_refs.items():
                if not r.is_derived():
                    continue
                b, dr = definer_of(simpl, name)
                if dr is None:
                    continue
                c = classify(dr.interface)
                # (on_inherit takes the mode from the definer)
                lines.append("inherit %s %s %s %s %s %s" % (dr.refmode, path, b.idstr, c[0], c[1],
                                                             "R" if r.is_relative else "A"))
                # the reader assigns the references after the bases: a derived reference of a model
                # just read may come from the loop of new_ref / change_ref instead of on_inherit
                # (the two differ for a relative-mode reference re-assigned to an object outside:
                # change_ref does not reject it, and for the flag of references holding no object)
                lines.append("newref %s %s %s %s %s" % (dr.refmode, path, b.idstr, c[0], c[1]))
                got = classify(r.interface)
                obs = "bound %s %s" % (tgt_str(got), "R" if r.is_relative else "A")
                ident = True
                if got[0] == "obj":
                    ident = live.lookup(got[1]) is r.interface
                a = self.alt.get(id(r))
                alt = None
                if a is not None and a[0] is r:
                    if a[1] == "obj":
                        alt = got[0] == "obj" and r.interface is a[2] and ("R" if r.is_relative else "A") == a[3]
                    elif a[1] == "null":
                        alt = got[0] == "null" and ("R" if r.is_relative else "A") == a[3]
                    elif a[1] == "plain":
                        alt = got[0] == "plain" and got[1] == a[2]
                    else:
                        alt = False
                # a target below a child space of the definer: whether the counterpart existed when the
                # reference was last derived is history (children are not inherited); outside the statement
                desc = (c[0] == "obj" and under(b.idstr, c[1]) and c[1] != b.idstr
                        and not (c[1].count(".") == b.idstr.count(".") + 1 and c[1].rsplit(".", 1)[1] in b.cells))
                tr0 = tree_root(simpl, b)
                # a target in ANOTHER subtree of the enclosing pair of spaces (a sibling of the definer, something
                # below it): the sub space holds a null object when the counterpart did not exist yet at the time of
                # the last derivation - history again, and outside the statement (it speaks of the defining space
                # and its cells under static derivation)
                cross = (c[0] == "obj" and got[0] == "null" and tr0 is not None and under(tr0[1], c[1])
                         and not under(b.idstr, c[1]))
                items.append((path, name, got, obs, ident, alt, desc or cross, s, r, b, dr, tr0, c[0] == "null"))
        if not items:
            self.last = {}
            return
        self.stats["derived_refs_compared"] += len(items)
        op = self.ops[k] if k < len(self.ops) else ["?"]
        newlast = {}

        def handler(res, items=items, k=k):
            for n, (path, name, got, obs, ident, alt, desc, s, r, b, dr, tr, dangling) in enumerate(items):
                exp = res[n0 + 2 * n]
                exp_new = res[n0 + 2 * n + 1]
                if got[0] == "plain":
                    # the flag of a reference that holds no object means nothing: not compared
                    obs = obs.rsplit(" ", 1)[0]
                    exp_c = exp.rsplit(" ", 1)[0] if exp.startswith("bound") else exp
                else:
                    exp_c = exp
                ok = obs == exp_c
                newlast[id(r)] = (r, r.interface, bool(r.is_relative), ok, tr)
                if ok:
                    self.enclosing.pop(id(r), None)
                if not ok and alt:
                    ok = True
                    self.stats["matched_loop_alternative"] += 1
                    if exp == "reject":
                        self.chg_rel[id(r)] = r
                if not ok and after_read and obs == (exp_new if got[0] != "plain" else exp_new.rsplit(" ", 1)[0]):
                    ok = True
                    self.alt[id(r)] = (r,) + self.resolve(exp_new)
                    self.stats["matched_loop_alternative_after_read"] += 1
                    if exp == "reject":
                        self.chg_rel[id(r)] = r
                if not ok and desc:
                    # (typically: null object although the counterpart exists now, because it was created
                    # after the last derivation; or the counterpart was renamed / deleted since)
                    ok = True
                    ident = True
                    self.stats["static_descendant_history"] += 1
                if not ok and dangling:
                    # the definer's target was deleted (a dangling reference, C13's subject); what the
                    # sub spaces still hold is history
                    ok = True
                    ident = True
                    self.stats["definer_dangling_history"] += 1
                if not ok:
                    # the outermost related pair of spaces changed (a base change, deletion or rename at
                    # an enclosing level) and this reference was not derived again
                    old = self.last.get(id(r))
                    if id(r) in self.enclosing or (
                            old is not None and old[0] is r and old[3] and old[4] != tr
                            and op[0] in ("add_bases", "remove_bases", "del_space", "rename_space", "new_space")
                            and (old[1] is r.interface or classify(r.interface)[0] == "null")
                            and old[2] == bool(r.is_relative)):
                        self.enclosing[id(r)] = r
                        self.stats["enclosing_pair_changed_not_rederived"] += 1
                        ok = True
                if not ok:
                    self.disagree(k, "%s.%s %s" % (path, name, obs), "%s.%s %s" % (path, name, exp))
                    continue
                if not ident:
                    self.disagree(k, "%s.%s holds an object named %s that is not the object of that name" % (
                        path, name, got[1]), "identity")
        self.ask(lines, handler)
        self.flush()
        self.last = newlast
        for (path, name, got, obs, ident, alt, desc, s, r, b, dr, tr, dangling) in items:
            self.oracle_static(k, path, name, s, r, b, dr)

    def oracle_static(self, k, path, name, s, r, dspace, dr):
        """the statement, evaluated on the implementation alone"""
        live = self.live
        dmode = dr.refmode
        T = dr.interface
        val = r.interface
        where = "%s.%s (defined in %s, mode %s)" % (path, name, dspace.idstr, dmode)
        try:
            proxy = mx.get_object("%s.%s.%s" % (live.m.name, path, name), as_proxy=True)
            pmode = proxy.refmode
        except Exception as e:
            pmode = "err " + err_kind(e)
        if pmode != dmode:
            self.fail("ReferenceProxy.refmode of the derived reference %s is %r, its definer's mode is %r" % (
                where, pmode, dmode), k)
            self.nontrivial = True
            return      # with a stale mode the binding follows the stale mode; one failure is enough
        if not (isinstance(T, Interface) and T._is_valid()):
            if not isinstance(T, Interface) and not (val is T or val == T):
                self.fail("%s holds %r, the definer holds %r" % (where, val, T), k)
            return
        self.nontrivial = True
        tpath = T._impl.idstr
        dpath = dspace.idstr
        expected = None
        expflag = None
        if dmode == "absolute":
            expected, expflag = T, False
        else:
            tr = tree_root(s._impl, dspace)
            if tpath == dpath:
                expected, expflag = s, True
            elif under(dpath, tpath) and tpath.count(".") == dpath.count(".") + 1 and T._impl.parent is dspace \
                    and T._impl.name in dspace.cells:
                expected, expflag = s.cells.get(T._impl.name), True
            elif tr is not None and not under(tr[1], tpath):
                if dmode == "auto":
                    expected, expflag = T, False
        if expected is None:
            return
        if val is not expected:
            key = KEY_ENCL if self.enclosing.get(id(r)) is r else None
            self.fail("%s denotes %s, the statement requires %s" % (
                where, W.val_repr(val) if isinstance(val, Interface) else repr(val), W.val_repr(expected)), k, key=key)
            return
        if bool(r.is_relative) != expflag:
            if self.enclosing.get(id(r)) is r:
                return
            self.fail("%s: is_relative is %s although the binding is %s" % (
                where, r.is_relative, "relative" if expflag else "absolute"), k)

    # -- formulas reading the references evaluate
    def op_evalrefs(self, k):
        live = self.live
        self.views_agree(k)
        for path, s in W.all_spaces(live.m):
            for cn in list(s.cells):
                if not cn.startswith("use_"):
                    continue
                rn = cn[4:]
                if rn not in s._impl.own_refs:
                    continue
                v = s._impl.own_refs[rn].interface
                if isinstance(v, Interface) and not v._is_valid():
                    # the reference holds a DELETED object: the formula is evaluated for real - it must raise
                    # (a value would have been computed through an object that no longer exists)
                    try:
                        with quiet():
                            got = s.cells[cn](1)
                    except Exception:
                        self.stats["formulas_on_deleted_object_raise"] = \
                            self.stats.get("formulas_on_deleted_object_raise", 0) + 1
                    else:
                        self.fail("formula %s.%s reading reference %s, which holds a deleted object, returned %r" % (
                            path, cn, rn, got), k)
                    continue
                if not (isinstance(v, Interface) and isinstance(v, mx.core.cells.Cells)):
                    # the reference was rebound to something that is not a cells (a space, a plain value): what
                    # `ref(1) + 1` means then is not C10's business, and calling a space would create an ItemSpace
                    # (a change of the state the history is compared on) - not evaluated, counted
                    self.stats["formulas_not_evaluated_noncells"] = self.stats.get("formulas_not_evaluated_noncells", 0) + 1
                    continue
                try:
                    with quiet():
                        got = s.cells[cn](1)
                        want = v(1) + 1
                except Exception as e:
                    self.fail("formula %s.%s reading reference %s failed: %s" % (path, cn, rn, err_kind(e)), k)
                    continue
                self.stats["formulas_evaluated"] += 1
                if got != want:
                    self.fail("formula %s.%s reading reference %s gives %r, the referenced cells gives %r" % (
                        path, cn, rn, got, want), k)

    # -- ItemSpace trees
    def op_item(self, k, op):
        """["item", path] : path[1]; ["item", path, child] : path[1].child[2] (nested ItemSpace)"""
        live = self.live
        try:
            P = live.space(op[1])
        except Exception:
            # the space was never created (an earlier op of the history was refused): spaces are addressed by
            # name, there is no object to subscript
            self.stats["item_no_such_space"] = self.stats.get("item_no_such_space", 0) + 1
            return
        child = op[2] if len(op) > 2 else None
        # the static base of the ItemSpace to be created
        try:
            base = P._impl if child is None else live.space(op[1] + "." + child)._impl
        except Exception:
            self.stats["item_no_such_space"] = self.stats.get("item_no_such_space", 0) + 1
            return
        if P._impl.formula is None:
            # not parametrised (the `params` op was refused): the subscript is made for real - it must raise
            # and must not create anything
            before = len(P._impl.param_spaces) if hasattr(P._impl, "param_spaces") else None
            try:
                with quiet():
                    got = P[1]
            except Exception:
                self.stats["item_on_unparametrised_raises"] = self.stats.get("item_on_unparametrised_raises", 0) + 1
            else:
                self.fail("%s[1] on a space without parameters returned %r" % (op[1], got), k)
            after = len(P._impl.param_spaces) if hasattr(P._impl, "param_spaces") else None
            if before != after:
                self.fail("%s[1] on a space without parameters changed its ItemSpaces" % op[1], k)
            return
        if base.formula is None:
            # the nested ItemSpace of a child without parameters: `path[1].child[2]` has no base to compare with
            self.stats["item_child_unparametrised"] = self.stats.get("item_child_unparametrised", 0) + 1
            return
        root = base.idstr
        # expectations from the static base tree, in the order of _init_dynbaserefs
        plan = []       # (owner relative name, name, base reference)

        def walk(b, rel):
            for name, br in b.own_refs.items():
                plan.append((rel, name, br))
            for cn, ch in b.named_spaces.items():
                walk(ch, rel + [cn])
        walk(base, [])
        lines = world_lines(live)
        n0 = len(lines)
        for rel, name, br in plan:
            c = classify(br.interface)
            lines.append("wrap %s %s %s %s %s %s %s" % (
                root, ".".join(rel) or "-", br.refmode, "R" if br.is_relative else "A",
                "1" if br.is_defined() else "0", c[0], c[1]))
        err = None
        item = None
        try:
            with quiet():
                item = P[1]
                if child is not None:
                    for p in child.split("."):
                        item = getattr(item, p)
                    item = item[2]
                # the reference dictionaries are evaluated lazily: touch every dynamic space
                todo = [item._impl]
                while todo:
                    d = todo.pop(0)
                    d._dynbase_refs.fresh
                    d.namespace.fresh
                    todo += list(d.named_spaces.values())
        except Exception as e:
            item = None
            err = mx.get_error() if isinstance(e, mx.core.errors.FormulaError) else e
            err = err_kind(err) if err is not None else err_kind(e)
        self.stats["item_created" if err is None else "item_failed:" + err] += 1
        observed = []
        if item is not None:
            rootimpl = item._impl
            for rel, name, br in plan:
                dyn = rootimpl
                for p in rel:
                    dyn = dyn.named_spaces[p]
                x = dyn._dynbase_refs.fresh.get(name)
                observed.append(self.dyn_classify(x, br, rootimpl))
        # implementation-only oracle first (needs nothing from the model)
        recog = self.oracle_item(k, op, base, plan, item, err)

        def handler(res, plan=plan, observed=observed, err=err, recog=recog, k=k):
            exps = res[n0:]
            bad = {"missing": "Attribute", "reject": "Value", "mnh": "Runtime"}
            first_bad = next(((i, e) for i, e in enumerate(exps) if e in bad), None)
            if err is not None:
                if first_bad is None:
                    self.disagree(k, "ItemSpace creation raised " + err, "model: every reference wraps")
                elif bad[first_bad[1]] != err:
                    self.disagree(k, "ItemSpace creation raised " + err, "model: " + first_bad[1])
                else:
                    self.confirm_item_finding(k, op, first_bad[0], first_bad[1], recog)
                return
            if first_bad is not None:
                self.disagree(k, "ItemSpace created", "model: %s for %s" % (first_bad[1], plan[first_bad[0]][1]))
                return
            for (rel, name, br), obs, exp in zip(plan, observed, exps):
                if obs != exp:
                    self.disagree(k, "%s[..].%s %s: %s" % (op[1], ".".join(rel), name, obs), exp)
            self.stats["dyn_refs_compared"] += len(plan)
        self.ask(lines, handler)
        self.flush()
        # the instance stays: an edit that changes what it was built from has to discard (or update) it, which
        # recheck_items looks at after every later operation
        if item is not None:
            self.kept = [x for x in self.kept if x[1] is not item][-6:] + [(op, item, item._impl)]

    def dyn_classify(self, x, br, rootimpl):
        if x is br:
            return "keep"
        if x is None:
            return "missing"
        if isinstance(x, ReferenceImpl):
            return "otherref"
        names = []
        cur = x
        while cur is not rootimpl:
            names.append(cur.name)
            cur = getattr(cur, "parent", None)
            if cur is None or cur is rootimpl.parent or len(names) > 8:
                return "other:" + getattr(x, "idstr", "?")
        return "dyn " + (".".join(reversed(names)) or "-")

    def oracle_item(self, k, op, base, plan, item, err, again=False):
        """statement for ItemSpace trees, on the implementation alone; returns the references (index in
        plan) whose rejection is by design: relative mode with a target outside the base"""
        live = self.live
        root = base.idstr
        recog = {}
        by_design = False
        for i, (rel, name, br) in enumerate(plan):
            T = br.interface
            if not (isinstance(T, Interface) and T._is_valid()):
                continue
            tpath = T._impl.idstr
            inside = under(root, tpath)
            if br.is_defined():
                dmode = br.refmode
            else:
                owner = base
                for p in rel:
                    owner = owner.named_spaces[p]
                _, dr = definer_of(owner, name)
                dmode = dr.refmode if dr is not None else br.refmode
            if dmode == "relative" and not inside:
                by_design = True          # a relative reference that cannot be relative: rejected
                recog.setdefault(i, "by-design")
                continue
            if item is None:
                continue
            self.nontrivial = True
            dyn = item
            try:
                for p in rel:
                    dyn = getattr(dyn, p)
                if name in ("i",):
                    continue
                got = getattr(dyn, name)
            except Exception as e:
                self.fail("reading %s of the dynamic space %s.%s failed: %s" % (name, op[1], ".".join(rel), err_kind(e)), k)
                continue
            if dmode == "auto" and inside and br.is_derived() and not br.is_relative and br.refmode == "auto":
                # the base space derives the reference from a space outside, where the target is not in
                # the definer's tree: bound absolutely there, and wrap_impl only looks at that flag
                if got is T:
                    self.fail("an auto reference that the ItemSpace's base tree derives from a space outside it (absolute "
                              "binding there) and whose target lies inside the base's tree is not rebound to the dynamic tree",
                              k, key=KEY_DYN_ABS)
                    continue
            if dmode == "relative" and inside and br.is_derived() and not br.is_relative and br.refmode == "relative" \
                    and self.chg_rel.get(id(br)) is br:
                # change_ref accepted a relative reference that is not relative for this sub space
                if got is T:
                    self.fail("a relative reference re-assigned (change_ref) to an object outside a sub space's tree is not "
                              "rejected: the sub space holds a relative-mode reference bound absolutely, which ItemSpaces do "
                              "not rebind although the target lies inside their base's tree", k, key=KEY_CHG_REL)
                    continue
            if dmode != "absolute" and inside:
                want = item
                try:
                    for p in tpath[len(root) + 1:].split(".") if tpath != root else []:
                        want = getattr(want, p)
                except Exception:
                    want = None
                if want is None or got is not want:
                    self.fail("in the ItemSpace of %s%s the %s reference %s.%s to %s (inside the base's tree) denotes %s, "
                              "not the corresponding object of the dynamic tree" % (
                                  root, " (created before the last edit, still alive)" if again else "",
                                  dmode, ".".join([root] + rel), name, tpath, W.val_repr(got)), k)
                    continue
            else:
                want = T
                if got is not T:
                    self.fail("in the ItemSpace of %s%s the %s reference %s.%s to %s (%s) denotes %s, not the original" % (
                        root, " (created before the last edit, still alive)" if again else "", dmode,
                        ".".join([root] + rel), name, tpath,
                        "absolute" if dmode == "absolute" else "outside the base's tree", W.val_repr(got)), k)
                    continue
            # the other views of the reference inside the dynamic space: the `refs` mapping, the namespace its
            # formulas are bound to, a formula that reads the name
            views = [("%s.refs[%r]", lambda: dyn.refs[name]),
                     ("the namespace the formulas are bound to in %s, under %r,", lambda: dyn._impl.namespace.interfaces[name])]
            if "get_" + name in dyn.cells:
                views.append(("the formula get_%s of %%s, which returns what it reads under the name %%r," % name,
                              lambda: dyn.cells["get_" + name]()))
            for what, f in views:
                self.stats["item_views_compared"] += 1
                try:
                    with quiet():
                        v = f()
                except Exception as e:
                    self.fail("in the ItemSpace of %s %s raises %s although the dynamic space has the reference" % (
                        root, what % (".".join([root + "[..]"] + rel), name), err_kind(e)), k)
                    break
                if isinstance(v, types.MethodType) and isinstance(v.__self__, mx.core.cells.CellsImpl):
                    v = v.__self__.interface
                if v is not want:
                    self.fail("in the ItemSpace of %s %s shows %s but attribute access (and the statement) give %s" % (
                        root, what % (".".join([root + "[..]"] + rel), name),
                        W.val_repr(v) if isinstance(v, Interface) else repr(v), W.val_repr(want)), k)
                    break
        if err is not None:
            keys = [v for v in recog.values()]
            if not keys:
                self.fail("the ItemSpace of %s cannot be created: %s" % (root, err), k)
        self._item_by_design = by_design
        return recog

    def confirm_item_finding(self, k, op, idx, model_result, recog):
        """creation failed and the model predicts exactly this failure for the reference plan[idx]:
        right only for a relative-mode reference with a target outside the base (rejected by design)"""
        key = recog.get(idx)
        if key is None:
            if recog:       # (with an empty recog oracle_item has already reported the failure)
                self.fail("the ItemSpace of %s cannot be created" % op[1], k)
            return
        if key == "by-design":
            if model_result != "reject":
                self.disagree(k, "ItemSpace creation rejected a relative reference", "model: " + model_result)
            self.stats["item_rejected_relative_outside"] += 1
            return
        self.fail("the ItemSpace of %s cannot be created" % op[1], k)

    # -- write / read
    def op_roundtrip(self, k, op):
        live = self.live
        self.history_refs = set()     # derived references whose binding is history (see snapshot)
        before, objs = self.describe_refs()
        if self.tmp is None:
            self.tmp = tempfile.mkdtemp(prefix="mxh_c10_")
        path = os.path.join(self.tmp, "m%d" % k)
        try:
            with quiet():
                live.m.write(path)
        except Exception as e:
            self.stats["write_failed:" + err_kind(e)] += 1
            return
        try:
            with quiet():
                m2 = mx.read_model(path, name="M2")
        except Exception as e:
            self.stats["read_failed:" + err_kind(e)] += 1
            # reading fails for models in which a reference name is defined more than once along a
            # lineage (C04-ref-override-order / C04-relref-override-order): C04's findings
            return
        old = live.m
        live.m = m2
        after, objs_after = self.describe_refs()
        self.stats["roundtrips"] += 1
        self.nontrivial = True
        # the model read back is a new history of object identities
        self_enclosing_before = self.enclosing
        self.alt, self.prevdef = {}, {}
        self.enclosing, self.last, self.chg_rel = {}, {}, {}
        self.track_definers(k, op, {})
        self.snapshot(k, after_read=True)
        for key in sorted(set(before) | set(after)):
            b, a = before.get(key), after.get(key)
            if b == a:
                continue
            if b is not None and a is not None and b[0] and (b[2] == "null" or key in self.history_refs):
                # a derived reference to a descendant of the definer (or to a deleted object): the
                # counterpart is looked up again while reading (outside the statement, see snapshot)
                self.stats["roundtrip_history_rebound"] += 1
                continue
            r = objs.get(key)
            r2 = objs_after.get(key)
            if b is not None and a is not None and b[:3] == a[:3]:
                # only the flag differs
                self.fail("write/read changed is_relative of %s.%s: %s -> %s" % (key[0], key[1], b, a), k)
                continue
            if self_enclosing_before.get(id(r)) is r and r is not None:
                # a binding left behind by an enclosing base change (known finding) is derived anew
                self.stats["roundtrip_rederived_after_enclosing_change"] += 1
                self.fail("write/read changed the reference %s.%s: %s -> %s" % (key[0], key[1], b, a), k, key=KEY_ENCL)
                continue
            self.fail("write/read changed the reference %s.%s: %s -> %s" % (key[0], key[1], b, a), k)
        try:
            old.close()
        except Exception:
            pass

    def describe_refs(self):
        """modes and bindings of all references; the mode of a reference that holds no modelx object is
        not written at all (C04-refmode-noninterface) and means nothing: not compared"""
        d, objs = {}, {}
        for path, s in W.all_spaces(self.live.m):
            for name, r in s._impl.own_refs.items():
                if r.is_derived() and definer_of(s._impl, name)[1] is None:
                    continue        # left behind by the deletion of its definer's space: C13's subject
                c = classify(r.interface)
                isobj = c[0] == "obj"
                d[(path, name)] = (bool(r.is_derived()), r.refmode if isobj else None, tgt_str(c),
                                   bool(r.is_relative) if isobj else None)
                objs[(path, name)] = r
                if r.is_derived():
                    b, dr = definer_of(s._impl, name)
                    cd = classify(dr.interface)
                    if cd[0] == "null" or (cd[0] == "obj" and under(b.idstr, cd[1]) and cd[1] != b.idstr and not (
                            cd[1].count(".") == b.idstr.count(".") + 1 and cd[1].rsplit(".", 1)[1] in b.cells)):
                        self.history_refs.add((path, name))
        return d, objs


# ----------------------------------------------------------------------------- the grid

def chain(depth, leaf, prefix):
    """dotted name of a space at nesting depth `depth` (1 = top level) ending in `leaf`"""
    names = [prefix + str(i) for i in range(depth - 1)] + [leaf]
    return names


def mk_spaces(ops, names, bases_last=None, created=None):
    """create the chain of spaces"""
    for i in range(len(names)):
        path = ".".join(names[:i + 1])
        if created is not None and path in created:
            continue
        parent = ".".join(names[:i]) or "-"
        ops.append(["new_space", parent, names[i], (bases_last if i == len(names) - 1 and bases_last else [])])
        if created is not None:
            created.add(path)


RN = {"auto": "ra", "relative": "rl", "absolute": "rb"}


SIB_PLACEMENTS = ["sib", "sibcells", "sibgrand", "sibgrcells"]


def grid_case(modes, placement, holder, ddepth, sdepth, deriver, sib=None):
    """the operations of one configuration, or None when the combination makes no sense.
    sib = "before" / "after": the definer has a SECOND child space Sib (cells ss, child Sg with cells gg) created
    before / after the child Ch that may hold the reference - the target placements sib, sibcells, sibgrand,
    sibgrcells lie across the children, in both creation orders"""
    ops = []
    created = set()
    dn = chain(ddepth, "Def", "Pa")
    D = ".".join(dn)
    mk_spaces(ops, dn, created=created)
    ops.append(["cells", D, "cc", 1])
    if (placement in SIB_PLACEMENTS) != (sib is not None):
        return None

    def mk_sib(parent, bases=None):
        ops.append(["new_space", parent, "Sib", [bases + ".Sib"] if bases else []])
        if not bases:
            ops.append(["cells", parent + ".Sib", "ss", 6])
        ops.append(["new_space", parent + ".Sib", "Sg", [bases + ".Sib.Sg"] if bases else []])
        if not bases:
            ops.append(["cells", parent + ".Sib.Sg", "gg", 7])
    if sib == "before":
        mk_sib(D)
    ops.append(["new_space", D, "Ch", []])
    ops.append(["cells", D + ".Ch", "dd", 2])
    ops.append(["new_space", D + ".Ch", "Gr", []])
    ops.append(["cells", D + ".Ch.Gr", "ee", 3])
    if sib == "after":
        mk_sib(D)
    ops.append(["new_space", "-", "Out", []])
    ops.append(["cells", "Out", "oo", 4])
    if ddepth > 1:
        ops.append(["cells", ".".join(dn[:-1]), "pp", 5])
    H = {"def": D, "ch": D + ".Ch", "gr": D + ".Ch.Gr"}[holder]
    target = {
        "self": ("obj", D), "cells": ("obj", D + ".cc"), "child": ("obj", D + ".Ch"),
        "chcells": ("obj", D + ".Ch.dd"), "grand": ("obj", D + ".Ch.Gr"), "grcells": ("obj", D + ".Ch.Gr.ee"),
        "up": ("obj", ".".join(dn[:-1]) + ".pp") if ddepth > 1 else None,
        "out": ("obj", "Out"), "outcells": ("obj", "Out.oo"), "plain": 7,
        "sib": ("obj", D + ".Sib"), "sibcells": ("obj", D + ".Sib.ss"), "sibgrand": ("obj", D + ".Sib.Sg"),
        "sibgrcells": ("obj", D + ".Sib.Sg.gg"),
    }[placement]
    if target is None:
        return None
    if sib is not None and deriver not in DYNAMIC_DERIVERS:
        return None         # (across children nothing is said about static derivation: children are not inherited)
    iscells = placement in ("cells", "chcells", "grcells", "up", "outcells", "sibcells", "sibgrcells")
    sn = chain(sdepth, "Sub", "Qa")
    S = ".".join(sn)

    def define():
        for mode in modes:
            ops.append(["set_ref", H, RN[mode], target, mode])
            if iscells:
                ops.append(["usecells", H, "use_" + RN[mode], RN[mode]])

    if deriver == "bases":
        if holder != "def":
            return None
        define()
        mk_spaces(ops, sn[:-1], created=created)
        ops.append(["new_space", ".".join(sn[:-1]) or "-", "Sub", [D]])
    elif deriver == "addbases":
        if holder != "def":
            return None
        define()
        mk_spaces(ops, sn, created=created)
        ops.append(["add_bases", S, [D]])
    elif deriver == "late":
        if holder != "def":
            return None
        mk_spaces(ops, sn[:-1], created=created)
        ops.append(["new_space", ".".join(sn[:-1]) or "-", "Sub", [D]])
        ops.append(["new_space", "-", "Sub2", [D]])
        define()
    elif deriver == "subsub":
        if holder != "def":
            return None
        define()
        mk_spaces(ops, sn[:-1], created=created)
        ops.append(["new_space", ".".join(sn[:-1]) or "-", "Sub", [D]])
        ops.append(["new_space", "-", "GSub", [S]])
    elif deriver == "nested":
        # the deriving space has children of the same names deriving the definer's children
        if holder == "gr":
            hrel = ["Ch", "Gr"]
        elif holder == "ch":
            hrel = ["Ch"]
        else:
            hrel = []
        define()
        mk_spaces(ops, sn[:-1], created=created)
        ops.append(["new_space", ".".join(sn[:-1]) or "-", "Sub", [D]])
        ops.append(["new_space", S, "Ch", [D + ".Ch"]])
        ops.append(["new_space", S + ".Ch", "Gr", [D + ".Ch.Gr"]])
    elif deriver == "nestedsub":
        # only the child derives: S.Ch derives D.Ch, S does not derive D
        if holder == "def":
            return None
        define()
        mk_spaces(ops, sn, created=created)
        ops.append(["new_space", S, "Ch", [D + ".Ch"]])
        if holder == "gr":
            ops.append(["new_space", S + ".Ch", "Gr", [D + ".Ch.Gr"]])
    elif deriver == "item":
        define()
        ops.append(["params", D])
        ops.append(["item", D])
    elif deriver == "itemnested":
        if holder == "def":
            return None
        define()
        ops.append(["params", D])
        ops.append(["params", D + ".Ch"])
        ops.append(["item", D, "Ch"])
    elif deriver == "itemderived":
        define()
        mk_spaces(ops, sn[:-1], created=created)
        ops.append(["new_space", ".".join(sn[:-1]) or "-", "Sub", [D]])
        if sib == "before":
            mk_sib(S, D)
        ops.append(["new_space", S, "Ch", [D + ".Ch"]])
        ops.append(["new_space", S + ".Ch", "Gr", [D + ".Ch.Gr"]])
        if sib == "after":
            mk_sib(S, D)
        ops.append(["params", S])
        ops.append(["item", S])
    elif deriver == "itemderivedchild":
        # the ItemSpace of a derived *child*: targets relative to the enclosing pair (Sub / Def) lie
        # outside the ItemSpace's base
        if holder == "def":
            return None
        define()
        mk_spaces(ops, sn[:-1], created=created)
        ops.append(["new_space", ".".join(sn[:-1]) or "-", "Sub", [D]])
        if sib == "before":
            mk_sib(S, D)
        ops.append(["new_space", S, "Ch", [D + ".Ch"]])
        ops.append(["new_space", S + ".Ch", "Gr", [D + ".Ch.Gr"]])
        if sib == "after":
            mk_sib(S, D)
        ops.append(["params", S + ".Ch"])
        ops.append(["item", S + ".Ch"])
    elif deriver == "itemchange":
        # the reference is re-assigned (change_ref) after the sub space derived it
        if holder != "def":
            return None
        for mode in modes:
            ops.append(["set_ref", H, RN[mode], ("obj", D + ".cc"), mode])
        mk_spaces(ops, sn[:-1], created=created)
        ops.append(["new_space", ".".join(sn[:-1]) or "-", "Sub", [D]])
        for mode in modes:
            ops.append(["set_ref", H, RN[mode], target, mode])
        ops.append(["params", S])
        ops.append(["item", S])
        ops.append(["params", D])
        ops.append(["item", D])
    else:
        return None
    ops.append(["evalrefs"])
    return ops


def grid(maxdepth):
    for deriver in STATIC_DERIVERS + DYNAMIC_DERIVERS:
        for ddepth in range(1, maxdepth + 1):
            sdepths = range(1, maxdepth + 1) if deriver in STATIC_DERIVERS + ["itemderived", "itemderivedchild", "itemchange"] else [1]
            for sdepth in sdepths:
                for holder in HOLDERS:
                    for placement in PLACEMENTS:
                        # auto and absolute never reject: one model for both; relative on its own
                        for modes in (("auto", "absolute"), ("relative",)):
                            ops = grid_case(modes, placement, holder, ddepth, sdepth, deriver)
                            if ops is not None:
                                yield ("+".join(modes), placement, holder, ddepth, sdepth, deriver), ops
    # references ACROSS the child spaces of the definer: the target lies in (is) a sibling of the child that holds
    # the reference, the sibling created before / after that child (ItemSpace derivers only)
    for deriver in DYNAMIC_DERIVERS:
        for order in ("before", "after"):
            for ddepth in range(1, maxdepth):
                for holder in HOLDERS:
                    for placement in SIB_PLACEMENTS:
                        for modes in (("auto", "absolute"), ("relative",)):
                            ops = grid_case(modes, placement, holder, ddepth, 1, deriver, sib=order)
                            if ops is not None:
                                yield ("+".join(modes), placement + "-" + order, holder, ddepth, 1, deriver), ops


# ----------------------------------------------------------------------------- scenarios (edit histories)

def scenarios():
    S = []
    base = [["new_space", "-", "Base", []], ["cells", "Base", "foo", 1], ["cells", "Base", "bar", 2],
            ["new_space", "-", "Out", []], ["cells", "Out", "oo", 3]]
    refs3 = [["set_ref", "Base", "ra", ("obj", "Base.foo"), "auto"],
             ["set_ref", "Base", "rl", ("obj", "Base.foo"), "relative"],
             ["set_ref", "Base", "rb", ("obj", "Base.foo"), "absolute"],
             ["usecells", "Base", "use_ra", "ra"], ["usecells", "Base", "use_rl", "rl"]]
    subs = [["new_space", "-", "Sub", ["Base"]], ["new_space", "-", "GSub", ["Sub"]]]
    # override the target cells in the sub, delete the override (mutA's history)
    S.append(("override-delete-cells", base + refs3 + subs + [
        ["evalrefs"], ["set_src", "Sub", "foo", 0], ["evalrefs"], ["del_cells", "Sub", "foo"], ["evalrefs"],
        ["params", "Sub"], ["item", "Sub"], ["set_src", "GSub", "foo", 1], ["del_cells", "GSub", "foo"], ["evalrefs"]]))
    # override the reference in the sub, delete the override
    S.append(("override-delete-ref", base + refs3 + subs + [
        ["set_ref", "Sub", "ra", ("obj", "Out.oo"), "auto"], ["evalrefs"], ["del_ref", "Sub", "ra"], ["evalrefs"],
        ["set_ref", "Sub", "rl", ("obj", "Sub.bar"), "relative"], ["del_ref", "Sub", "rl"], ["evalrefs"]]))
    # change mode
    S.append(("change-mode", base + refs3 + subs + [
        ["set_ref", "Base", "ra", ("obj", "Base.foo"), "absolute"], ["evalrefs"],
        ["set_ref", "Base", "rb", ("obj", "Base.foo"), "relative"], ["evalrefs"],
        ["set_ref", "Base", "rl", ("obj", "Base.foo"), "auto"], ["evalrefs"], ["roundtrip"], ["evalrefs"]]))
    # change target: inside -> inside, inside -> the space, -> plain
    S.append(("change-target", base + refs3 + subs + [
        ["set_ref", "Base", "ra", ("obj", "Base.bar"), "auto"], ["evalrefs"],
        ["set_ref", "Base", "rl", ("obj", "Base"), "relative"],
        ["set_ref", "Base", "rb", ("obj", "Out.oo"), "absolute"],
        ["set_ref", "Base", "ra", 5, "auto"], ["set_ref", "Base", "ra", ("obj", "Base.foo"), "auto"], ["evalrefs"],
        ["roundtrip"], ["evalrefs"]]))
    # delete and re-create the target cells
    S.append(("recreate-target", base + refs3 + subs + [
        ["del_cells", "Base", "foo"], ["evalrefs"],
        ["set_ref", "Base", "ra", 0, "auto"], ["set_ref", "Base", "rl", 0, "relative"], ["set_ref", "Base", "rb", 0, "absolute"],
        ["cells", "Base", "foo", 7],
        ["set_ref", "Base", "ra", ("obj", "Base.foo"), "auto"],
        ["set_ref", "Base", "rl", ("obj", "Base.foo"), "relative"],
        ["set_ref", "Base", "rb", ("obj", "Base.foo"), "absolute"], ["evalrefs"]]))
    # add / remove bases
    S.append(("add-remove-bases", base + refs3 + [
        ["new_space", "-", "Sub", []], ["add_bases", "Sub", ["Base"]], ["evalrefs"],
        ["remove_bases", "Sub", ["Base"]], ["add_bases", "Sub", ["Base"]], ["new_space", "-", "GSub", ["Sub"]],
        ["evalrefs"], ["remove_bases", "GSub", ["Sub"]], ["add_bases", "GSub", ["Base"]], ["evalrefs"],
        ["roundtrip"], ["evalrefs"]]))
    # rename
    S.append(("rename", base + refs3 + subs + [
        ["rename_cells", "Base", "foo", "baz"], ["evalrefs"], ["rename_space", "Sub", "Sab"], ["evalrefs"],
        ["rename_space", "Base", "Bese"], ["evalrefs"], ["new_space", "-", "Late", ["Bese"]], ["evalrefs"],
        ["roundtrip"], ["evalrefs"]]))
    # save / load with nested definers and derivers
    S.append(("roundtrip-nested", [
        ["new_space", "-", "Pa", []], ["cells", "Pa", "pp", 1], ["new_space", "Pa", "Def", []], ["cells", "Pa.Def", "cc", 2],
        ["new_space", "Pa.Def", "Ch", []], ["cells", "Pa.Def.Ch", "dd", 3], ["new_space", "-", "Out", []], ["cells", "Out", "oo", 4],
        ["set_ref", "Pa.Def", "r1", ("obj", "Pa.Def"), "relative"], ["set_ref", "Pa.Def", "r2", ("obj", "Pa.Def.cc"), "auto"],
        ["set_ref", "Pa.Def", "r3", ("obj", "Pa.Def.Ch.dd"), "auto"], ["set_ref", "Pa.Def", "r4", ("obj", "Out.oo"), "auto"],
        ["set_ref", "Pa.Def", "r5", ("obj", "Pa.pp"), "auto"], ["set_ref", "Pa.Def", "r6", ("obj", "Pa.Def.cc"), "absolute"],
        ["set_ref", "Pa.Def.Ch", "c1", ("obj", "Pa.Def"), "auto"], ["set_ref", "Pa.Def.Ch", "c2", ("obj", "Pa.Def.cc"), "relative"],
        ["new_space", "-", "Qa", ["Pa"]], ["new_space", "Qa", "Sub", ["Pa.Def"]], ["new_space", "Qa.Sub", "Ch", ["Pa.Def.Ch"]],
        ["new_space", "-", "Top", ["Pa.Def"]], ["roundtrip"], ["evalrefs"], ["params", "Pa.Def"], ["item", "Pa.Def"],
        ["roundtrip"], ["item", "Pa.Def"]]))
    # dotted names that end with one another (A.B and B, A.B.C and B.C), both directions, with edits
    S.append(("trailing-names", [
        ["new_space", "-", "Bsp", []], ["cells", "Bsp", "foo", 1], ["new_space", "Bsp", "Csp", []], ["cells", "Bsp.Csp", "cc", 2],
        ["set_ref", "Bsp", "ra", ("obj", "Bsp"), "auto"], ["set_ref", "Bsp", "rl", ("obj", "Bsp.foo"), "relative"],
        ["set_ref", "Bsp.Csp", "rc", ("obj", "Bsp.foo"), "auto"], ["set_ref", "Bsp.Csp", "rd", ("obj", "Bsp.Csp.cc"), "relative"],
        ["usecells", "Bsp", "use_rl", "rl"],
        ["new_space", "-", "Asp", []], ["new_space", "Asp", "Bsp", ["Bsp"]], ["new_space", "Asp.Bsp", "Csp", ["Bsp.Csp"]],
        ["evalrefs"], ["set_ref", "Bsp", "ra", ("obj", "Bsp.foo"), "auto"], ["set_ref", "Bsp.Csp", "rc", ("obj", "Bsp"), "relative"],
        ["new_space", "-", "Csp", ["Asp.Bsp.Csp"]], ["evalrefs"], ["params", "Asp.Bsp"], ["item", "Asp.Bsp"],
        ["remove_bases", "Asp.Bsp.Csp", ["Bsp.Csp"]], ["add_bases", "Asp.Bsp.Csp", ["Bsp.Csp"]], ["roundtrip"], ["evalrefs"]]))
    # a definer change through remove_bases / del_ref with different modes
    S.append(("definer-switch", [
        ["new_space", "-", "Bone", []], ["new_space", "-", "Btwo", []],
        ["set_ref", "Bone", "rr", ("obj", "Bone"), "auto"], ["set_ref", "Btwo", "rr", ("obj", "Btwo"), "auto"],
        ["set_ref", "Bone", "rs", ("obj", "Bone"), "absolute"], ["set_ref", "Btwo", "rs", ("obj", "Btwo"), "relative"],
        ["new_space", "-", "Sub", ["Bone", "Btwo"]], ["new_space", "-", "GSub", ["Sub"]],
        ["remove_bases", "Sub", ["Bone"]], ["add_bases", "Sub", ["Bone"]],
        ["del_ref", "Btwo", "rr"], ["set_ref", "Sub", "rs", ("obj", "Sub"), "auto"], ["del_ref", "Sub", "rs"],
        ["roundtrip"]]))
    S += new_ref_family()
    S += cross_child_family()
    return S


def new_ref_family():
    """A reference created in a base (new_ref) AFTER sub spaces exist that derive the name from a later base - possible
    when the name also exists at model level.  The sub spaces' references are re-pointed in place; every view of them
    (attribute, refs, namespace, a formula, an ItemSpace built before the edit) was read before the edit and must
    show the new binding afterwards.  new mode x mode of the later base's reference x target kind x shape."""
    fam = []
    for new_mode in MODES:
        for old_mode in ("absolute", "auto"):
            for tk in ("cells", "space"):
                for shape in ("via-sub", "direct", "sub-of-sub"):
                    t1 = ("obj", "Bone.foo") if tk == "cells" else ("obj", "Bone")
                    t2 = ("obj", "Btwo.bar") if tk == "cells" else ("obj", "Btwo")
                    ops = [["set_mref", "rx", 0], ["new_space", "-", "Bone", []], ["new_space", "-", "Btwo", []],
                           ["cells", "Bone", "foo", 1], ["cells", "Btwo", "bar", 2], ["set_ref", "Btwo", "rx", t2, old_mode]]
                    if shape == "via-sub":
                        ops += [["new_space", "-", "Sone", ["Bone"]], ["new_space", "-", "Sub", ["Sone", "Btwo"]]]
                    elif shape == "direct":
                        ops += [["new_space", "-", "Sub", ["Bone", "Btwo"]]]
                    else:
                        ops += [["new_space", "-", "Sone", ["Bone", "Btwo"]], ["new_space", "-", "Sub", ["Sone"]]]
                    ops += [["getcells", "Sub", "get_rx", "rx"]]
                    if tk == "cells":
                        ops += [["usecells", "Sub", "use_rx", "rx"]]
                    ops += [["params", "Sub"], ["item", "Sub"], ["evalrefs"],
                            ["set_ref", "Bone", "rx", t1, new_mode], ["evalrefs"], ["item", "Sub"],
                            ["del_ref", "Bone", "rx"], ["evalrefs"], ["item", "Sub"]]
                    fam.append(("new-ref-earlier-base/%s-over-%s/%s/%s" % (new_mode, old_mode, tk, shape), ops))
    return fam


def cross_child_family():
    """References ACROSS the child spaces of a parametrised space, under edits.  S has the children C (with a child K)
    and D (with cells foo and a child E with cells baz); a reference held by C or by C.K points at the sibling D, at
    its cells, at its descendant E, at E's cells - with D created before or after C (the ItemSpace builds its
    children in creation order, so one of the two orders is a FORWARD reference), in every mode.  The ItemSpace is
    built, rebuilt after a formula change in the target, after a new cells in S, and after write/read; every view of
    the reference inside the ItemSpace is compared with what the mode says each time."""
    fam = []
    targets = {"space": "S.D", "cells": "S.D.foo", "descendant": "S.D.E", "descendant-cells": "S.D.E.baz"}
    for order in ("target-first", "holder-first"):
        for mode in MODES:
            for tk, tpath in targets.items():
                for holder in ("S.C", "S.C.K"):
                    mk_d = [["new_space", "S", "D", []], ["cells", "S.D", "foo", 1], ["new_space", "S.D", "E", []],
                            ["cells", "S.D.E", "baz", 2]]
                    mk_c = [["new_space", "S", "C", []], ["cells", "S.C", "bar", 3], ["new_space", "S.C", "K", []],
                            ["cells", "S.C.K", "kk", 4]]
                    ops = [["new_space", "-", "S", []], ["cells", "S", "top", 0]]
                    ops += (mk_d + mk_c) if order == "target-first" else (mk_c + mk_d)
                    ops += [["set_ref", holder, "rx", ("obj", tpath), mode], ["getcells", holder, "get_rx", "rx"]]
                    if tk.endswith("cells"):
                        ops += [["usecells", holder, "use_rx", "rx"]]
                    ops += [["params", "S"], ["item", "S"], ["evalrefs"],
                            ["set_src", "S.D", "foo", 5], ["item", "S"],
                            ["cells", "S", "late", 6], ["item", "S"],
                            ["roundtrip"], ["item", "S"], ["evalrefs"]]
                    fam.append(("cross-child/%s/%s/%s/%s" % (order, mode, tk, holder), ops))
    return fam


def known_witnesses():
    return [
        ("fixed-suffix-clash", [
            ["new_space", "-", "Asp", []], ["new_space", "Asp", "Bsp", []], ["set_ref", "Asp.Bsp", "rr", 3, "auto"],
            ["new_space", "-", "Bsp", ["Asp.Bsp"]], ["set_ref", "Asp.Bsp", "rr", ("obj", "Asp.Bsp"), "auto"]]),
        ("fixed-suffix-clash-2", [
            ["new_space", "-", "Bsp", []], ["set_ref", "Bsp", "rr", ("obj", "Bsp"), "auto"],
            ["new_space", "-", "Asp", []], ["new_space", "Asp", "Bsp", ["Bsp"]]]),
        ("fixed-refmode-stale", [
            ["new_space", "-", "Bone", []], ["new_space", "-", "Btwo", []],
            ["set_ref", "Bone", "rr", ("obj", "Bone"), "absolute"], ["set_ref", "Btwo", "rr", ("obj", "Btwo"), "auto"],
            ["new_space", "-", "Sub", ["Bone", "Btwo"]], ["remove_bases", "Sub", ["Bone"]]]),
        ("fixed-change-ref-flag", [
            ["new_space", "-", "Base", []], ["cells", "Base", "foo", 1], ["new_space", "-", "Out", []], ["cells", "Out", "oo", 2],
            ["set_ref", "Base", "rr", ("obj", "Base.foo"), "auto"], ["new_space", "-", "Sub", ["Base"]],
            ["set_ref", "Base", "rr", ("obj", "Out.oo"), "auto"], ["params", "Sub"], ["item", "Sub"]]),
        ("fixed-dyn-derived-auto-outside", [
            ["new_space", "-", "Ysp", []], ["cells", "Ysp", "foo", 1], ["new_space", "Ysp", "Ch", []],
            ["set_ref", "Ysp.Ch", "rr", ("obj", "Ysp.foo"), "auto"], ["new_space", "-", "Xsp", ["Ysp"]],
            ["new_space", "Xsp", "Ch", ["Ysp.Ch"]], ["params", "Xsp.Ch"], ["item", "Xsp.Ch"]]),
        ("fixed-ref-loop-null-threading", [
            ["new_space", "-", "Ysp", []], ["new_space", "Ysp", "Ch", []], ["new_space", "Ysp", "Other", []],
            ["new_space", "-", "Xsp", ["Ysp"]], ["new_space", "Xsp", "Ch", ["Ysp.Ch"]], ["new_space", "-", "Zsp", ["Ysp.Ch"]],
            ["set_ref", "Ysp.Ch", "rr", ("obj", "Ysp.Other"), "auto"]]),
        ("known-enclosing-base-change", [
            ["new_space", "-", "Ysp", []], ["cells", "Ysp", "foo", 1], ["new_space", "Ysp", "Ch", []],
            ["set_ref", "Ysp.Ch", "rr", ("obj", "Ysp.foo"), "auto"], ["new_space", "-", "Xsp", ["Ysp"]],
            ["new_space", "Xsp", "Ch", ["Ysp.Ch"]], ["remove_bases", "Xsp", ["Ysp"]]]),
        ("fixed-change-ref-relative-unchecked", [
            ["new_space", "-", "Base", []], ["new_space", "-", "Sub", []], ["new_space", "Base", "Gr", []],
            ["set_ref", "Base.Gr", "rc", ("obj", "Sub"), "absolute"], ["params", "Base"],
            ["new_space", "Base", "Kid", ["Base.Gr"]], ["cells", "Base", "baz", 2],
            ["set_ref", "Base.Gr", "rc", ("obj", "Base.baz"), "relative"], ["item", "Base"]]),
        ("known-dyn-derived-absolute-inside", [
            ["new_space", "-", "Base", []], ["new_space", "-", "Sub", []], ["set_ref", "Sub", "rb", ("obj", "Base"), "auto"],
            ["new_space", "Base", "Ch", ["Sub"]], ["params", "Base"], ["item", "Base"]]),
        ("fixed-dyn-name-prefix", [
            ["new_space", "-", "Base", []], ["new_space", "-", "Base2", []], ["cells", "Base2", "foo", 1],
            ["set_ref", "Base", "rr", ("obj", "Base2.foo"), "auto"], ["params", "Base"], ["item", "Base"]]),
    ]


# ----------------------------------------------------------------------------- random edit histories

TOPS = ["Base", "Sub", "Out", "Mid", "Bas"]
KIDS = ["Ch", "Gr", "Kid"]
CELLN = ["foo", "bar", "baz"]
REFN = ["ra", "rb", "rc", "rd"]


def gen_next(rng, live, ops):
    spaces = W.all_spaces(live.m)
    paths = [p for p, _ in spaces]
    if len(paths) < 2:
        nm = [t for t in TOPS if t not in live.m.spaces][0]
        return ["new_space", "-", nm, []]
    path, s = rng.choice(spaces)
    simpl = s._impl
    r = rng.random()
    objs = []
    for p, sp in spaces:
        objs.append(p)
        for c in sp.cells:
            if not c.startswith(("use_", "get_")):
                objs.append(p + "." + c)

    def has_subs(sp):
        return len(sp._impl.spmgr._get_subs(sp._impl)) > 0

    def tail():
        q = rng.random()
        if q < 0.3:
            # a model-level reference named like the references of the spaces (it makes the name visible everywhere,
            # so that a base may get a reference its sub spaces already derive from elsewhere), or its removal
            have = [n for n in REFN if n in live.m.refs]
            if have and rng.random() < 0.25:
                return ["del_mref", rng.choice(have)]
            return ["set_mref", rng.choice(REFN), rng.randint(0, 9)]
        if q < 0.5:
            plain = [n for n, rr in simpl.own_refs.items() if rr.is_defined() and ("get_" + n) not in s.cells]
            if plain:
                n = rng.choice(plain)
                return ["getcells", path, "get_" + n, n]
        refs_cells = [n for n, rr in simpl.own_refs.items()
                      if rr.is_defined() and isinstance(rr.interface, mx.core.cells.Cells) and ("use_" + n) not in s.cells]
        if refs_cells:
            n = rng.choice(refs_cells)
            return ["usecells", path, "use_" + n, n]
        return ["evalrefs"]

    if 0.46 <= r < 0.50:
        return tail()
    if r < 0.13:
        # new space, often deriving, sometimes nested with the name of a base's child
        parent = rng.choice(["-"] + [p for p in paths if p.count(".") < 2])
        pool = TOPS if parent == "-" else KIDS
        taken = set(live.m.spaces) if parent == "-" else set(live.space(parent).spaces)
        free = [n for n in pool if n not in taken]
        if not free:
            return ["evalrefs"]
        nm = rng.choice(free)
        if parent != "-" and rng.random() < 0.15 and "Sub" not in taken:
            nm = "Sub"          # a child named like a top-level space: one dotted name ends with the other
        newp = nm if parent == "-" else parent + "." + nm
        cand = [b for b in paths if b != parent and not under(b, newp) and not under(newp, b)
                and not (parent != "-" and under(b, parent))]
        k = rng.choice([0, 1, 1, 1, 2])
        bases = rng.sample(cand, min(len(cand), k))
        if len(bases) == 2 and live.space(bases[0])._impl in live.space(bases[1])._impl.bases:
            bases.reverse()     # a space before the spaces it derives from
        if parent != "-" and rng.random() < 0.5:
            # derive the like-named child of a base of the parent
            for b in live.space(parent)._impl.bases:
                if nm in b.named_spaces:
                    bases = [b.idstr + "." + nm]
                    break
        return ["new_space", parent, nm, bases]
    if r < 0.20:
        free = [c for c in CELLN if c not in s.cells and c not in s._impl.own_refs]
        if free:
            return ["cells", path, rng.choice(free), rng.randint(0, 5)]
    if r < 0.46:
        # assign a reference: new name, re-assignment (mode / target change), override in a sub
        mode = rng.choice(MODES)
        own = [n for n, rr in simpl.own_refs.items() if rr.is_defined()]
        der = [n for n, rr in simpl.own_refs.items() if rr.is_derived()]
        q = rng.random()
        if own and q < 0.45:
            nm = rng.choice(own)
        elif der and q < 0.6:
            nm = rng.choice(der)
        else:
            free = [n for n in REFN if n not in simpl.own_refs and n not in s.cells]
            # a new reference in a base whose sub spaces already have the name from another
            # definer is C03's subject (new_ref skips them): not generated here
            # - unless a model-level reference of the name exists: then new_ref accepts the name and has to
            # re-point the sub spaces that derived it from a later base (the views of those sub spaces included)
            free = [n for n in free if n in live.m.refs or not any(n in x.own_refs for x in simpl.spmgr._get_subs(simpl))]
            if not free:
                return ["evalrefs"]
            nm = rng.choice(free)
        q = rng.random()
        inside = [o for o in objs if under(path, o)]
        # elsewhere in the tree the holder sits in: a space above it, a sibling (created before or after it), the
        # sibling's cells and descendants - a reference across the children of one space
        across = [o for o in objs if under(path.split(".")[0], o) and not under(path, o)] if "." in path else []
        if q < 0.55 and inside:
            tgt = ("obj", rng.choice(inside))
        elif q < 0.72 and across:
            tgt = ("obj", rng.choice(across))
        elif q < 0.9:
            tgt = ("obj", rng.choice(objs))
        else:
            tgt = rng.randint(0, 9)
        if mode == "relative" and isinstance(tgt, tuple) and not under(path.split(".")[0], tgt[1]) and rng.random() < 0.9:
            mode = "auto"
        op = ["set_ref", path, nm, tgt, mode]
        return op
    if r < 0.55:
        own = [n for n, rr in simpl.own_refs.items() if rr.is_defined()]
        if own:
            return ["del_ref", path, rng.choice(own)]
    if r < 0.60:
        der = [c for c in s.cells if s.cells[c]._is_derived() and not c.startswith(("use_", "get_"))]
        if der:
            return ["set_src", path, rng.choice(der), rng.randint(0, 3)]
    if r < 0.66:
        own = [c for c in s.cells if not s.cells[c]._is_derived() and not c.startswith(("use_", "get_"))]
        if own:
            return ["del_cells", path, rng.choice(own)]
    if r < 0.71:
        mine = [b._impl.idstr for b in s._direct_bases]
        cand = [b for b in paths if b != path and not under(b, path) and not under(path, b) and b not in mine
                and simpl not in live.space(b)._impl.bases
                and not any(live.space(x)._impl in live.space(b)._impl.bases for x in mine)]
        if cand:
            return ["add_bases", path, [rng.choice(cand)]]
    if r < 0.76:
        db = [b._impl.idstr for b in s._direct_bases]
        if db:
            return ["remove_bases", path, [rng.choice(db)]]
    if r < 0.79:
        own = [c for c in s.cells if not s.cells[c]._is_derived() and not c.startswith(("use_", "get_"))]
        free = [c for c in CELLN if c not in s.cells
                and not any(c in x.namespace for x in simpl.spmgr._get_subs(simpl))]
        if own and free:
            return ["rename_cells", path, rng.choice(own), rng.choice(free)]
    if r < 0.82:
        pool = TOPS if "." not in path else KIDS
        parent = live.m if "." not in path else live.space(path.rsplit(".", 1)[0])
        free = [n for n in pool + ["Ren"] if n not in parent.spaces]
        if free:
            return ["rename_space", path, rng.choice(free)]
    if r < 0.84 and len(paths) > 3:
        return ["del_space", path]
    if r < 0.90:
        if simpl.formula is None:
            return ["params", path]
        return ["item", path]
    if r < 0.93:
        # nested ItemSpace
        for cn, ch in s.spaces.items():
            if simpl.formula is not None and ch._impl.formula is not None:
                return ["item", path, cn]
        if s.spaces and simpl.formula is not None:
            return ["params", path + "." + rng.choice(list(s.spaces))]
    if r < 0.96:
        return ["roundtrip"]
    return tail()


def run_random(rng, n_ops, out, stats, tag):
    ops = []
    run = Run(ops, out, stats, tag)
    close_all()
    live = Live("M")
    run.live = live
    try:
        k = 0
        while k < n_ops and not run.dead and unkeyed(out) < 4:
            try:
                op = gen_next(rng, live, ops)
            except core.Infra:
                raise
            except Exception as e:
                if not core.raised_by_impl(e) or not ops:
                    raise
                run.fail("the model cannot be observed after %s: modelx raised %s" % (ops[-1][0], core.impl_error_text(e)), k - 1)
                break
            ops.append(op)
            stats["op:" + op[0]] += 1
            if not run.step(k, op):
                break
            live = run.live      # (a roundtrip replaces the model object)
            k += 1
        run.flush()
        run.finish_hist()
    finally:
        try:
            run.live.close()
        except Exception:
            pass
        close_all()
        if run.tmp:
            shutil.rmtree(run.tmp, ignore_errors=True)
    return ops, run.nontrivial


# ----------------------------------------------------------------------------- shrinking

def fails_same(ops, what_key):
    sub = core.Outcome()
    Run(ops, sub, collections.Counter(), "shrink").run()
    for f in sub.failures:
        if (f.get("key"), f["what"].split(":")[0][:40]) == what_key:
            return True
    return False


def shrink(ops, failure):
    """greedy deletion of single operations while the same failure is reported"""
    sig = (failure.get("key"), failure["what"].split(":")[0][:40])
    cur = list(ops)
    changed = True
    rounds = 0
    while changed and rounds < 4:
        changed = False
        rounds += 1
        i = len(cur) - 1
        while i >= 0:
            cand = cur[:i] + cur[i + 1:]
            try:
                if fails_same(cand, sig):
                    cur = cand
                    changed = True
            except Exception:
                pass
            i -= 1
    return cur


# ----------------------------------------------------------------------------- entry points

def jsonable(ops):
    return json.loads(json.dumps(ops))


def norm_ops(ops):
    """tuples inside operations come back from JSON as lists"""
    out = []
    for o in ops:
        o = list(o)
        for i, x in enumerate(o):
            if isinstance(x, list) and x and x[0] == "obj":
                o[i] = ("obj", x[1])
        out.append(o)
    return out


def run_case(ops, out, stats, tag):
    sub = core.Outcome()
    nt = Run(norm_ops(ops), sub, stats, tag).run()
    for f in sub.failures:
        if f.get("key") is None and len(ops) > 6:
            try:
                small = shrink(norm_ops(f["history"]["ops"]), f)
                f["history"] = {"ops": jsonable(small)}
            except Exception:
                pass
        else:
            f["history"] = {"ops": jsonable(f["history"]["ops"])}
    for d in sub.disagreements:
        d["history"] = {"ops": jsonable(d["history"]["ops"])}
    out.failures += sub.failures
    out.disagreements += sub.disagreements
    return nt


def load_corpus():
    d = os.path.join(core.CORPUS_DIR, "C10")
    res = []
    if os.path.isdir(d):
        for f in sorted(os.listdir(d)):
            if f.endswith(".json"):
                res.append((f, norm_ops(json.load(open(os.path.join(d, f)))["ops"])))
    return res


def unkeyed(out):
    return sum(1 for f in out.failures if f.get("key") is None)


def run(ctx, out):
    stats = collections.Counter()
    nontrivial, seen, samples = 0, set(), []
    cases = 0
    dist = collections.Counter()
    # 1. corpus (witnesses of the known findings) and scenarios
    for name, ops in load_corpus():
        run_case(ops, out, stats, "corpus:" + name)
        cases += 1
    for name, ops in scenarios():
        nt = run_case(ops, out, stats, "scenario:" + name)
        cases += 1
        nontrivial += bool(nt)
        seen.add(repr(ops))
        dist["scenario"] += 1
    # 2. the grid
    maxdepth = ctx.n(2, 3)
    for cfg, ops in grid(maxdepth):
        nt = run_case(ops, out, stats, "grid:" + "/".join(map(str, cfg)))
        cases += 1
        key = repr(ops)
        if key not in seen:
            seen.add(key)
            nontrivial += bool(nt)
        dist["grid:deriver=" + cfg[5]] += 1
        dist["grid:placement=" + cfg[1]] += 1
        for md in cfg[0].split("+"):
            dist["grid:mode=" + md] += 1
        dist["grid:holder=" + cfg[2]] += 1
        dist["grid:depths=%d/%d" % (cfg[3], cfg[4])] += 1
        if len(samples) < 2 and cfg[1] == "cells" and cfg[5] in ("nested", "item"):
            samples.append([repr(o) for o in ops])
        if unkeyed(out) > 40 or len(out.disagreements) > 40:
            break
    # 3. random edit histories
    n_hist = ctx.n(120, 2500)
    for i in range(n_hist):
        rng = ctx.rng("hist", i)
        sub = core.Outcome()
        ops, nt = run_random(rng, rng.randint(14, 30), sub, stats, "random:%d" % i)
        cases += 1
        for f in sub.failures:
            if f.get("key") is None:
                try:
                    f["history"] = {"ops": jsonable(shrink(norm_ops(f["history"]["ops"]), f))}
                except Exception:
                    f["history"] = {"ops": jsonable(f["history"]["ops"])}
            else:
                f["history"] = {"ops": jsonable(f["history"]["ops"])}
        for d in sub.disagreements:
            d["history"] = {"ops": jsonable(d["history"]["ops"])}
        out.failures += sub.failures
        out.disagreements += sub.disagreements
        key = repr(ops)
        if key not in seen:
            seen.add(key)
            nontrivial += bool(nt)
        dist["random"] += 1
        if i < 1:
            samples.append([repr(o) for o in ops])
        if unkeyed(out) > 40 or len(out.disagreements) > 40:
            break
    Driver.close()
    dist.update(stats)
    out.coverage.update({
        "evaluations": cases,
        "programs": len(seen),
        "distinct_nontrivial": nontrivial,
        "rule": "histories distinct by operation text; non-trivial = at least one derived object-valued reference or "
                "one ItemSpace reference was checked against the statement (grid: 3 modes x 10 placements x 3 holders x "
                "definer/deriver depth <= %d x %d deriver kinds; %d scenarios; %d random edit histories)" % (
                    maxdepth, len(STATIC_DERIVERS + DYNAMIC_DERIVERS), len(scenarios()), n_hist),
        "samples": samples,
        "input_distribution": dict(dist),
        "derived_refs_compared": stats["derived_refs_compared"],
        "dyn_refs_compared": stats["dyn_refs_compared"],
        "traces_validated_against_impl": cases,
    })
    out.assumptions.append(
        "the world given to the model (direct bases, member names, each reference's stored mode and its definer's "
        "value) is read from modelx after every operation; that modelx maintains derived members along the C3 order "
        "is C03's subject")
    out.assumptions.append(
        "static derivation of references to descendant spaces (children are not inherited: null object) is compared "
        "with the model but is outside the statement; a rejected edit ends the history (what it leaves behind is C11's subject)")


def replay(ctx, payload, out):
    h = payload.get("history") or (payload.get("unexplained") or [{}])[-1].get("detail", {}).get("history")
    if h and "ops" in h:
        Run(norm_ops(h["ops"]), out, collections.Counter(), "replay").run()
    Driver.close()
