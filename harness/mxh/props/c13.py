"""C13 – deletion is complete: old handles raise, no value computed from it survives.

Oracle (implementation only): during random histories handles are taken at random points to
cells (defined and derived), spaces, child spaces and their cells.  After every operation
each earlier handle is either still the object found under its path – then it works – or it
is dead: every use raises the deleted-object error (never acts on orphaned state), it is in
no container, no base list, and no node of the dependency graph belongs to it.  At the end
every cells returns what it returns in a model to which only the edits were applied (no value
computed from a deleted object survives).
Lean (Props/C13.lean): in derivation from scratch a derived member exists only while some
space of the linearisation defines it – removing the last definer, the base relation or the
base itself removes the derived copy (corollaries of C03's characterisation).
"""
import collections

from .. import core
from .. import structworld as W
from .. import struct_props as S
from ..impl import mx, close_all, quiet
from modelx.core.errors import DeletedObjectError
from modelx.core.base import null_impl

F = S.F
CFG = {
    "enum_always": ("del_space", "del_cells", "remove_bases", "del_ref", "del_mref"),
    "weights": {"new_space": 2.0, "del_space": 2.0, "new_cells": 3.0, "set_formula": 1.0, "del_cells": 3.0,
                "rename_cells": 0.3, "add_bases": 2.0, "remove_bases": 2.5, "set_ref": 1.5, "del_ref": 1.5,
                "set_mref": 0.3, "eval": 3.0, "evalall": 0.6, "bad": 0.3, "set_cached": 0.6,
                # the SESSION's handle (mx.cur_space / model.cur_space / parent.cur_space) set to some space, mostly a
                # nested one, and API use through it (new_cells through cur_space(), mx.defcells)
                "cur_space": 1.2, "cur_cells": 1.2},
    # a reference that holds a cells or a space is a handle the MODEL keeps: a quarter of the references created
    "obj_refs": 0.25,
    # deletion must be complete whatever the caching mode of the deleted cells and of its readers
    "uncached_variants": True,
    "extra_motifs": [
        # a DERIVED cells held by a reference of an unrelated space and called by name there (deleting the
        # base member deletes the derived copy the reference holds)
        [["new_space", "-", "A", []], ["set_ref", "A", "s", 2], ["new_cells", "A", "f", F(2, 1, "f", "s")],
         ["new_space", "-", "B", ["A"]], ["new_space", "-", "C", []], ["set_ref", "C", "t", ["obj", "B.f"], "absolute"],
         ["new_cells", "C", "g", F(9, 1, "g", "t")], ["new_cells", "C", "h", F(1, 1, "g")]],
        # a cells and a space held by references of another space: called by name, read by attribute path
        [["new_space", "-", "A", []], ["new_cells", "A", "f", F(0, 1)], ["new_cells", "A", "k", F(1, 1, "f")],
         ["new_space", "-", "B", []], ["set_ref", "B", "t", ["obj", "A.k"], "absolute"],
         ["set_ref", "B", "s", ["obj", "A"], "absolute"], ["new_cells", "B", "g", F(9, 1, "g", "t")],
         ["new_cells", "B", "h", F(4, 1, "f", "r", "s")]],
        # asymmetric inheritance graphs (paths of different lengths to one space, sub spaces below the join): a deletion
        # or detachment at the top re-derives every space below, some of them before one of their bases
    ] + S.MOTIFS_DAG,
    # more than four top-level spaces in the random histories (deeper and wider inheritance graphs)
    "top_names": ["A", "B", "C", "D", "E", "G"],
}
RULE = ("random histories (14-28 ops) rich in deletions (cells, spaces with descendants, references, base "
        "relations, base members) with handles taken at earlier points; non-trivial = a handle to a derived member "
        "or to an object inside a deleted space died")


KNOWN_SPACE = "C13-deleted-space-uncached-cells"     # repaired by /repo 9b6c361: a `fixed` entry, excuses nothing


def resolve(model, path, kind, name):
    try:
        obj = model
        if path:
            for p in path.split("."):
                obj = obj.spaces[p]
        if kind == "space":
            return obj
        return obj.cells[name]
    except Exception:
        return None


def uses(h, kind):
    """a few representative uses of a handle"""
    yield "fullname", lambda: h.fullname
    if kind == "cells":
        yield "call", lambda: h(0)
        yield "formula", lambda: h.formula
        yield "len", lambda: len(h)
        yield "set", lambda: h.__setitem__(0, 1)
    else:
        yield "cells", lambda: list(h.cells)
        yield "new_cells", lambda: h.new_cells("zz", formula="lambda: 1")
        yield "bases", lambda: h.bases


class H(S.Hooks):
    def start(self, live, stats):
        self.handles = []   # (obj, path, kind, name, derived)
        self.k = 0
        self.objrefs = False
        self.pre = None
        self.uncached_in_deleted_space = False    # trigger of the known finding KNOWN_SPACE seen in this history
        self.reported_dead_nodes = set()

    def before(self, live, ops, k, op, stats):
        self.pre = self.snapshot(live) if op[0] not in ("eval", "evalall") else None
        if op[0] == "set_ref" and isinstance(op[3], (list, tuple)):
            self.objrefs = True     # orphaned evaluation through a dangling reference is a recorded finding
        # take handles now and then (deterministic: every third operation)
        self.k += 1
        if self.k % 3 == 0 and len(self.handles) < 24:
            for path, s in W.all_spaces(live.m):
                if not any(h[0] is s for h in self.handles):
                    self.handles.append((s, path, "space", None, False))
                for cn, c in s.cells.items():
                    if not any(h[0] is c for h in self.handles) and len(self.handles) < 24:
                        self.handles.append((c, path, "cells", cn, bool(c._is_derived())))

    @staticmethod
    def node_id(node):
        return (id(node[0]),) + tuple(repr(x) for x in node[1:])

    def snapshot(self, live):
        """ids of the live implementation objects and the current dependency edges"""
        impls = {}

        def add_tree(impl):
            impls[id(impl)] = impl
            for c in impl.cells.values():
                impls[id(c)] = c
            for it in impl.param_spaces.values():
                add_tree(it)
            for ch in impl.named_spaces.values():
                add_tree(ch)
        for sp in live.m._impl.spaces.values():
            add_tree(sp)
        g = live.m._impl.tracegraph
        return impls, list(g.edges), list(g.nodes)

    def after(self, live, ops, k, op, result, out, stats):
        if op[0] in ("eval", "evalall"):
            # an evaluation must not bring a deleted object back: no node of the dependency graph belongs
            # to an implementation object that is not in the model any more (nodes already reported after
            # the deletion itself are not reported again)
            alive = set(self.snapshot(live)[0])
            for node in live.m._impl.tracegraph.nodes:
                if id(node[0]) not in alive and self.node_id(node) not in self.reported_dead_nodes:
                    out.fail("an evaluation put a node of a deleted object (%r) into the dependency graph: something "
                             "was computed from it" % (node[0].name,), S.hist_json(ops, k))
                    break
            return
        hist = S.hist_json(ops, k)
        m = live.m
        # values computed from a deleted object must be gone right after the deletion (before any
        # re-evaluation): dependents, in the graph as it was before the operation, of the nodes of
        # objects that no longer exist
        if self.pre is not None:
            impls0, edges0, nodes0 = self.pre
            impls1, _, _ = self.snapshot(live)
            dead = set(impls0) - set(impls1)
            if any(len(n) == 1 and id(n[0]) in dead and hasattr(n[0], "is_cached") and not n[0].is_cached
                   and id(getattr(n[0], "parent", None)) in dead for n in nodes0):
                # a space (static or ItemSpace) went away together with an uncached cells that had been evaluated:
                # the recorded finding KNOWN_SPACE (the key-less node of the cells and what was computed through it
                # outlive the space)
                self.uncached_in_deleted_space = True
            if dead:
                succ = collections.defaultdict(list)
                for a, b in edges0:
                    succ[(id(a[0]),) + tuple(a[1:])].append(b)
                todo = [n for n in nodes0 if id(n[0]) in dead]
                seen = set()
                while todo:
                    n = todo.pop()
                    key = (id(n[0]),) + tuple(n[1:])
                    if key in seen:
                        continue
                    seen.add(key)
                    todo += succ.get(key, [])
                    if id(n[0]) in impls1 and len(n) == 2 and hasattr(n[0], "data") and n[1] in n[0].data \
                            and n[1] not in n[0].input_keys:
                        out.fail("%s%r still holds the value computed from an object deleted by %s" % (
                            n[0].get_fullname() if hasattr(n[0], "get_fullname") else n[0].name, n[1], op[0]), hist,
                            key=KNOWN_SPACE if self.uncached_in_deleted_space else None)
                        break
                stats["deletions_examined"] += 1
        # every derived member still has a definer (nothing derived from a deleted base survives)
        defs = W.definitions(m)
        exp = W.expected_members(defs, W.python_c3(defs))
        desc = W.describe(m, with_values=False)
        for p, sd in desc["spaces"].items():
            if exp.get(p) is None:
                continue
            for kind in ("cells", "refs"):
                for n, v in sd[kind].items():
                    if v["derived"] and n not in exp[p][kind]:
                        out.fail("%s.%s is a derived member although no base defines it any more (after %s)" % (
                            p, n, op[0]), hist)
        alive_impls = set()
        self.check_session_handle(live, op, result, out, hist, stats)

        def add_tree(impl):
            alive_impls.add(id(impl))
            for c in impl.cells.values():
                alive_impls.add(id(c))
            for it in impl.param_spaces.values():
                add_tree(it)
            for ch in impl.named_spaces.values():
                add_tree(ch)
        for sp in m._impl.spaces.values():
            add_tree(sp)
        for (h, path, kind, name, derived) in list(self.handles):
            cur = resolve(m, path, kind, name)
            stats["handle_checks"] += 1
            if cur is h:
                # still the object under its path: must work
                try:
                    with quiet():
                        h.fullname
                except Exception as e:
                    out.fail("a live handle (%s %s.%s) raises %r" % (kind, path, name, e), hist)
                continue
            # renamed objects keep living under another path
            if h._impl is not null_impl and id(h._impl) in alive_impls:
                continue
            if derived or "." in path:
                self.nontrivial = True
            for what, use in uses(h, kind):
                try:
                    with quiet():
                        use()
                    out.fail("handle to deleted %s %s%s still acts (%s succeeded) after %s" % (
                        kind, path, "." + name if name else "", what, op[0]), hist)
                    break
                except DeletedObjectError:
                    pass
                except Exception as e:
                    out.fail("handle to deleted %s %s%s raises %s instead of the deleted-object error on %s" % (
                        kind, path, "." + name if name else "", type(e).__name__, what), hist)
                    break
            # in no container / base list
            for p2, s2 in W.all_spaces(m):
                if kind == "space" and any(b is h for b in s2.bases):
                    out.fail("deleted space %s is still in the bases of %s" % (path, p2), hist)
                if kind == "cells" and any(c is h for c in s2.cells.values()):
                    out.fail("deleted cells %s.%s is still in %s.cells" % (path, name, p2), hist)
            self.handles = [x for x in self.handles if x[0] is not h]
        # the dependency graph mentions no dead object
        deadnodes = [node for node in m._impl.tracegraph.nodes if id(node[0]) not in alive_impls]
        self.reported_dead_nodes = {self.node_id(n) for n in deadnodes}
        if deadnodes:
            node = deadnodes[0]
            only_keyless_uncached = all(len(n) == 1 and hasattr(n[0], "is_cached") and not n[0].is_cached for n in deadnodes)
            out.fail("the dependency graph still has a node of a deleted object (%r)" % (node[0].name,), hist,
                     key=KNOWN_SPACE if self.uncached_in_deleted_space and only_keyless_uncached else
                     "C13-deleted-object-in-formula-globals" if self.objrefs else None)

    def check_session_handle(self, live, op, result, out, hist, stats):
        """the model's current space is a handle the SESSION holds (set by new_space, mx.cur_space, model.cur_space,
        parent.cur_space; used by mx.defcells and by everything that goes through cur_space()): after any operation it
        is None or a space that is in the model, and API use through it acts on a space that is in the model or raises
        the deleted-object error"""
        m = live.m
        with quiet():
            cur = m.cur_space()
        if cur is not None:
            stats["session_handle_checks"] += 1
            found = None
            try:
                found = resolve(m, W.rel(m, cur), "space", None) if cur._is_valid() else None
            except Exception:   # noqa
                found = None
            if found is not cur:
                self.nontrivial = True
                out.fail("after %s the model's current space (what mx.cur_space() / model.cur_space() hand out and "
                         "mx.defcells acts on) is a space that is not in the model any more" % op[0], hist)
        if op[0] == "cur_cells":
            stats["session_handle_uses:" + result.split(" ")[0] + (result[3:] if result.startswith("err") else "")] += 1
            if result.startswith("err") and result not in ("err Deleted", "err Value"):
                out.fail("API use through the current space (%s) raised %s: neither the deleted-object error nor an "
                         "ordinary refusal" % (op[3] if len(op) > 3 else "new_cells", result[4:]), hist)
            elif result.startswith("ok ") and result != "ok none":
                path = result[3:].rsplit(".", 1)[0]
                if resolve(m, path, "space", None) is None:
                    out.fail("API use through the current space created %s, which is not in the model" % result[3:], hist)

    def end(self, live, ops, out, stats):
        mine = S.eval_everything(live)
        fresh = S.fresh_replay(ops, len(ops))
        try:
            theirs = S.eval_everything(fresh)
        finally:
            fresh.close()
        for q, v in mine.items():
            w = theirs.get(q)
            if w is not None and w != v and "Deep" not in v + w:
                if not self.uncached_in_deleted_space and _known(live, q, v, w) == "C13-caught-failure-untracked":
                    # the `except` value of a formula that handled a callee's failure, kept although a later edit
                    # makes the callee succeed: C02's recorded finding (no dependency on a failed callee), not a
                    # value computed from a deleted object - C02 reports it, C13 does not speak about it
                    stats["differences_left_to_C02_caught_failure"] = stats.get("differences_left_to_C02_caught_failure", 0) + 1
                    continue
                out.fail("%s returns %s but a model to which only the edits were applied returns %s "
                         "(a value computed from a deleted object survived?)" % (q, v, w), S.hist_json(ops),
                         key=KNOWN_SPACE if self.uncached_in_deleted_space else _known(live, q, v, w))
                break


def _known(live, q, v, w=None):
    from . import c02
    p, rest = q.rsplit(".", 1)
    k = c02.classify(False, live, (p, rest.split("(")[0]), v, w)
    return "C13-" + k[4:] if k else None


# ----------------------------------------------------------------------------- dynamic copies
#
# Deletion has to reach the DYNAMIC copies of the deleted object as well: the cells and child spaces of every
# ItemSpace built from the space the deleted member lives in - whichever parametrised space the ItemSpace hangs
# under (several parents may choose the same foreign base, with equal or different arguments), however deeply
# it is nested (an ItemSpace of a parametrised child inside an ItemSpace, equal arguments at both levels
# included).  The scenarios are the motif programs of the ItemSpace world (shared with C07: harness/mxh/props/
# c07.py MOTIFS, itemworld.py), with two instances of every parametrised space (nested ones through them)
# created and evaluated and the callers in plain spaces evaluated; handles are taken to EVERY live dynamic
# space and to every cells in it, each together with the static object it is a copy of; then one edit - every
# deletion applicable anywhere (quick and thorough), other definition edits sampled - and the oracle:
#   * a handle whose static original is dead is dead: every use raises the deleted-object error;
#   * a handle that is alive is the object now found under its address;
#   * no parametrised space lists an ItemSpace (and no dynamic space a cells) whose original is dead;
#   * the dependency graph has no node of an object that is not in the model, and what depended (in the graph
#     before the edit) on nodes of objects that went away holds no value.

def dyn_alive(m):
    """{id(impl): impl} of everything in the model: static spaces and cells, and the dynamic spaces / cells
    listed under them whose static original is alive"""
    from .. import itemworld as IW
    alive, orphans = {}, []

    def add_static(impl):
        alive[id(impl)] = impl
        for c in impl.cells.values():
            alive[id(c)] = c
        for ch in impl.named_spaces.values():
            add_static(ch)
    for sp in m._impl.spaces.values():
        add_static(sp)
    for path, cchain, dyn, is_item in IW.dyn_entries(m):
        impl = dyn._impl
        base = impl._dynbase
        addr = IW.chain_txt(path, cchain)
        if base is None or id(base) not in alive:
            orphans.append("%s is a copy of a space that is not in the model any more" % addr)
            continue
        alive[id(impl)] = impl
        for cn, c in impl.cells.items():
            if cn in base.cells and id(base.cells[cn]) in alive:
                alive[id(c)] = c
            else:
                orphans.append("%s.%s is a copy of a cells that is not in the model any more" % (addr, cn))
    return alive, orphans


def dyn_handles(m):
    """(handle, kind, static path, canonical chain, cells name, interface of the static original)"""
    from .. import itemworld as IW
    out = []
    for path, cchain, dyn, is_item in IW.dyn_entries(m):
        base = dyn._impl._dynbase.interface
        out.append((dyn, "space", path, cchain, None, base))
        for cn, c in dyn.cells.items():
            out.append((c, "cells", path, cchain, cn, base.cells[cn] if cn in base.cells else None))
    return out


def dyn_scenario(ops, n_prefix, out, stats):
    """ops[:n_prefix] builds, creates the instances and evaluates; the handles are taken; then the edits
    ops[n_prefix:], the oracle after each"""
    from .. import itemworld as IW
    close_all()
    w = IW.World("M")
    try:
        for op in ops[:n_prefix]:
            w.apply(op)
        m = w.m
        handles = dyn_handles(m)
        stats["dyn_handles"] += len(handles)
        for k in range(n_prefix, len(ops)):
            op = ops[k]
            hist = {"ops": ops[:k + 1]}
            impls0, _ = dyn_alive(m)
            g = m._impl.tracegraph
            edges0, nodes0 = list(g.edges), list(g.nodes)
            r = w.apply(op)
            stats["dyn_op:" + op[0]] += 1
            if op[0] not in IW.EDIT_KINDS:
                continue
            impls1, orphans = dyn_alive(m)
            for o in orphans[:2]:
                out.fail("after %s (%s) %s" % (op[0], r.split(" ")[0], o), hist)
            for (h, kind, path, cchain, cn, orig) in handles:
                stats["dyn_handle_checks"] += 1
                addr = IW.chain_txt(path, cchain) + ("." + cn if cn else "")
                orig_dead = orig is None or not orig._is_valid()
                if h._is_valid():
                    if orig_dead:
                        out.fail("a handle to %s, a dynamic copy of a %s deleted by %s, still acts" % (addr, kind, op[0]), hist)
                        continue
                    cur = IW.resolve(m, path, cchain)
                    if kind == "cells" and cur is not None:
                        cur = cur.cells[cn] if cn in cur.cells else None
                    if cur is not h:
                        out.fail("a handle to %s is alive after %s but is not the object found under its address" % (
                            addr, op[0]), hist)
                    continue
                stats["dyn_dead_handles"] += 1
                for what, use in uses(h, kind):
                    if what in ("new_cells", "bases"):
                        continue
                    try:
                        with quiet():
                            use()
                        out.fail("a dead handle to %s still acts (%s succeeded) after %s" % (addr, what, op[0]), hist)
                        break
                    except DeletedObjectError:
                        pass
                    except Exception as e:
                        out.fail("a dead handle to %s raises %s instead of the deleted-object error on %s" % (
                            addr, type(e).__name__, what), hist)
                        break
            handles = [x for x in handles if x[0]._is_valid()]
            deadnodes = [n for n in m._impl.tracegraph.nodes if id(n[0]) not in impls1]
            if deadnodes:
                out.fail("the dependency graph still has a node of a deleted object (%r) after %s" % (
                    deadnodes[0][0].name, op[0]), hist)
            gone = set(impls0) - set(impls1)
            if gone:
                stats["dyn_deletions_examined"] += 1
                bad = stale_dependents(gone, impls1, edges0, nodes0)
                if bad is not None:
                    out.fail("%s%r still holds the value computed from an object deleted by %s" % (
                        bad[0].get_fullname() if hasattr(bad[0], "get_fullname") else bad[0].name, bad[1], op[0]), hist)
            if len(out.failures) >= 3:
                break
    finally:
        w.close()
        close_all()


def stale_dependents(dead, alive, edges0, nodes0):
    """a node (of an object that is alive) still holding a computed value although, in the graph as it was before
    the operation, it depended on a node of an object that went away; None if there is none"""
    succ = collections.defaultdict(list)
    for a, b in edges0:
        succ[(id(a[0]),) + tuple(a[1:])].append(b)
    todo = [n for n in nodes0 if id(n[0]) in dead]
    seen = set()
    while todo:
        n = todo.pop()
        key = (id(n[0]),) + tuple(n[1:])
        if key in seen:
            continue
        seen.add(key)
        todo += succ.get(key, [])
        if id(n[0]) in alive and len(n) == 2 and hasattr(n[0], "data") and n[1] in n[0].data \
                and n[1] not in n[0].input_keys:
            return n
    return None


DYN_DELETIONS = ("del_cells", "del_ref", "del_mref", "remove_bases", "del_space")


def run_dynamic(ctx, out, stats, per_motif=8):
    import json
    from . import c07
    from .. import itemworld as IW
    for ops in S.load_corpus("C13", world="items"):
        sub = core.Outcome()
        n = max(k for k, o in enumerate(ops) if o[0] in IW.DEF_EDITS)
        S.observe(sub, {"ops": ops}, "in a corpus scenario", dyn_scenario, json.loads(json.dumps(ops)), n, sub, stats)
        S.merge(out, sub)
        stats["dyn_scenarios"] += 1
        stats["dyn_corpus"] += 1
    for mi, mo in enumerate(c07.MOTIFS):
        prefix = [["set_mref", "u", 11]] + [json.loads(json.dumps(o)) for o in mo]
        close_all()
        w = IW.World("M")
        try:
            for op in prefix:
                w.apply(op)
            ok, res = S.observe(out, {"ops": prefix}, "after a motif program",
                                lambda: (c07.instance_queries(w.m), c07.single_edits(w.m)))
        finally:
            w.close()
            close_all()
        if not ok:
            continue
        queries, edits = res
        rng = ctx.rng("dyn", mi)
        rest = [e for e in edits if e[0] not in DYN_DELETIONS]
        chosen = [e for e in edits if e[0] in DYN_DELETIONS] + (
            rest if ctx.tier == "thorough" else rng.sample(rest, min(len(rest), per_motif)))
        for e in chosen:
            ops = [json.loads(json.dumps(o)) for o in prefix + queries + [e]]
            sub = core.Outcome()
            S.observe(sub, {"ops": ops}, "after " + e[0], dyn_scenario, ops, len(ops) - 1, sub, stats)
            S.merge(out, sub)
            stats["dyn_scenarios"] += 1
            if len([f for f in out.failures if not f.get("key")]) >= 4:
                return


# ----------------------------------------------------------------------------- ItemSpaces held by references
#
# A reference may HOLD an ItemSpace (`T.r = S[1]`, `T.rc = S[1].Ch`): the model keeps a handle.  Cached cells elsewhere read
# through it - the ARGUMENTS of the ItemSpace (`r.k`), the references its parameter formula returned (`r.z`), the
# references of its base seen through it (`r.w`), its cells (`r.foo(1)`), its child space, or take it as an ARGUMENT
# (`take(r)`).  No reader evaluates `S[i]` itself, so whether the ItemSpace exists is a function of the edits alone.
# Every edit discards it (a cells of its base created / redefined / deleted, what the parameter formula read changed,
# the parameter formula changed, a reference of the base changed, clear_items, del S[i], clear_all) or rebinds the
# reference; the space itself may be deleted.  Oracle (the shape props/c09.py `item_handles` uses for flags):
#   * right after an edit that killed what the handle denotes, no reader holds a value ("no held value computed from
#     the deleted object remains anywhere");
#   * at the end the readers return what they return in a model to which only the edits were applied.
# Known finding (KNOWN_BASEREF): a reference of the BASE read through the handle - recognised only for readers of
# that kind.

KNOWN_BASEREF = "C13-itemspace-base-ref-read-through-handle"

HELD_READERS = {      # name -> (kind, source)
    "c_arg": ("arg", "def c_arg(): return r.k"),
    "c_arg2": ("arg", "def c_arg2(): return r.k * 10 + r.n"),
    "c_fref": ("fref", "def c_fref(): return r.z"),
    "c_bref": ("bref", "def c_bref(): return r.w"),
    "c_cells": ("cells", "def c_cells(): return r.foo(1)"),
    "c_items": ("arg", "def c_items(): return r._space.k + 1000"),
    "c_take": ("arg", "def c_take(sp): return sp.k * 2"),
    "c_passed": ("arg", "def c_passed(): return c_take(r) + 1"),
    "c_child_arg": ("arg", "def c_child_arg(): return rc.k"),
    "c_child_ref": ("bref", "def c_child_ref(): return rc.v"),
    "c_child_cells": ("cells", "def c_child_cells(): return rc.g(2)"),
}
HELD_EDITS = ["formula_x", "ref_p", "ref_w", "clear_items", "del_item", "pformula", "new_cells", "del_cells", "foo_formula",
              "clear_all", "rebind", "child_ref"]


def run_held(h, evaluate_between):
    """-> (observations at the queries, problems seen right after the edits)"""
    from ..impl import err_kind
    close_all()
    obs, problems = [], []
    item = h.get("item", 1)
    try:
        with quiet():
            m = mx.new_model("H")
            A = m.new_space("A")
            A.new_cells("x", formula="def x(): return 1")
            S = m.new_space("S", formula="def _f(k, n=3): return {'refs': {'z': A.x() * 100 + k + p}}")
            S.A, S.w, S.p = A, 7, 0
            S.new_cells("foo", formula="def foo(t): return z + t + w")
            Ch = S.new_space("Ch")
            Ch.v = 5
            Ch.new_cells("g", formula="def g(t): return v * t + k")
            T = m.new_space("T")
            T.r = S[item]
            T.rc = S[item].Ch
            for n in h["readers"]:
                T.new_cells(n, formula=HELD_READERS[n][1])
            readers = [n for n in h["readers"] if n != "c_take"]
            nextra = 0

            def query():
                one = {}
                for n in readers:
                    try:
                        one[n] = T.cells[n]()
                    except BaseException as e:      # noqa: BLE001
                        one[n] = "err " + err_kind(mx.get_error() if type(e).__name__ == "FormulaError" else e)
                return one
            for i, st in enumerate(h["steps"]):
                k = st[0]
                if k == "query":
                    if evaluate_between or i == len(h["steps"]) - 1:
                        obs.append(query())
                    continue
                held = (T.r, T.rc)
                if k == "formula_x":
                    A.x.formula = "def x(): return %d" % st[1]
                elif k == "ref_p":
                    S.p = st[1]
                elif k == "ref_w":
                    S.w = st[1]
                elif k == "child_ref":
                    Ch.v = st[1]
                elif k == "clear_items":
                    S.clear_items()
                elif k == "clear_all":
                    S.clear_all()
                elif k == "del_item":
                    if (item, 3) in S._impl.param_spaces:
                        del S[item, 3]
                elif k == "pformula":
                    S.formula = "def _f(k, n=3): return {'refs': {'z': A.x() * 100 + k + p + %d}}" % st[1]
                elif k == "new_cells":
                    nextra += 1
                    S.new_cells("extra%d" % nextra, formula="lambda: 0")
                elif k == "del_cells":
                    if nextra:
                        del S.cells["extra%d" % nextra]
                        nextra -= 1
                elif k == "foo_formula":
                    S.foo.formula = "def foo(t): return z + t + w + %d" % st[1]
                elif k == "rebind":
                    T.r = S[item]
                    T.rc = S[item].Ch
                elif k == "del_space":
                    del m.S
                if evaluate_between:
                    # what was computed through a handle that died with this edit must be gone NOW
                    for hd, names in ((held[0], ("r.", "(r)")), (held[1], ("rc.",))):
                        if hd._is_valid():
                            continue
                        for n in readers:
                            if any(t in HELD_READERS[n][1] for t in names) and len(T.cells[n]._impl.data):
                                problems.append((i, n))
    finally:
        close_all()
    return obs, problems


def check_held(h, out, stats):
    stats["held_item_histories"] += 1
    live, problems = run_held(h, True)
    only, _ = run_held(h, False)
    found = []      # (key, what, history): an instance of the known finding never hides another reader's failure
    for i, n in problems:
        found.append((KNOWN_BASEREF if HELD_READERS[n][0] == "bref" else None,
                      "T.%s (%s) still holds the value it computed through a reference holding an ItemSpace, right after %s "
                      "discarded that ItemSpace" % (n, HELD_READERS[n][1].split(": ", 1)[1], h["steps"][i][0]),
                      dict(h, steps=h["steps"][:i + 1] + [["query"]])))
    a, b = live[-1], only[-1]
    for n in sorted(a):
        if a[n] != b[n]:
            found.append((KNOWN_BASEREF if HELD_READERS[n][0] == "bref" else None,
                          "T.%s (%s) returns %r after evaluations between the edits and %r in a model to which only the "
                          "edits were applied (the ItemSpace the reference held was discarded)" % (
                              n, HELD_READERS[n][1].split(": ", 1)[1], a[n], b[n]), h))
    unkeyed = [f for f in found if f[0] is None]
    for key, what, hist in unkeyed[:2] or found[:1]:
        out.fail(what, hist, key=key)
    stats["held_item_known_instances"] += bool(found) and not unkeyed
    return not unkeyed


def gen_held(rng):
    names = sorted(HELD_READERS)
    readers = sorted(set(rng.sample(names, rng.randint(3, 6)) + ["c_take"]))
    steps = [["query"]]
    for _ in range(rng.randint(1, 4)):
        k = rng.choice(HELD_EDITS)
        steps.append([k, rng.randint(2, 9)] if k in ("formula_x", "ref_p", "ref_w", "pformula", "foo_formula", "child_ref") else [k])
        steps.append(["query"])
    if rng.random() < 0.15:
        steps += [["del_space"], ["query"]]
    return {"scenario": "held-items", "item": rng.choice([1, 1, 2]), "readers": readers, "steps": steps}


def held_items(ctx, out, stats):
    allr = sorted(HELD_READERS)
    hists = [{"scenario": "held-items", "item": 1, "readers": allr,
              "steps": [["query"], [k, 4] if k in ("formula_x", "ref_p", "ref_w", "pformula", "foo_formula", "child_ref") else [k], ["query"]]}
             for k in HELD_EDITS + ["del_space"]]
    hists += [gen_held(ctx.rng("held-items", i)) for i in range(ctx.n(30, 600))]
    bad = 0
    for h in hists:
        if not check_held(h, out, stats):
            bad += 1
            if len([f for f in out.failures if not f.get("key")]) >= 3:
                break
    return len(hists)


# ----------------------------------------------------------------------------- values read THROUGH a space that is deleted
#
# A cached cells elsewhere reads through a reference to the space `S` (`T.S = S`): a MODEL-LEVEL reference seen through
# it (`S.x`, /repo 40cbe69), an own reference (`S.y`), a cells (`S.f()`), the same through a child space (`S.Ch.x`), or
# depends on such a reader.  `del m.S` / `del S.Ch`: right after it no reader that read through the deleted space holds
# a value, and at the end live = edits-only.

THROUGH_READERS = {      # name -> (space it reads through, source)
    "c_glob": ("S", "def c_glob(): return S.x"),
    "c_own": ("S", "def c_own(): return S.y"),
    "c_cells": ("S", "def c_cells(): return S.f()"),
    "c_child": ("S.Ch", "def c_child(): return S.Ch.x"),
    "c_childown": ("S.Ch", "def c_childown(): return S.Ch.v"),
    "c_dep": ("S", "def c_dep(): return c_glob() + 1"),
    "c_hidden": ("S", "def c_hidden(): return S.z"),      # S has its own z hiding the model-level z
}


def run_through(h, evaluate_between):
    from ..impl import err_kind
    close_all()
    obs, problems = [], []
    try:
        with quiet():
            m = mx.new_model("H")
            m.x, m.z = 1, 2
            S = m.new_space("S")
            S.y, S.z = 7, 20
            S.new_cells("f", formula="def f(): return y + 1")
            Ch = S.new_space("Ch")
            Ch.v = 5
            T = m.new_space("T")
            T.S = S
            readers = list(h["readers"])
            for n in readers:
                T.new_cells(n, formula=THROUGH_READERS[n][1])

            def query():
                one = {}
                for n in readers:
                    try:
                        one[n] = T.cells[n]()
                    except BaseException as e:      # noqa: BLE001
                        one[n] = "err " + err_kind(mx.get_error() if type(e).__name__ == "FormulaError" else e)
                return one
            for i, st in enumerate(h["steps"]):
                k = st[0]
                if k == "query":
                    if evaluate_between or i == len(h["steps"]) - 1:
                        obs.append(query())
                    continue
                if k == "mref":
                    m.x = st[1]
                elif k == "del_space":
                    if st[1] == "S":
                        del m.S
                    else:
                        del S.Ch
                    if evaluate_between:
                        for n in readers:
                            thr = THROUGH_READERS[n][0]
                            if (thr == st[1] or thr.startswith(st[1] + ".")) and len(T.cells[n]._impl.data):
                                problems.append((i, n))
    finally:
        close_all()
    return obs, problems


def check_through(h, out, stats):
    stats["through_deleted_space_histories"] += 1
    live, problems = run_through(h, True)
    only, _ = run_through(h, False)
    n_fail = 0
    for i, n in problems[:2]:
        out.fail("T.%s (%s) still holds the value it computed through the space %s, right after that space was deleted" % (
            n, THROUGH_READERS[n][1].split(": ", 1)[1], h["steps"][i][1]), dict(h, steps=h["steps"][:i + 1] + [["query"]]))
        n_fail += 1
    a, b = live[-1], only[-1]
    for n in sorted(a):
        if a[n] != b[n] and n_fail < 2:
            out.fail("T.%s (%s) returns %r after evaluations between the edits and %r in a model to which only the edits were "
                     "applied (the space it read through was deleted)" % (n, THROUGH_READERS[n][1].split(": ", 1)[1], a[n], b[n]), h)
            n_fail += 1
    return not n_fail


def through_deleted_space(ctx, out, stats):
    allr = sorted(THROUGH_READERS)
    hists = []
    for victim in ("S", "S.Ch"):
        hists.append({"scenario": "through-deleted-space", "readers": allr, "steps": [["query"], ["del_space", victim], ["query"]]})
        hists.append({"scenario": "through-deleted-space", "readers": allr,
                      "steps": [["query"], ["mref", 4], ["query"], ["del_space", victim], ["query"]]})
    for n in allr:
        rs = sorted({n, "c_glob"} if n == "c_dep" else {n})
        hists.append({"scenario": "through-deleted-space", "readers": rs, "steps": [["query"], ["del_space", "S"], ["query"]]})
    for h in hists:
        if not check_through(h, out, stats):
            break
    return len(hists)


def session_family():
    """[(label, ops)]: the session's handle set to the space that is then deleted, to a child, to a grandchild of it
    (by mx.cur_space(obj), by <parent>.cur_space(name), or left where new_space put it), the deletion at the top / in
    the middle of the tree, then API use through the handle (new_cells through mx.cur_space() / model.cur_space(),
    mx.defcells) and a new space"""
    out = []
    tree = [["new_space", "-", "A", []], ["new_space", "A", "X", []], ["new_space", "A.X", "Y", []],
            ["new_cells", "A.X.Y", "f", F(0, 1)], ["new_space", "-", "B", []], ["new_cells", "B", "g", F(0, 2)]]
    for victim in ("A", "A.X", "A.X.Y", "B"):
        for how in ("mx", "parent", "new_space"):
            for deleted in ("A", "A.X"):
                for use in ("new_cells", "model", "defcells"):
                    if how == "new_space":
                        if victim == "B":
                            continue
                        # the handle is where the creation of the space left it
                        pre = [o for o in tree if not (o[0] == "new_space" and (o[2] if o[1] == "-" else o[1] + "." + o[2]) == victim)]
                        pre = pre[:1] + [o for o in pre[1:] if o[0] != "new_cells"] if victim == "A" else pre
                        mk = ["new_space", "-" if "." not in victim else victim.rsplit(".", 1)[0], victim.rsplit(".", 1)[-1], []]
                        if victim != "A.X.Y":
                            continue        # creating A or A.X last would leave nothing below it: covered by mx / parent
                        ops = [o for o in pre if o[0] == "new_space"] + [mk]
                    else:
                        ops = [list(o) for o in tree] + [["cur_space", victim, how]]
                    ops = ops + [["eval", "B", "g", 1], ["del_space", deleted], ["cur_cells", "h", F(0, 3), use],
                                 ["cur_cells", "k", F(0, 4), "model"], ["new_space", "-", "C", []], ["cur_cells", "f", F(0, 5), use],
                                 ["evalall"]]
                    out.append(("current space %s set by %s, %s deleted, then %s" % (victim, how, deleted, use),
                                [list(o) for o in ops]))
    return out


def run(ctx, out):
    stats = S.run_struct(ctx, out, "C13", CFG, H, 80, 1500, RULE, ops_range=(14, 28))
    fam = session_family()
    S.run_family(out, stats, fam, H, CFG, "session_family")
    out.coverage["evaluations"] += len(fam)
    out.coverage["rule"] += ("; the session's handle: cur_space set (mx.cur_space / parent.cur_space / by new_space) to "
                             "random, mostly nested spaces in the random histories and API use through it (new_cells "
                             "through cur_space(), mx.defcells); plus %d programs = (current space: the deleted space / a "
                             "child / a grandchild / an unrelated space) x (how it was set) x (deletion at the top / in "
                             "the middle) x (use afterwards)" % len(fam))
    if len([f for f in out.failures if not f.get("key")]) < 4:
        run_dynamic(ctx, out, stats)
    n_held = held_items(ctx, out, stats)
    out.coverage["evaluations"] += n_held
    n_thr = through_deleted_space(ctx, out, stats)
    out.coverage["evaluations"] += n_thr
    out.coverage["rule"] += ("; plus %d histories in which cached cells elsewhere read THROUGH a space (a model-level "
                             "reference seen through it, an own reference, a cells, the same through a child space, a "
                             "dependent of such a reader) and the space / the child space is deleted: no such reader holds "
                             "a value right after the deletion, and live = edits-only at the end" % n_thr)
    out.coverage["rule"] += ("; plus %d histories over ItemSpaces HELD by references (T.r = S[i], T.rc = S[i].Ch) with cached "
                             "readers of their arguments, formula references, base references, cells, child space, and "
                             "of the ItemSpace passed as an argument; every kind of discard (base cells created / redefined "
                             "/ deleted, parameter formula and what it read, base reference, clear_items, del S[i], "
                             "clear_all, deletion of the space), rebinding; no reader holds a value right after its handle "
                             "died, and live = edits-only at the end" % n_held)
    out.coverage["evaluations"] += stats["dyn_scenarios"]
    out.coverage["input_distribution"] = dict(stats)
    out.coverage["rule"] += ("; plus dynamic copies: after each motif program of the ItemSpace world (several parametrised "
                             "parents choosing one foreign base, nested parametrised spaces with equal arguments at both "
                             "levels, replicated children, callers in plain spaces) with two instances of every "
                             "parametrised space evaluated and handles to every dynamic space and cells, every applicable "
                             "deletion (cells, references, spaces, base relations, anywhere) and sampled other edits")


def replay(ctx, payload, out):
    h = payload.get("history") or {}
    if h.get("scenario") == "held-items":
        check_held(h, out, collections.Counter())
        return
    if h.get("scenario") == "through-deleted-space":
        check_through(h, out, collections.Counter())
        return
    ops = h.get("ops") or []
    if any(o[0] in ("item", "evalstatic") or (o[0] == "eval" and isinstance(o[2], list)) for o in ops):
        # a scenario of the ItemSpace world: handles are taken before the last definition edit
        import json
        from .. import itemworld as IW
        n = max(k for k, o in enumerate(ops) if o[0] in IW.DEF_EDITS)
        dyn_scenario(json.loads(json.dumps(ops)), n, out, collections.Counter())
        return
    S.replay_struct(payload, out, H, CFG)
