"""C07 – ItemSpaces are parametrised, isolated, identity-stable instances of their base.

Histories on real modelx (harness/mxh/itemworld.py): parametrised spaces (one or two parameters,
defaults), every argument spelling, replicated child spaces (also two branches holding child
spaces of the same name), nested parametrised child spaces, parameter formulas choosing another
base and/or returning references, interleaved with every kind of edit of what the instances
were built from, with assignments inside instances and with explicit deletion of instances.

Oracle (implementation only, the statement itself):
 (id) a spelling binds iff the independent `ref_bind` binds it; the object returned is the
      entry of `param_spaces` / `itemspaces` under the bound key, its arguments are the bound
      values; distinct keys give distinct objects, implementations and cells;
 (a)  every cells of every live instance (replicated children, nested instances included)
      returns what a plain, non-parametrised replica of the base returns in which the
      parameters (innermost wins) and the references the formula returned are references;
      the instance has exactly the base's cells and child spaces;
 (b)  an assignment inside one instance changes no held value of any other instance;
 (c)  after every edit every live instance serves what a freshly built model serves to which
      only the edits were applied (no evaluation, no access in between);
 (d)  every handle taken earlier (instance, cells of an instance, replicated child, nested
      instance) either raises the deleted-object error on every use or `is` the object now
      found under its address.
Correspondence (Lean `mxdriver items`, model Kernels/ItemSpace.lean, theorems Props/C07.lean):
 the bound key / rejection of every spelling, and after every operation the table of live
 dynamic spaces with their interface identities (canonically numbered), on the histories of
 the modelled vocabulary (no inheritance, no instance created from inside a formula).
"""
import collections
import json
import os

from .. import core
from .. import itemworld as IW
from ..impl import mx, close_all, quiet, err_kind
from ..structworld import val_repr
from modelx.core.errors import DeletedObjectError, FormulaError

KNOWN_DYNBASE = "C07-dynbase-edit-not-propagated"   # FIXED by /repo 482219e: no longer a key that excuses anything
# (an instance that survived the deletion of the space it hangs under was a second finding on the
# tree this check was first run on; /repo commit 620f512 repaired it, so it is a violation again)

TOPS = ["S", "T"]
CHILD = ["X", "Y"]
GRAND = ["Z"]
CELLS = ["f", "g", "h", "q"]
REFS = ["r", "s", "i"]
MREFS = ["u", "r", "i"]
ARGV = [1, 2, 3]

RULE = ("adaptive histories (motif prefix + 14-30 ops) over parametrised spaces S,T (parameter formulas: one "
        "parameter, two with a default, returning refs, choosing base O, both), plain spaces O (foreign base), A "
        "(inheritance base), C (calls S(x).f(x) from a formula), child spaces X,Y with grandchildren Z (same name in "
        "two branches), nested parametrised children; spellings S[a] S[a,b] S(a) S(i=a) S(a,j=b) S(j=b,i=a) and "
        "malformed ones; edits: cells new/formula/delete/rename, references new/change/delete (space and model), "
        "child spaces new/delete, parameter formula change/delete, bases add/remove, assignments in instances, "
        "clear_at/del/clear_items/clear_all; non-trivial = at least two instances of one parent were alive when a "
        "definition they were built from was edited and an instance was queried afterwards")


# ----------------------------------------------------------------------------- formulas

NEEDS = [set(), {"i"}, set(), {"r"}, {"i", "j"}, {"i"}, {"i"}, {"u"}, {"k", "i"}, {"s"}, {"n", "k"}, set(), set()]
OBJREFS = ["a", "b", "c"]      # names of object-valued references (apart from the value references REFS)


def visible_names(space):
    """names a formula of `space` can expect to resolve inside the instances built from it: own and
    model references, parameters of the space and of the spaces above it, references the
    parameter formula returns; for the plain space O the parameters of a parent choosing it"""
    out = set(r for r in space._own_refs) | set(k for k in space._model.refs if not k.startswith("_"))
    cur = space
    while cur is not None and hasattr(cur, "_own_refs"):
        out |= set(p[0] for p in (IW.params_of(cur) or []))
        f = cur._impl.formula
        if f is not None and cur is space:
            if "'r'" in f.source:
                out.add("r")
            if "'s'" in f.source:
                out.add("s")
        cur = cur.parent if hasattr(cur.parent, "_own_refs") else None
    if space.fullname.split(".")[1] == "O":
        out |= {"i", "j"}
    return out


def cell_src(rng, space=None, nested=False, caller=False):
    """source of a cells formula; mostly over names that resolve in the instances of `space`"""
    cells = list(space.cells) if space is not None else []
    childs = [(c, a) for c in (space.spaces if space is not None else []) for a in space.spaces[c].cells]
    cand = [0, 1, 3, 7, 9]
    if cells:
        cand += [2, 2, 6]
    if childs:
        cand += [5, 5]
    cand += [4, 4]
    if nested:
        cand += [8, 8, 10]
    ro, rs = [], []
    if space is not None:
        # references of the space to members of its own tree: an alias of a cells, a reference to a space with cells
        for n, (v, mode) in IW.obj_refs(space).items():
            if v._is_valid() and type(v).__name__ == "Cells":
                ro.append(n)
            elif v._is_valid() and hasattr(v, "cells") and list(v.cells):
                rs.append((n, list(v.cells)))
        if ro:
            cand += [11, 11, 11]
        if rs:
            cand += [12, 12]
    if space is not None and rng.random() < 0.85:
        vis = visible_names(space)
        good = [t for t in cand if NEEDS[t] <= vis]
        cand = good or [0]
    t = rng.choice(cand)
    a = rng.choice(cells) if cells else "f"
    c = "X"
    if t == 5:
        c, a = rng.choice(childs)
    if t == 11:
        return IW.CELL_TEMPLATES[t].format(k=rng.randint(1, 5), ro=rng.choice(ro))
    if t == 12:
        n, names = rng.choice(rs)
        return IW.CELL_TEMPLATES[t].format(k=rng.randint(1, 5), rs=n, a=rng.choice(names))
    return IW.CELL_TEMPLATES[t].format(k=rng.randint(1, 5), a=a, c=c)


# ----------------------------------------------------------------------------- motifs

def C(t, **kw):
    d = {"k": 1, "a": "f", "c": "X"}
    d.update(kw)
    return IW.CELL_TEMPLATES[t].format(**d)


MOTIFS = [
    # plain parametrised space, sibling call, one replicated child
    [["new_space", "-", "S", 0, []], ["new_cells", "S", "f", C(1)], ["new_cells", "S", "g", C(2, a="f", k=3)],
     ["new_space", "S", "X", None, []], ["new_cells", "S.X", "q", C(1)], ["new_cells", "S", "h", C(5, c="X", a="q")]],
    # two parameters, one default
    [["new_space", "-", "S", 1, []], ["new_cells", "S", "f", C(4)], ["new_cells", "S", "g", C(6, a="g")],
     ["set_ref", "S", "r", 3], ["new_cells", "S", "h", C(3)]],
    # two branches with grandchildren of the same name
    [["new_space", "-", "S", 0, []], ["new_space", "S", "X", None, []], ["new_space", "S", "Y", None, []],
     ["new_space", "S.X", "Z", None, []], ["new_space", "S.Y", "Z", None, []],
     ["new_cells", "S.X.Z", "q", C(1)], ["new_cells", "S.Y.Z", "q", C(0, k=5)], ["new_cells", "S.Y.Z", "h", C(1)],
     ["new_cells", "S", "f", C(0, k=2)]],
    # another base chosen by the parameter formula
    [["new_space", "-", "O", None, []], ["new_cells", "O", "f", C(1)], ["new_cells", "O", "g", C(2, a="f", k=1)],
     ["set_ref", "O", "r", 4], ["new_cells", "O", "h", C(3)], ["new_space", "O", "X", None, []],
     ["new_cells", "O.X", "q", C(1)], ["new_space", "-", "T", 3, []], ["new_cells", "T", "f", C(0, k=9)]],
    # references returned by the formula, shadowing a base reference; a parameter shadowing a base reference
    [["set_mref", "r", 12], ["new_space", "-", "S", 2, []], ["set_ref", "S", "r", 3], ["set_ref", "S", "i", 50],
     ["new_cells", "S", "f", C(3)], ["new_cells", "S", "g", C(1)], ["new_cells", "S", "h", C(7)]],
    # nested parametrised child (own parameter k; same parameter name i in another child)
    [["new_space", "-", "S", 0, []], ["new_cells", "S", "f", C(1)], ["new_space", "S", "X", 5, []],
     ["new_cells", "S.X", "q", C(8)], ["new_space", "S", "Y", 0, []], ["new_cells", "S.Y", "q", C(1)],
     ["set_ref", "S.X", "r", 6], ["new_cells", "S.X", "h", C(3)]],
    # base and refs chosen at once, two parameters
    [["new_space", "-", "O", None, []], ["new_cells", "O", "f", C(9, k=1)], ["new_cells", "O", "g", C(4)],
     ["set_ref", "O", "s", 1], ["new_space", "-", "T", 4, []]],
    # inheritance: the parametrised space derives its cells
    [["new_space", "-", "A", None, []], ["new_cells", "A", "f", C(1)], ["set_ref", "A", "r", 2],
     ["new_cells", "A", "g", C(3)], ["new_space", "-", "S", 0, ["A"]]],
    # the foreign base derives its cells
    [["new_space", "-", "A", None, []], ["new_cells", "A", "f", C(1)], ["new_space", "-", "O", None, ["A"]],
     ["new_cells", "O", "g", C(2, a="f", k=2)], ["new_space", "-", "T", 3, []]],
    # an instance created from inside a formula of another space
    [["new_space", "-", "S", 0, []], ["new_cells", "S", "f", C(1)], ["new_space", "-", "C", None, []],
     ["new_cells", "C", "c", IW.CALLER_SRC.format(s="S", a="f")]],
    # a replicated child that DERIVES its members from a plain space (they can only be edited through that space);
    # a model-level reference of the same name behind the derived one
    [["set_mref", "r", 12], ["new_space", "-", "A", None, []], ["set_ref", "A", "r", 3], ["new_cells", "A", "f", C(3)],
     ["new_cells", "A", "g", C(2, a="f", k=1)], ["new_cells", "A", "q", C(1)], ["new_space", "-", "S", 0, []],
     ["new_space", "S", "X", None, ["A"]], ["new_cells", "S", "h", C(5, c="X", a="g")]],
    # a grandchild deriving from the child of a plain space; the parametrised space itself derives from another one
    [["new_space", "-", "A", None, []], ["new_space", "A", "Y", None, []], ["set_ref", "A.Y", "s", 2],
     ["new_cells", "A.Y", "q", C(9, k=1)], ["new_cells", "A.Y", "h", C(2, a="q", k=2)], ["new_space", "-", "O", None, []],
     ["new_cells", "O", "f", C(1)], ["new_space", "-", "S", 1, ["O"]], ["new_space", "S", "X", None, []],
     ["new_space", "S.X", "Z", None, ["A.Y"]], ["new_cells", "S.X", "g", C(5, c="Z", a="h")]],
    # the foreign base chosen by the parameter formula has a child deriving from a plain space
    [["new_space", "-", "A", None, []], ["set_ref", "A", "r", 5], ["new_cells", "A", "q", C(3)],
     ["new_cells", "A", "h", C(2, a="q", k=3)], ["new_space", "-", "O", None, []], ["new_cells", "O", "f", C(1)],
     ["new_space", "O", "X", None, ["A"]], ["new_cells", "O", "g", C(5, c="X", a="h")], ["new_space", "-", "T", 3, []]],
    # SEVERAL parametrised parents choosing the same foreign base: S[a] and T[a] are instances with equal
    # arguments under different parents; callers elsewhere hold values computed through both
    [["new_space", "-", "O", None, []], ["new_cells", "O", "f", C(1)], ["new_cells", "O", "g", C(2, a="f", k=1)],
     ["set_ref", "O", "r", 4], ["new_cells", "O", "h", C(3)], ["new_space", "O", "X", None, []],
     ["new_cells", "O.X", "q", C(1)], ["new_space", "-", "S", 3, []], ["new_space", "-", "T", 3, []],
     ["new_space", "-", "C", None, []], ["new_cells", "C", "c", IW.CALLER_SRC.format(s="S", a="g")],
     ["new_cells", "C", "d", IW.CALLER_SRC.format(s="T", a="h")]],
    # nested parametrised spaces queried with EQUAL arguments at both levels (S[a].X[a]); the nested one has a
    # replicated child of its own
    [["new_space", "-", "S", 0, []], ["new_cells", "S", "f", C(1)], ["new_space", "S", "X", 5, []],
     ["new_cells", "S.X", "q", C(8)], ["new_cells", "S.X", "g", C(2, a="q", k=2)], ["set_ref", "S.X", "r", 6],
     ["new_cells", "S.X", "h", C(3)], ["new_space", "S.X", "Z", None, []], ["new_cells", "S.X.Z", "q", C(0, k=4)]],
    # two parents (one of them with two parameters, the default equal to the other's argument) choosing a foreign
    # base that has a parametrised child: S[a].X[a], T[a, 2].X[a]
    [["new_space", "-", "A", None, []], ["new_cells", "A", "f", C(1)], ["new_space", "-", "O", None, ["A"]],
     ["new_cells", "O", "g", C(2, a="f", k=2)], ["set_ref", "O", "s", 1], ["new_cells", "O", "h", C(9, k=1)],
     ["new_space", "O", "X", 5, []], ["new_cells", "O.X", "q", C(8)],
     ["new_space", "-", "S", 3, []], ["new_space", "-", "T", 4, []]],
    # TWO definers of one cells name: the parametrised space O derives f from A (first) and B; T chooses O as its
    # base; no references anywhere - a base-order-changing edit (remove_bases, deleting the first definer's cells)
    # re-points the EXISTING derived cells of O at the other definer in place
    [["new_space", "-", "A", None, []], ["new_cells", "A", "f", C(0, k=1)], ["new_cells", "A", "g", C(2, a="f", k=1)],
     ["new_space", "-", "B", None, []], ["new_cells", "B", "f", C(0, k=5)], ["new_cells", "B", "h", C(2, a="f", k=2)],
     ["new_space", "-", "O", 0, ["A", "B"]], ["new_space", "-", "T", 3, []]],
    # ... the first definer can also arrive later: O derives f from B through its bases P (empty) and B; adding A,
    # which defines f as well, to P puts a new first definer in front of B; the replicated child X derives likewise
    [["new_space", "-", "A", None, []], ["new_cells", "A", "f", C(0, k=1)], ["new_space", "-", "B", None, []],
     ["new_cells", "B", "f", C(0, k=5)], ["new_cells", "B", "g", C(2, a="f", k=3)], ["new_space", "-", "P", None, []],
     ["new_space", "-", "S", 0, ["P", "B"]], ["new_space", "S", "X", None, ["P", "B"]],
     ["new_cells", "S", "h", C(5, c="X", a="g")]],
    # ---- references of a base to members of its OWN tree (an alias of a sibling cells, a reference to a child space,
    # to the base itself, from a child to a cells of its parent) - in an instance they denote the instance's own
    # members, whatever the instance hangs under:
    # ... the base is a FOREIGN space chosen by the parameter formulas of two parents (one of them returns references too)
    [["new_space", "-", "O", None, []], ["new_cells", "O", "f", C(1)], ["new_space", "O", "X", None, []],
     ["new_cells", "O.X", "q", C(4)], ["set_ref", "O", "a", ["obj", "O.f"], "auto"], ["set_ref", "O", "b", ["obj", "O.X"], "auto"],
     ["set_ref", "O", "c", ["obj", "O"], "auto"], ["set_ref", "O.X", "a", ["obj", "O.f"], "auto"],
     ["set_ref", "O.X", "b", ["obj", "O.X.q"], "relative"],
     ["new_cells", "O", "g", C(11, ro="a", k=1)], ["new_cells", "O", "h", C(12, rs="b", a="q", k=2)],
     ["new_cells", "O", "q", C(12, rs="c", a="f", k=3)], ["new_cells", "O.X", "g", C(11, ro="a", k=4)],
     ["new_cells", "O.X", "h", C(11, ro="b", k=5)],
     ["new_space", "-", "T", 3, []], ["new_space", "-", "S", 4, []]],
    # ... the base is a parametrised CHILD of a parametrised space: S[i].X[k] hangs under the dynamic S[i]; the
    # nested space has a replicated child; the outer space has such references too
    [["new_space", "-", "S", 0, []], ["new_cells", "S", "f", C(1)], ["new_space", "S", "X", 5, []],
     ["new_cells", "S.X", "q", C(8)], ["new_space", "S.X", "Z", None, []], ["new_cells", "S.X.Z", "q", C(8)],
     ["set_ref", "S.X", "a", ["obj", "S.X.q"], "auto"], ["set_ref", "S.X", "b", ["obj", "S.X.Z"], "auto"],
     ["set_ref", "S.X.Z", "c", ["obj", "S.X.q"], "auto"],
     ["new_cells", "S.X", "g", C(11, ro="a", k=1)], ["new_cells", "S.X", "h", C(12, rs="b", a="q", k=2)],
     ["new_cells", "S.X.Z", "h", C(11, ro="c", k=3)],
     ["set_ref", "S", "a", ["obj", "S.f"], "relative"], ["new_cells", "S", "g", C(11, ro="a", k=4)]],
    # ... the ordinary case (the instance's base is the space it hangs under), two parameters, a child space; and a
    # foreign base that is itself parametrised and has a parametrised child: T[i].X[k] with base O.X
    [["new_space", "-", "S", 1, []], ["new_cells", "S", "f", C(4)], ["new_space", "S", "Y", None, []],
     ["new_cells", "S.Y", "q", C(4)], ["set_ref", "S", "a", ["obj", "S.f"], "auto"], ["set_ref", "S", "b", ["obj", "S.Y"], "auto"],
     ["new_cells", "S", "g", C(11, ro="a", k=1)], ["new_cells", "S", "h", C(12, rs="b", a="q", k=2)],
     ["new_space", "-", "O", 0, []], ["new_cells", "O", "f", C(1)], ["new_space", "O", "X", 5, []],
     ["new_cells", "O.X", "q", C(8)], ["set_ref", "O.X", "a", ["obj", "O.X.q"], "auto"],
     ["new_cells", "O.X", "g", C(11, ro="a", k=3)], ["set_ref", "O", "b", ["obj", "O.f"], "auto"],
     ["new_cells", "O", "h", C(11, ro="b", k=4)], ["new_space", "-", "T", 3, []]],
]
CORE_MOTIFS = [0, 1, 2, 3, 4, 5, 6]       # inside the vocabulary the Lean model covers
OBJ_MOTIFS = [len(MOTIFS) - 3, len(MOTIFS) - 2, len(MOTIFS) - 1]


def spelling(rng, params, malformed=0.12):
    """a random spelling for parameters [(name, default)]: mostly one that binds"""
    names = [p[0] for p in params]
    vals = {n: rng.choice(ARGV) for n in names}
    if rng.random() < malformed:
        r = rng.randrange(5)
        if r == 0:
            return ["call", [vals[n] for n in names] + [1], {}]
        if r == 1:
            return ["call", [vals[names[0]]], {"zz": 1}]
        if r == 2:
            return ["call", [vals[names[0]]], {names[0]: 1}]
        if r == 3:
            return ["call", [], {}]
        return ["idx", [vals[n] for n in names] + [2]]
    # how many positionally, which of the rest by keyword, defaults omitted or not
    npos = rng.randint(0, len(names))
    kw = {}
    for n, (name, dflt) in enumerate(params):
        if n < npos:
            continue
        if dflt is None or rng.random() < 0.5:
            kw[name] = vals[name] if dflt is None or rng.random() < 0.6 else dflt
    pos = [vals[n] for n in names[:npos]]
    if params[-1][1] is not None and npos == len(names) and rng.random() < 0.4:
        pos[-1] = params[-1][1]
    if not kw and pos and rng.random() < 0.6:
        return ["idx", pos]
    if rng.random() < 0.5:
        kw = dict(reversed(list(kw.items())))
    return ["call", pos, kw]


def gen_chain(rng, live_m, create_bias=0.5):
    """(path, chain) addressing an instance: mostly existing ones, or new ones"""
    statics = [(p, s) for p, s in IW.all_static(live_m) if IW.params_of(s)]
    if not statics:
        return None
    entries = IW.dyn_entries(live_m)
    if entries and rng.random() > create_bias:
        path, cchain, obj, is_item = rng.choice(entries)
        chain = [list(s) for s in cchain]
        # re-spell the keys now and then
        node = IW.static_space(live_m, path)
        out = []
        for seg in chain:
            if seg[0] == "key":
                ps = IW.params_of(node) or []
                if rng.random() < 0.6 and ps:
                    vals = dict(zip([p[0] for p in ps], seg[1]))
                    npos = rng.randint(0, len(ps))
                    sp = ["call", [vals[p[0]] for p in ps[:npos]], {p[0]: vals[p[0]] for p in ps[npos:]}]
                    out.append(sp)
                else:
                    out.append(seg)
            else:
                out.append(seg)
            try:
                node = IW.step(node, seg) if seg[0] == "attr" else node._impl.param_spaces[tuple(seg[1])].interface
            except Exception:
                break
        return path, out
    path, s = rng.choice(statics)
    chain = [spelling(rng, IW.params_of(s))]
    node = s
    # go deeper through children / nested parametrised children (looking at the base definitions)
    base = s
    f = s._impl.formula.source
    if "_model.O" in f and "O" in live_m.spaces:
        base = live_m.spaces["O"]
    for _ in range(3):
        if not base.spaces or rng.random() < 0.45:
            break
        name = rng.choice(list(base.spaces))
        chain.append(["attr", name])
        base = base.spaces[name]
        ps = IW.params_of(base)
        if ps and rng.random() < 0.7:
            chain.append(spelling(rng, ps))
    return path, chain


def target_base(m, path, chain):
    """the static space the addressed dynamic space is (to be) a copy of, from the definitions alone"""
    try:
        cur = IW.static_space(m, path)
        for seg in chain:
            if seg[0] == "attr":
                cur = cur.spaces[seg[1]]
                continue
            ps = IW.params_of(cur)
            a, kw = IW.seg_args(seg)
            key = IW.ref_bind(ps, a, kw)
            ret = eval(cur._impl.formula.source, {"_model": m})(**dict(zip([p[0] for p in ps], key)))
            if isinstance(ret, dict) and "base" in ret:
                cur = ret["base"]
        return cur
    except Exception:
        return None


WEIGHTS = {"new_space": 1.0, "del_space": 0.4, "set_pformula": 0.8, "new_cells": 1.6, "set_formula": 2.6,
           "del_cells": 1.2, "rename_cells": 0.3, "set_ref": 2.2, "del_ref": 0.8, "set_mref": 0.6, "del_mref": 0.2,
           "add_bases": 0.5, "remove_bases": 0.4, "item": 5.0, "eval": 6.0, "assign": 1.2, "clear_at": 0.5,
           "del_item": 0.3, "clear_items": 0.3, "clear_all": 0.2, "evalstatic": 0.5}


def gen_next(rng, world, prev, wide):
    m = world.m
    w = dict(WEIGHTS)
    if not wide:
        for k in ("add_bases", "remove_bases", "evalstatic"):
            w[k] = 0.0
    kinds = list(w)
    statics = IW.all_static(m)
    if not statics:
        return ["new_space", "-", "S", 0, []]
    k = rng.choices(kinds, [w[x] for x in kinds])[0]
    path, s = rng.choice(statics)
    # prefer spaces some live instance was built from
    used = []
    for p, c, d, it in IW.dyn_entries(m):
        b = d._impl._dynbase
        if b is not None and hasattr(b, "interface") and b.interface._is_valid():
            used.append(b.interface)
    if used and rng.random() < 0.75:
        s = rng.choice(used)
        path = s.fullname.split(".", 1)[1]
    cells = list(s.cells)
    own_refs = [r for r in s._own_refs if not s._impl.own_refs[r].is_derived()]
    nested = path.count(".") >= 1
    if k == "new_space":
        if rng.random() < 0.35:
            free = [n for n in TOPS + ["O"] if n not in m.spaces]
            if free:
                nm = rng.choice(free)
                return ["new_space", "-", nm, None if nm == "O" else rng.choice([0, 1, 2, 3, 4, 7]), []]
        depth = path.count(".")
        pool = CHILD if depth == 0 else GRAND
        if depth >= 2:
            return ["new_cells", path, rng.choice(CELLS), cell_src(rng, s, nested)]
        free = [n for n in pool if n not in s.spaces]
        if not free:
            return ["new_cells", path, rng.choice(CELLS), cell_src(rng, s, nested)]
        bases = []
        if wide and rng.random() < 0.4:
            # the new child derives its members from a plain space (or the child of one) elsewhere
            cand = [p for p, sp in statics if p.split(".")[0] in ("A", "B", "O") and p.split(".")[0] != path.split(".")[0]
                    and IW.params_of(sp) is None]
            if cand:
                bases = [rng.choice(cand)]
        return ["new_space", path, rng.choice(free), rng.choice([None, None, 5, 0, 6]), bases]
    if k == "del_space":
        if "." in path or rng.random() < 0.3:
            return ["del_space", path]
        return ["set_formula", path, rng.choice(cells), cell_src(rng, s, nested)] if cells else ["del_space", path]
    if k == "set_pformula" and path != "C":
        cur = IW.params_of(s)
        if path.count(".") == 0 and path in TOPS:
            return ["set_pformula", path, rng.choice([0, 1, 2, 3, 4, 7])]
        return ["set_pformula", path, rng.choice([None, 5, 6, 0]) if cur else rng.choice([5, 0])]
    if k == "new_cells":
        free = [n for n in CELLS if n not in cells]
        nm = rng.choice(free) if free else rng.choice(CELLS)
        return ["new_cells", path, nm, cell_src(rng, s, nested)]
    if k == "set_formula" and cells:
        return ["set_formula", path, rng.choice(cells), cell_src(rng, s, nested)]
    if k == "del_cells" and cells:
        return ["del_cells", path, rng.choice(cells)]
    if k == "rename_cells" and cells:
        free = [n for n in CELLS if n not in cells]
        if free:
            return ["rename_cells", path, rng.choice(cells), rng.choice(free)]
    if k == "set_ref" and any(IW.obj_refs(sp) for _, sp in statics) and rng.random() < 0.4:
        # (only in histories that already have object-valued references: those of the other motifs keep their draws)
        # a reference to a member of the space's own tree: a cells, a child space, the space itself, a cells of a child
        tgt = [path + "." + c for c in cells] * 2 + [path + "." + c for c in s.spaces] + [path] \
            + [path + "." + c + "." + a for c in s.spaces for a in s.spaces[c].cells]
        return ["set_ref", path, rng.choice(OBJREFS), ["obj", rng.choice(tgt)], rng.choice(["auto", "auto", "relative"])]
    if k == "set_ref":
        return ["set_ref", path, rng.choice(REFS), rng.randint(0, 9)]
    if k == "del_ref" and own_refs:
        return ["del_ref", path, rng.choice(own_refs)]
    if k == "set_mref":
        return ["set_mref", rng.choice(MREFS), rng.randint(10, 19)]
    if k == "del_mref":
        have = [r for r in MREFS if r in m.refs]
        if have:
            return ["del_mref", rng.choice(have)]
    if k == "add_bases":
        cand = [p for p, sp in statics if "." not in p and p != path.split(".")[0] and p in ("A", "B", "P", "O", "S", "T")]
        if cand and ("." not in path or rng.random() < 0.5):
            return ["add_bases", path, [rng.choice(cand)]]
        if "A" not in m.spaces:
            return ["new_space", "-", "A", None, []]
    if k == "remove_bases":
        db = [b.fullname.split(".", 1)[1] for b in s._direct_bases]
        if db:
            return ["remove_bases", path, [rng.choice(db)]]
    if k == "evalstatic":
        if "C" in m.spaces and m.spaces["C"].cells:
            return ["evalstatic", "C", rng.choice(list(m.spaces["C"].cells)), rng.choice(ARGV)]
        tops = [p for p, sp in statics if "." not in p and IW.params_of(sp) and sp.cells]
        if tops and "C" not in m.spaces:
            return ["new_space", "-", "C", None, []]
        if tops:
            t = rng.choice(tops)
            return ["new_cells", "C", "c", IW.CALLER_SRC.format(s=t, a=rng.choice(list(m.spaces[t].cells)))]
    # accesses
    pc = gen_chain(rng, m, create_bias=0.55 if k == "item" else 0.3)
    if pc is None:
        return ["new_space", "-", rng.choice(TOPS), rng.choice([0, 1]), []]
    path, chain = pc
    if k == "item":
        return ["item", path, chain]
    if k in ("clear_at", "del_item", "clear_items", "clear_all"):
        if k in ("clear_items", "clear_all"):
            cut = [n for n, sg in enumerate(chain) if sg[0] != "attr"]
            return [k, path, chain[:rng.choice(cut)] if cut and rng.random() < 0.7 else chain]
        last = max(n for n, sg in enumerate(chain) if sg[0] != "attr") if any(sg[0] != "attr" for sg in chain) else None
        if last is not None:
            seg = chain[last]
            if k == "clear_at":
                a, kw = IW.seg_args(seg)
                return ["clear_at", path, chain[:last], a, kw]
            cc = IW.canon_chain(m, path, chain[:last + 1])
            if cc:
                return ["del_item", path, chain[:last], cc[-1][1]]
    # eval / assign inside the addressed instance (preferably one whose base has cells)
    names = CELLS
    base = target_base(m, path, chain)
    for _ in range(4):
        if base is not None and base.cells:
            break
        pc = gen_chain(rng, m, create_bias=0.3)
        path, chain = pc
        base = target_base(m, path, chain)
    if base is not None and base.cells and rng.random() < 0.92:
        names = list(base.cells)
    if prev and rng.random() < 0.3:
        earlier = [o for o in prev[-12:] if o[0] == "eval"]
        if earlier:
            return list(rng.choice(earlier))
    if k == "assign":
        return ["assign", path, chain, rng.choice(names), rng.choice(IW.QUERY), rng.randint(20, 29)]
    return ["eval", path, chain, rng.choice(names), rng.choice(IW.QUERY)]



# ----------------------------------------------------------------------------- correspondence (Lean `items` driver)

def enc_vals(v):
    return ",".join(str(x) for x in v) or "-"


def enc_kw(kw):
    return ",".join("%s=%s" % (k, v) for k, v in kw.items()) or "-"


def enc_chain(chain):
    segs = []
    for sg in chain:
        if sg[0] == "attr":
            segs.append("n:" + sg[1])
        elif sg[0] == "call":
            segs.append("c:%s:%s" % (enc_vals(sg[1]), enc_kw(sg[2])))
        else:
            segs.append("c:%s:-" % enc_vals(sg[1]))
    return ";".join(segs) or "-"


def enc_sig(params):
    return ",".join(n if d is None else "%s=%s" % (n, d) for n, d in params)


def enc_pf(idx):
    if idx is None:
        return "- -"
    pf = IW.PFORMS[idx]
    return "%s %s" % (enc_sig(pf["params"]), pf["sel"] or "-")


EDIT_LINE = {"new_cells": "newcells", "set_formula": "setformula", "del_cells": "delcells",
             "rename_cells": "renamecells", "del_ref": "delref"}


def model_lines_for(op, r, had_ref, some_path):
    """driver lines for one operation the implementation has just performed with result r"""
    k = op[0]
    accepted = r == "ok"
    if k == "new_space":
        path = op[2] if op[1] == "-" else op[1] + "." + op[2]
        return ["space %s %s" % (path, enc_pf(op[3]))] if accepted else []
    if k == "set_pformula":
        return ["param %s %s" % (op[1], enc_pf(op[2]))] if accepted else []
    if k == "del_space":
        return ["delspace " + op[1]] if accepted else []
    if k in EDIT_LINE:
        return ["edit %s %s" % (EDIT_LINE[k], op[1])] if accepted else []
    if k == "set_ref":
        return ["edit %s %s" % ("changeref" if had_ref else "newref", op[1])] if accepted else []
    if k in ("set_mref", "del_mref"):
        return ["edit modelref " + some_path] if accepted and some_path else []
    if k in ("item", "eval", "assign"):
        return ["item %s %s" % (op[1], enc_chain(op[2]))]
    if k == "clear_at":
        return ["clearat %s %s %s %s" % (op[1], enc_chain(op[2]), enc_vals(op[3]), enc_kw(op[4]))]
    if k == "del_item":
        return ["delitem %s %s %s" % (op[1], enc_chain(op[2]), enc_vals(op[3]))]
    if k == "clear_items":
        return ["clearitems %s %s" % (op[1], enc_chain(op[2]))]
    if k == "clear_all":
        return ["clearall %s %s" % (op[1], enc_chain(op[2]))]
    return []


def norm_err(r):
    t = r.split()
    if t[:2] == ["err", "Formula"]:
        return "err Formula"
    return " ".join(t[:2])


def impl_result_for(world, op, r):
    k = op[0]
    if k in ("item", "eval", "assign"):
        ok = (r == "ok") if k == "item" else bool(world.walked)
        if ok:
            cc = IW.canon_chain(world.m, op[1], op[2])
            return "ok " + (IW.chain_txt(op[1], cc) if cc is not None else "?")
        return norm_err(r)
    if k in ("clear_at", "del_item", "clear_items", "clear_all"):
        return "ok" if r == "ok" else norm_err(r)
    return None


def impl_obs(world, keep):
    m = world.m
    for p, s in IW.all_static(m):
        s._impl.namespace               # lazily evaluated maps are brought up to date, as by any listing
    ents = []
    for path, cchain, dyn, is_item in IW.dyn_entries(m):
        dyn._impl.namespace
        keep.append(dyn)
        b = dyn._impl._dynbase
        bp = b.interface.fullname.split(".", 1)[1] if b.interface._is_valid() else "?"
        ents.append((IW.chain_txt(path, cchain), id(dyn), bp))
    return ents


def parse_obs(line):
    ents = []
    for tok in line.split()[1:]:
        a, h, b = tok.split("|")
        ents.append((a, h, b))
    return ents


def canon_obs(ents, numbering):
    out = []
    for a, h, b in sorted(ents, key=lambda e: e[0]):
        if h not in numbering:
            numbering[h] = len(numbering)
        out.append("%s|h%d|%s" % (a, numbering[h], b))
    return "obs " + " ".join(out)


def correspond(ops, records, out):
    """records: per op (index, model lines, impl result or None, impl obs entries)"""
    lines, expect = ["reset"], [None]
    for k, mlines, ires, iobs in records:
        for n, ln in enumerate(mlines):
            lines.append(ln)
            expect.append((k, "res", ires) if n == len(mlines) - 1 and ires is not None else None)
        lines.append("obs")
        expect.append((k, "obs", iobs))
    got = core.run_driver("items", lines)
    num_i, num_m = {}, {}
    for ln, g, e in zip(lines, got, expect):
        if e is None:
            continue
        k, what, want = e
        if what == "res":
            g2 = g if g.startswith("ok ") and want.startswith("ok ") else norm_err(g) if g.startswith("err") else "ok"
            w2 = want if g.startswith("ok ") and want.startswith("ok ") else want.split()[0] if want.startswith("ok") else want
            if g2 != w2:
                out.disagree({"ops": ops[:k + 1]}, k, want, g, layer="items")
                return False
        else:
            a = canon_obs(want, num_i)
            b = canon_obs(parse_obs(g), num_m)
            if a != b:
                out.disagree({"ops": ops[:k + 1]}, k, a, b, layer="items")
                return False
    return True


# ----------------------------------------------------------------------------- kernel streams

def bind_stream(ctx, out, stats):
    """random signatures and spellings: the Lean `bindArgs`, modelx's `_bind_args` (on a real
    Formula) and the independent `ref_bind` must agree on acceptance and on the key"""
    from modelx.core.node import _bind_args
    from modelx.core.formula import Formula
    n = ctx.n(500, 8000)
    rng = ctx.rng("bind")
    cases, lines = [], []
    for _ in range(n):
        names = rng.sample(["i", "j", "k", "n"], rng.randint(1, 4))
        ndef = rng.randint(0, len(names))
        params = [(nm, None if idx < len(names) - ndef else rng.randint(0, 9)) for idx, nm in enumerate(names)]
        r = rng.random()
        if r < 0.7:
            sp = spelling(rng, params, malformed=0.25)
            args, kw = IW.seg_args(sp)
        else:
            args = [rng.choice(ARGV) for _ in range(rng.randint(0, len(names) + 1))]
            kw = {nm: rng.choice(ARGV) for nm in rng.sample(["i", "j", "k", "n", "zz"], rng.randint(0, 3))}
        cases.append((params, args, kw))
        lines.append("bind %s %s %s" % (enc_sig(params), enc_vals(args), enc_kw(kw)))
    got = core.run_driver("items", lines)
    for (params, args, kw), ln, g in zip(cases, lines, got):
        class Obj:
            formula = Formula("lambda %s: None" % ", ".join(nm if d is None else "%s=%d" % (nm, d) for nm, d in params))
        try:
            real = "ok " + enc_vals(_bind_args(Obj, args, kw))
        except TypeError:
            real = "err Type"
        try:
            ref = "ok " + enc_vals(IW.ref_bind(params, args, kw))
            stats["bind:accepted"] += 1
        except IW.BindError as e:
            ref = "err Type"
            stats["bind:rejected:" + str(e)] += 1
        if ref != real:
            out.fail("_bind_args gives %s for %s but positional-or-keyword binding gives %s" % (real, ln, ref),
                     {"bind": ln})
        if g != real:
            out.disagree({"bind": ln}, 0, real, g, layer="items")
            break
    return n


REF_NAMES = ["i", "j", "k", "r", "s", "u", "zz"]


def ref_stream(ctx, out, stats):
    """nested instances on real modelx with colliding names in every map of the reference chain:
    what `refs[name]` gives must be what the chain of `Generated.mxDynRefsOrder` gives for the
    maps read from the implementation; the oracle: innermost argument > outer argument > formula
    reference > base reference > model reference"""
    n = ctx.n(40, 500)
    done = 0
    for c in range(n):
        rng = ctx.rng("ref", c)
        close_all()
        with quiet():
            m = mx.new_model("M")
            try:
                for nm in ("u", "r", "i", "s", "k"):
                    if rng.random() < 0.6:
                        setattr(m, nm, rng.randint(90, 99))
                S = m.new_space("S", formula=IW.PFORMS[rng.choice([0, 1, 2])]["src"])
                for nm in ("r", "i", "s", "j"):
                    if rng.random() < 0.5:
                        setattr(S, nm, rng.randint(50, 59))
                X = S.new_space("X", formula=IW.PFORMS[rng.choice([0, 5, 6, 1])]["src"])
                for nm in ("r", "i", "k", "s", "n"):
                    if rng.random() < 0.5:
                        setattr(X, nm, rng.randint(70, 79))
                a, b = rng.choice(ARGV), rng.choice(ARGV)
                outer = S[a]
                inner = outer.X[b]
                lines, want, expect = [], [], []
                for dyn, argstack in ((outer, [outer]), (inner, [inner, outer]), (outer.X, [outer])):
                    impl = dyn._impl

                    def ints(d):
                        return {k: v.interface for k, v in d.items() if isinstance(v.interface, int)}
                    amaps = [ints(mp) for mp in impl._allargs.maps]
                    own, dynb, glob = ints(impl.own_refs), ints(impl._dynbase_refs), ints(m._impl.global_refs)
                    for nm in REF_NAMES:
                        lines.append("ref %s %s %s %s %s" % (nm, "|".join(enc_kw(x) for x in amaps) or "-",
                                                             enc_kw(own), enc_kw(dynb), enc_kw(glob)))
                        want.append("ok %d" % dyn.refs[nm] if nm in dyn.refs else "err Name")
                        # the oracle: the documented precedence, from the definitions
                        exp = None
                        for sp in argstack:
                            if exp is None and nm in sp._impl.arguments:
                                exp = sp._impl.arguments[nm].interface
                        if exp is None and dyn is outer and nm == "r" and "refs" in S.formula.source:
                            exp = a * 7
                        base = dyn._impl._dynbase.interface
                        if exp is None and nm in base._own_refs:
                            exp = base._impl.own_refs[nm].interface
                        if exp is None and nm in m.refs:
                            exp = m.refs[nm]
                        expect.append("ok %d" % exp if exp is not None else "err Name")
                got = core.run_driver("items", lines)
                for ln, w, g, e in zip(lines, want, got, expect):
                    stats["ref_lookups"] += 1
                    if w != e:
                        out.fail("a dynamic space resolves a name to %s but the chain arguments (innermost first) > "
                                 "formula references > base references > model references gives %s" % (w, e),
                                 {"ref": ln})
                    if w != g:
                        out.disagree({"ref": ln}, 0, w, g, layer="items")
                        return done
                done += 1
            finally:
                m.close()
    close_all()
    return done

# ----------------------------------------------------------------------------- the run of one history

def uses_model(space):
    for c in space.cells.values():
        if "_model." in c.formula.source:
            return True
    return any(uses_model(ch) for ch in space.spaces.values())


def static_sig(s):
    """the members of a static space as the dynamic spaces built from it see them"""
    f = s._impl.formula
    return (tuple((n, c.formula.source if c.formula is not None else None) for n, c in s.cells.items()),
            tuple((n, val_repr(s._impl.own_refs[n].interface)) for n in s._own_refs),
            tuple(s.spaces), f.source if f is not None else None)


# Before /repo commit 482219e the definition edits that reach a base only through its namespace /
# parameter formula ("del_cells", "set_ref", "del_ref", "new_space", "del_space", "add_bases",
# "remove_bases", "set_pformula") did not discard dynamic spaces built from it elsewhere, and a stale
# instance after one of them was reported under the known finding's key.  The defect is repaired:
# the list is empty, so every stale instance is a violation again.
UNPROPAGATED = ()


class Run:
    def __init__(self, out, stats):
        self.out = out
        self.stats = stats
        self.handles = []          # (obj, kind, path, cchain, cellname, impl at the time)
        self.tainted = []          # top-level ItemSpaceImpl objects hit by the known trigger (kept alive)
        self.nontrivial = False
        self.edited_with_two = False
        self.hard = 0               # failures that are not the known finding
        self.known_reported = False
        self.pending = []           # driver lines for what the harness itself did to the live model

    # -- known-finding trigger ------------------------------------------------------------
    def pre_edit(self, world, op):
        self.pre = None
        if op[0] not in UNPROPAGATED:
            return
        rec = []
        for path, s in IW.all_static(world.m):
            b = s._impl
            subs = [d for d in b._dynamic_subs if d.rootspace.parent is not b]
            if subs:
                rec.append((s, static_sig(s), [(d, IW.outermost(d)) for d in subs]))
        self.pre = rec

    def post_edit(self, world, op):
        if not self.pre:
            return
        for s, sig, subs in self.pre:
            changed = (not s._is_valid()) or static_sig(s) != sig
            if not changed:
                continue
            for d, top in subs:
                if d.interface._is_valid() and d.interface._impl is d:
                    if not any(t is top for t in self.tainted):
                        self.tainted.append(top)
                        self.stats["known_trigger:" + op[0]] += 1

    def key_for(self, dyn_impl):
        top = IW.outermost(dyn_impl)
        return KNOWN_DYNBASE if any(t is top for t in self.tainted) else None

    def stale(self, what, hist, impl):
        """an instance serves something that does not reflect the definitions.  Under the known
        trigger it is reported once per history under the finding's key and the instance is
        removed, so that the rest of the history is still explored; otherwise it is a failure"""
        key = self.key_for(impl)
        if key is None:
            self.out.fail(what, hist)
            self.hard += 1
            return
        if not self.known_reported:
            self.out.fail(what, hist, key=key)
            self.known_reported = True
        self.stats["known_finding_hits"] += 1
        top = IW.outermost(impl)
        try:
            with quiet():
                top.parent.clear_itemspace_at(top.argvalues_if)
            # the model is told about the removal (the same as `del parent[key]`)
            self.pending.append("delitem %s - %s" % (top.parent.interface.fullname.split(".", 1)[1],
                                                     enc_vals(top.argvalues_if)))
        except Exception:
            pass
        self.tainted = [t for t in self.tainted if t is not top]

    # -- handles --------------------------------------------------------------------------
    def take_handles(self, world):
        if len(self.handles) > 60:
            return
        for path, cchain, obj, is_item in IW.dyn_entries(world.m):
            st = IW.static_space(world.m, path)
            if not any(h[0] is obj for h in self.handles):
                self.handles.append((obj, "space", path, cchain, None, st))
            for cn, c in obj.cells.items():
                if not any(h[0] is c for h in self.handles) and len(self.handles) <= 60:
                    self.handles.append((c, "cells", path, cchain, cn, st))

    def check_handles(self, world, hist, opkind):
        m = world.m
        for rec in list(self.handles):
            (h, kind, path, cchain, cn, st) = rec
            self.stats["handle_checks"] += 1
            cur = IW.resolve(m, path, cchain)
            if kind == "cells" and cur is not None:
                cur = cur.cells[cn] if cn in cur.cells else None
            if h._is_valid():
                if cur is not h:
                    self.out.fail("a handle taken earlier to %s%s is alive but is not the object now found under "
                                  "its address (after %s)%s" % (
                                      IW.chain_txt(path, cchain), "." + cn if cn else "", opkind,
                                      "; the space it hangs under was deleted" if not st._is_valid() else ""),
                                  hist, detail={"now": repr(cur)})
                    self.hard += 1
                    self.handles = [x for x in self.handles if x is not rec]
                continue
            self.stats["dead_handles"] += 1
            uses = [("fullname", lambda: h.fullname)]
            if kind == "cells":
                uses += [("call", lambda: h(0)), ("formula", lambda: h.formula), ("set", lambda: h.__setitem__(0, 1))]
            else:
                uses += [("cells", lambda: list(h.cells)), ("spaces", lambda: list(h.spaces)),
                         ("getattr", lambda: h.parent)]
            for what, use in uses:
                try:
                    with quiet():
                        use()
                    self.out.fail("a dead handle to %s%s still acts (%s succeeded) after %s" % (
                        IW.chain_txt(path, cchain), "." + cn if cn else "", what, opkind), hist)
                    break
                except DeletedObjectError:
                    pass
                except Exception as e:
                    self.out.fail("a dead handle to %s%s raises %s instead of the deleted-object error (%s)" % (
                        IW.chain_txt(path, cchain), "." + cn if cn else "", type(e).__name__, what), hist)
                    break
            if kind == "cells":
                # the interface of a deleted cells is never re-attached: verified dead once is enough
                self.handles = [x for x in self.handles if x is not rec]

    # -- (id) -----------------------------------------------------------------------------
    def check_item(self, world, op, result, hist):
        """the access op[1], op[2] just ran with `result`: walk it again step by step against ref_bind"""
        m = world.m
        try:
            node = IW.static_space(m, op[1])
        except Exception:
            return
        for seg in op[2]:
            if seg[0] == "attr":
                if seg[1] not in node.spaces:
                    return
                node = node.spaces[seg[1]]
                continue
            ps = IW.params_of(node)
            if ps is None:
                return
            a, kw = IW.seg_args(seg)
            try:
                key = IW.ref_bind(ps, a, kw)
                reason = None
            except IW.BindError as e:
                key, reason = None, str(e)
            self.stats["spelling:" + ("binds" if key is not None else reason)] += 1
            if key is None:
                if not result.startswith("err Type"):
                    self.out.fail("the spelling %s of %s must be rejected (%s) but gave %s" % (
                        seg, IW.chain_txt(op[1], []), reason, result), hist)
                return
            ent = node._impl.param_spaces.get(key)
            if ent is None:
                if result.startswith("ok"):
                    self.out.fail("%s returned an instance but param_spaces has no entry under the bound key %r" % (
                        IW.chain_txt(op[1], op[2]), key), hist)
                return
            inst = ent.interface
            if inst.argvalues != key:
                self.out.fail("the instance under key %r carries the arguments %r" % (key, inst.argvalues), hist)
            its = node.itemspaces
            pub = key if len(key) > 1 else key[0]
            if pub not in its or its[pub] is not inst:
                self.out.fail("itemspaces[%r] is not the instance in param_spaces" % (pub,), hist)
            try:
                again = IW.step(node, seg)
            except Exception as e:
                again = e
            if again is not inst:
                self.out.fail("the spelling %s does not return the instance registered under its bound key %r" % (
                    seg, key), hist, detail=repr(again))
            # distinct keys: distinct objects, impls, cells
            seen = {}
            for k2, e2 in node._impl.param_spaces.items():
                ids = [id(e2), id(e2.interface)] + [id(c) for c in e2.cells.values()]
                for i in ids:
                    if i in seen and seen[i] != k2:
                        self.out.fail("the instances under keys %r and %r share an object" % (seen[i], k2), hist)
                    seen[i] = k2
            if len(node._named_itemspaces) != len(node._impl.param_spaces):
                self.out.fail("_named_itemspaces and param_spaces differ in size", hist)
            node = inst

    # -- (a) ------------------------------------------------------------------------------
    def check_replica(self, world, hist, only=None):
        m = world.m
        entries = [e for e in IW.dyn_entries(m) if e[3]]
        for path, cchain, dyn, _ in entries:
            if not dyn._is_valid():
                continue            # removed meanwhile (known-finding purge)
            if only is not None and not any(dyn._impl is o for o in only):
                continue
            impl = dyn._impl
            try:
                base, argmaps, frefs = IW.expected_base_and_refs(m, path, cchain)
            except Exception:
                continue            # the definitions no longer describe this address (parent edited)
            if not hasattr(base, "_is_valid") or not base._is_valid():
                continue
            if self.check_refs_inside(path, cchain, dyn, base, argmaps, frefs, hist, impl):
                continue
            if uses_model(base):
                continue            # formulas reaching into the model cannot be replicated in another model
            mine = IW.tree_values(dyn)
            with quiet():
                rm = mx.new_model("Rep")
                try:
                    for k, v in m.refs.items():
                        if isinstance(v, int) and not k.startswith("_"):
                            setattr(rm, k, v)
                    try:
                        rs = IW.build_replica(rm, "I", base, argmaps, frefs, dyn)
                        theirs = IW.tree_values(rs)
                    except Exception as e:
                        theirs = None
                finally:
                    rm.close()
            self.stats["replica_comparisons"] += 1
            if theirs is None:
                continue
            if not dyn._is_valid() or dyn._impl is not impl:
                continue          # evaluating deleted it (a formula edits nothing, but be safe)
            for q in sorted(set(mine) | set(theirs)):
                a, b = mine.get(q), theirs.get(q)
                if a != b and "Deep" not in str(a) + str(b):
                    self.stale("%s: %s is %s in the instance but %s in a plain replica of the base with the "
                               "parameters bound" % (IW.chain_txt(path, cchain), q, a, b), hist, impl)
                    break

    def check_refs_inside(self, path, cchain, dyn, base, argmaps, frefs, hist, impl):
        """(a'): a reference DEFINED in a space of the base's tree (not in absolute mode) whose value is a member of
        that tree denotes, in the instance, the instance's own member: `S[k].r is S[k].rate` for `Base.r = Base.rate`.
        (Derived references and targets outside the tree of the instance's own base are C10's subject.)"""
        shadow = set(frefs)
        for a in argmaps:
            shadow |= set(a)

        def walk(b, d):
            for n, (v, mode) in IW.obj_refs(b).items():
                if mode == "absolute" or not v._is_valid() or b._impl.own_refs[n].is_derived():
                    continue
                if n in shadow or n in d.cells or n in d.spaces:
                    continue
                rel = IW.inside(base, v)
                if rel is None:
                    continue
                self.stats["refs_inside_checked"] += 1
                try:
                    with quiet():
                        got = getattr(d, n)
                        want = IW.follow(dyn, rel)
                except Exception as e:
                    got, want = "raised " + err_kind(e), None
                if got is not want:
                    self.stale("%s: the reference %s of %s is %s (%s) in the instance, not the instance's own %s" % (
                        IW.chain_txt(path, cchain), n, b.fullname.split(".", 1)[1],
                        got if isinstance(got, str) else getattr(got, "fullname", repr(got)),
                        "the static member" if got is v else "another object",
                        ".".join(rel) or "self"), hist, impl)
                    return True
            for chn in b.spaces:
                if chn in d.spaces and walk(b.spaces[chn], d.spaces[chn]):
                    return True
            return False
        return walk(base, dyn)

    # -- (c) ------------------------------------------------------------------------------
    def check_fresh(self, world, ops, k, hist):
        m = world.m
        tops = [e for e in IW.dyn_entries(m) if e[3] and len(e[1]) == 1]
        if not tops:
            return
        mine = {}
        for path, cchain, dyn, _ in tops:
            mine[(path, json.dumps(cchain))] = (IW.tree_values(dyn), dyn._impl)
            # nested instances that are alive are part of what the instance serves
            for p2, c2, d2, it2 in IW.dyn_entries(m):
                if it2 and p2 == path and len(c2) > 1 and c2[0] == cchain[0]:
                    mine[(p2, json.dumps(c2))] = (IW.tree_values(d2), dyn._impl)
        fresh = reference_replay(ops, k + 1)
        try:
            for (path, cj), (vals, impl) in mine.items():
                cchain = json.loads(cj)
                if impl.interface._impl is not impl:
                    continue        # removed meanwhile (known-finding purge)
                try:
                    with quiet():
                        fobj = IW.walk(fresh.m, path, cchain)
                    theirs = IW.tree_values(fobj)
                except Exception as e:
                    theirs = {"#error": err_kind(e)}
                self.stats["fresh_comparisons"] += 1
                for q in sorted(set(vals) | set(theirs)):
                    a, b = vals.get(q), theirs.get(q)
                    if a != b and "Deep" not in str(a) + str(b):
                        self.stale("%s: %s is %s but a model to which only the edits were applied gives %s" % (
                            IW.chain_txt(path, cchain), q, a, b), hist, impl)
                        break
        finally:
            fresh.close()


def reference_replay(ops, upto):
    """the reference of oracle (c): a model to which only the edits among ops[0..upto) were applied.
    Assignments create instances there as well; so that the reference does not itself contain what
    the known finding leaves behind, an instance hit by the known trigger is removed at once."""
    w = IW.World("F")
    tr = Run(core.Outcome(), collections.Counter())
    for op in ops[:upto]:
        if op[0] not in IW.EDIT_KINDS:
            continue
        if op[0] in IW.DEF_EDITS:
            tr.pre_edit(w, op)
        w.apply(op)
        if op[0] in IW.DEF_EDITS:
            tr.post_edit(w, op)
            for top in tr.tainted:
                try:
                    with quiet():
                        top.parent.clear_itemspace_at(top.argvalues_if)
                except Exception:
                    pass
            tr.tainted = []
    return w


def corr_eligible(ops):
    """the vocabulary the Lean model covers: no inheritance, no instance created from inside a formula"""
    for o in ops:
        if o[0] in ("add_bases", "remove_bases", "evalstatic", "rename_cells"):
            return False
        if o[0] == "new_space" and (o[4] or o[2] in ("A", "C")):
            return False
        if o[0] == "set_ref" and IW.is_obj(o[3]):
            return False        # object-valued references: the decision logic is the Relative kernel's (C10)
    return True


def run_one(ops, out, stats, rng=None, n_ops=0, wide=True, motif=None, corr=True):
    """returns (nontrivial, lines for the model, impl lines) – the correspondence part is added
    by `correspond`"""
    close_all()
    world = IW.World("M")
    run = Run(out, stats)
    trace = []
    records, keep = [], []
    corr = corr and not wide
    if rng is not None and not ops:
        ops += [["set_mref", "u", 11]]
        mi = motif if motif is not None else rng.choice(range(len(MOTIFS)) if wide else CORE_MOTIFS)
        ops += [json.loads(json.dumps(o)) for o in MOTIFS[mi]]
        stats["motif:%d" % mi] += 1
    k = 0
    try:
        try:
            k = 0
            while True:
                if k >= len(ops):
                    if rng is None or k >= n_ops:
                        break
                    ops.append(gen_next(rng, world, ops, wide))
                op = ops[k]
                hist = {"ops": ops[:k + 1]}
                kind = op[0]
                stats["op:" + kind] += 1
                is_edit = kind in IW.EDIT_KINDS
                live_before = [e for e in IW.dyn_entries(world.m) if e[3] and len(e[1]) == 1]
                if kind in IW.DEF_EDITS:
                    per_parent = collections.Counter(e[0] for e in live_before)
                    if per_parent and max(per_parent.values()) >= 2:
                        run.edited_with_two = True
                        stats["edits_with_two_live_instances"] += 1
                    run.pre_edit(world, op)
                if kind == "assign":
                    before = {}
                    target = IW.canon_chain(world.m, op[1], op[2])
                    for p, c, d, it in IW.dyn_entries(world.m):
                        if it:
                            before[(p, json.dumps(c))] = (d, IW.held_values(d))
                had_ref = False
                if kind == "set_ref":
                    try:
                        had_ref = op[2] in IW.static_space(world.m, op[1])._own_refs
                    except Exception:
                        pass
                r = world.apply(op)
                trace.append(r)
                if corr:
                    st = IW.all_static(world.m)
                    pend, run.pending = run.pending, []
                    records.append((k, pend + model_lines_for(op, r, had_ref, st[0][0] if st else None),
                                    impl_result_for(world, op, r), impl_obs(world, keep)))
                if r.startswith("err"):
                    stats["rejected:" + kind] += 1
                    if kind == "eval":
                        stats["eval_" + r.replace(" ", "_")] += 1
                if kind in IW.DEF_EDITS:
                    run.post_edit(world, op)
                # ---- oracles
                if kind in ("item", "eval", "assign"):
                    run.check_item(world, op, r, hist)
                if kind == "assign" and r == "ok":
                    tgt = IW.canon_chain(world.m, op[1], op[2])
                    tj = json.dumps(tgt) if tgt else None
                    for (p, cj), (d, held) in before.items():
                        inside = tj is not None and p == op[1] and (cj == tj or tj.startswith(cj[:-1]) or cj.startswith(tj[:-1]))
                        if inside or not d._is_valid():
                            continue
                        now = IW.held_values(d)
                        stats["isolation_checks"] += 1
                        if now != held:
                            out.fail("an assignment in %s changed held values of %s" % (
                                IW.chain_txt(op[1], op[2]), IW.chain_txt(p, json.loads(cj))), hist,
                                detail={"before": held, "after": now})
                if kind == "eval" and r.startswith("ok") and run.edited_with_two:
                    run.nontrivial = True
                run.check_handles(world, hist, kind)
                if is_edit:
                    run.check_fresh(world, ops, k, hist)
                    if kind in IW.DEF_EDITS:
                        run.check_replica(world, hist)
                elif kind == "eval":
                    cc = IW.canon_chain(world.m, op[1], op[2])
                    obj = IW.resolve(world.m, op[1], cc) if cc else None
                    if obj is not None:
                        # the queried instance against the replica (its enclosing instances too)
                        chainimpls = []
                        cur = obj._impl
                        while cur is not None and not cur.is_model() and cur.is_dynamic():
                            chainimpls.append(cur)
                            cur = cur.parent
                        run.check_replica(world, hist, only=chainimpls)
                run.take_handles(world)
                k += 1
                if run.hard or len(out.failures) >= 4:
                    break
            if not run.hard and len(out.failures) < 4:
                hist = {"ops": list(ops)}
                run.check_fresh(world, ops, len(ops) - 1, hist)
                run.check_replica(world, hist)
            if corr and corr_eligible(ops) and not run.hard:
                stats["correspondence_histories"] += 1
                stats["correspondence_lines"] += 2 * len(records)
                correspond(ops, records, out)
        except core.Infra:
            raise
        except Exception as e:
            # an exception of the implementation while the harness looks at the model (oracles, choice of the next
            # operation) is an observation about the implementation, reported with the history that led to it
            if not core.raised_by_impl(e):
                raise
            out.fail("the model cannot be observed after %s: modelx raised %s" % (
                ops[min(k, len(ops) - 1)][0] if ops else "nothing", core.impl_error_text(e)),
                {"ops": ops[:k + 1]})
    finally:
        world.close()
        close_all()
    return run.nontrivial, trace


# ----------------------------------------------------------------------------- motif x single edit
#
# Small-scope exhaustive part.  What an instance serves is built from definitions that can live in many
# places: the parametrised space, its child and grandchild spaces, the spaces any of them DERIVES from, the
# foreign base a parameter formula chooses, that base's children and bases, the model.  After every motif
# program two instances of every parametrised space are created and evaluated completely (nested parametrised
# children through them), then ONE edit is made - every kind of definition edit at every one of those places
# (quick tier: all deletions plus a seeded sample of the rest) - and the same accesses are repeated.  The
# oracles are those of every history: (c) freshness against an edits-only model, (a) the plain replica,
# (d) handles, (id).  Nothing reads the static spaces in between (reading them refreshes their lazily
# evaluated namespaces, which is exactly what must not be needed).

def first_cells(space, prefix=()):
    """(attribute chain, cells name) of some cells in the tree of a static space, or None"""
    for cn in space.cells:
        return list(prefix), cn
    for name, ch in space.spaces.items():
        if IW.params_of(ch) is None:
            r = first_cells(ch, prefix + (name,))
            if r:
                return r
    return None


def instance_queries(m):
    """accesses that create two instances of every top-level parametrised space and evaluate some cells in each
    (the replica oracle then evaluates the whole tree of the instance); nested parametrised children likewise"""
    q = []
    for path, s in IW.all_static(m):
        if "." in path or not IW.params_of(s):
            continue
        for a in (1, 2):
            chain = [["idx", [a]]]
            base = target_base(m, path, chain)
            if base is None:
                continue
            fc = first_cells(base)
            if fc:
                q.append(["eval", path, chain + [["attr", n] for n in fc[0]], fc[1], 1])
            else:
                q.append(["item", path, chain])
            for name, ch in base.spaces.items():
                if IW.params_of(ch):
                    # a nested instance under the SAME argument as the outer instance (a = 1) / under another one
                    for b in ((a,) if a == 1 else (3,)):
                        c2 = chain + [["attr", name], ["idx", [b]]]
                        fc2 = first_cells(ch)
                        q.append(["eval", path, c2 + [["attr", n] for n in fc2[0]], fc2[1], 1] if fc2 else ["item", path, c2])
    # callers in a plain space that create instances from inside their formulas hold values computed through them
    if "C" in m.spaces:
        for cn in m.spaces["C"].cells:
            for a in (1, 2):
                q.append(["evalstatic", "C", cn, a])
    return q


DELETIONS = ("del_cells", "del_ref", "del_mref", "remove_bases", "del_space")


def single_edits(m):
    """every single definition edit applicable to the static model"""
    edits = []
    statics = IW.all_static(m)
    plain = [p for p, sp in statics if "." not in p and IW.params_of(sp) is None and p != "C"]
    n = 0
    for path, s in statics:
        depth = path.count(".")
        for cn, c in s.cells.items():
            n += 1
            edits.append(["set_formula", path, cn, C(0, k=6 + n % 3)])
            if not c._is_derived():
                edits.append(["del_cells", path, cn])
                free = [x for x in CELLS if x not in s.cells]
                if free:
                    edits.append(["rename_cells", path, cn, free[0]])
        for rn in list(s._own_refs):
            if not s._impl.own_refs[rn].is_derived():
                edits.append(["set_ref", path, rn, 40 + n])
                edits.append(["del_ref", path, rn])
            else:
                edits.append(["set_ref", path, rn, 45 + n])          # override a derived reference
        for rn in REFS:
            if rn not in s._own_refs:
                edits.append(["set_ref", path, rn, 50])                # a new reference (may shadow a parameter / model ref)
        free = [x for x in CELLS if x not in s.cells]
        if free:
            edits.append(["new_cells", path, free[0], C(0, k=9)])
        db = [b.fullname.split(".", 1)[1] for b in s._direct_bases]
        for b in db:
            edits.append(["remove_bases", path, [b]])
        for b in plain:
            if b != path.split(".")[0] and b not in db:
                edits.append(["add_bases", path, [b]])
        edits.append(["del_space", path])
        if depth < 2:
            pool = [x for x in (CHILD if depth == 0 else GRAND) if x not in s.spaces]
            if pool:
                edits.append(["new_space", path, pool[0], None, []])
                if plain and plain[0] != path.split(".")[0]:
                    edits.append(["new_space", path, pool[0], None, [plain[0]]])
        if path != "C":
            cur = PF_IDX.get(s._impl.formula.source) if s._impl.formula is not None else None
            if depth == 0 and cur is not None:
                for alt in (0, 1, 2):
                    if alt != cur:
                        edits.append(["set_pformula", path, alt])
                        break
            elif depth > 0:
                edits.append(["set_pformula", path, 5 if cur is None else None])
    for k in MREFS:
        edits.append(["set_mref", k, 60])
        if k in m.refs:
            edits.append(["del_mref", k])
    out = []
    for e in edits:
        if e not in out:
            out.append(e)
    return out


PF_IDX = IW.PF_BY_SRC


def repointing_edits(m, edits):
    """the base-adding edits (of a `single_edits` list) that can change the FIRST definer of a member some space
    already derives: the added base (or a space it derives from) has a cells / reference name that the edited space
    or a space deriving from it already has as a DERIVED member.  The existing derived member is then re-pointed in
    place (nothing is created or deleted), which is the case in which everything built from it has to be told."""
    out = []
    statics = dict(IW.all_static(m))
    for e in edits:
        if e[0] != "add_bases":
            continue
        try:
            target = statics[e[1]]
            names = set()
            for b in e[2]:
                names |= set(statics[b].cells) | set(statics[b]._own_refs)
            subs = [target] + [sp for sp in statics.values() if any(x is target for x in sp.bases)]
            derived = set()
            for sp in subs:
                derived |= {n for n, c in sp.cells.items() if c._is_derived()}
                derived |= {n for n in sp._own_refs if sp._impl.own_refs[n].is_derived()}
            if names & derived:
                out.append(e)
        except Exception:
            continue
    return out


def enumerate_edits(ctx, out, stats, motifs=None, per_motif=8):
    for mi, mo in enumerate(MOTIFS):
        if motifs is not None and mi not in motifs:
            continue
        prefix = [["set_mref", "u", 11]] + [json.loads(json.dumps(o)) for o in mo]
        close_all()
        w = IW.World("M")
        try:
            for op in prefix:
                w.apply(op)
            queries = instance_queries(w.m)
            edits = single_edits(w.m)
            repoint = repointing_edits(w.m, edits)
        except core.Infra:
            raise
        except Exception as e:
            if not core.raised_by_impl(e):
                raise
            out.fail("the model cannot be observed after a motif program: modelx raised %s" % core.impl_error_text(e),
                     {"ops": prefix})
            continue
        finally:
            w.close()
            close_all()
        rng = ctx.rng("enum", mi)
        if ctx.tier == "thorough":
            chosen = edits
        else:
            always = [e for e in edits if e[0] in DELETIONS or e in repoint]
            rest = [e for e in edits if e not in always]
            # (the motifs with several parents / nested instances are the expensive ones: a smaller sample there)
            chosen = always + rng.sample(rest, min(len(rest), per_motif if mi < 13 else per_motif // 2))
            stats["enumerated_repointing_add_bases"] += len(repoint)
        for e in chosen:
            ops = [json.loads(json.dumps(o)) for o in prefix + queries + [e] + queries]
            sub = core.Outcome()
            run_one(ops, sub, stats, wide=True)
            out.failures += sub.failures
            out.disagreements += sub.disagreements
            stats["enumerated_scenarios"] += 1
            stats["enumerated:" + e[0]] += 1
            if len([f for f in out.failures if not f.get("key")]) >= 4:
                return


# ----------------------------------------------------------------------------- failing constructions
#
# An ItemSpace request may FAIL: the parameter formula raises, returns something that is neither None nor a dict,
# returns `refs` that is no mapping (a number, a list, a string, a mapping with a key that is no name), a `base` that
# is no space - or the construction fails at its very end because a `relative` reference of the base points out of
# its tree.  "Parametrised, isolated, identity-stable" then means: the failed S[k] leaves NO item (nothing registered
# under the parent, its base, the children of its base), no earlier handle denotes a half-built instance, the parent
# stays editable and every other key works.  Histories: requests (failing and not), handles taken, edits of the
# parent (cells, references, child, the parameter formula, the set of failing keys, the relative reference), repair
# of the formula.  A second model gets the EDITS only (never a request).  Oracle after every step:
#   * a request that raised changed nothing (complete description with held values and item keys, before = after);
#   * registry: under every space as many registered ItemSpaces as items, every dynamic sub of a space is a live
#     dynamic space of the model; the library's self-check passes;
#   * a handle is the object under its address and works, or every use raises the deleted-object error;
#   * every edit has the outcome it has in the edits-only model; at the end every key gives the edits-only values.

FAIL_BODIES = {
    "refs_int": "return {'refs': 5}",
    "refs_list": "return {'refs': [('z', 1)]}",
    "refs_str": "return {'refs': 'z'}",
    "refs_none_key": "return {'refs': {None: 2}}",
    "nondict": "return 5",
    "list": "return [1]",
    "raises": "return 1 // 0",
    "base_int": "return {'base': 5}",
    "base_cells": "return {'base': foo, 'refs': ok_refs}",
    "relref": "return {'refs': ok_refs}",        # the formula is fine: the failure comes from the step `relref`
}


def fail_pf(tmpl):
    return "def _f(k):\n    if k in failfor:\n        %s\n    return {'refs': ok_refs}" % FAIL_BODIES[tmpl]


FAIL_EDITS = ["new_cells", "del_cells", "set_ref", "foo_formula", "child_cells", "okrefs", "failfor", "relref", "del_relref",
              "pformula", "sub_cells"]


def failed_registry(m):
    """problems of the registries of dynamic spaces (any model)"""
    out = []
    live = {id(d._impl) for _, _, d, _ in IW.dyn_entries(m)}
    for path, sp in IW.all_static(m):
        impl = sp._impl
        if len(impl.named_itemspaces) != len(impl.param_spaces) or \
                {id(v) for v in impl.named_itemspaces.values()} != {id(v) for v in impl.param_spaces.values()}:
            out.append("%s has %d ItemSpaces registered by name but %d items" % (
                path, len(impl.named_itemspaces), len(impl.param_spaces)))
        ghosts = [d for d in impl._dynamic_subs if id(d) not in live]
        if ghosts:
            out.append("%s is the base of %d dynamic space(s) that are not in the model" % (path, len(ghosts)))
    return out


class FailedWorld:
    """the model of a failed-items history; `apply(step)` -> outcome text"""
    def __init__(self, h, name):
        self.m = m = mx.new_model(name)
        self.O = m.new_space("O")
        self.O.new_cells("c", formula="def c(): return 1")
        self.S = S = m.new_space("S", formula=fail_pf(h["fail"]))
        S.ok_refs = {"z": 10}
        S.failfor = tuple(h.get("failfor", (1,)))
        S.new_cells("foo", formula="def foo(t): return k * t + z")
        if h.get("child", True):
            Ch = S.new_space("Ch")
            Ch.new_cells("g", formula="def g(t): return t + k")
        if h.get("sub"):
            m.new_space("Sub", bases=S)
        self.nextra = 0
        self.handles = []       # (handle, kind, key, name)

    def apply(self, st):
        from ..impl import err_kind
        try:
            with quiet(), IW.limited():
                return self._apply(st)
        except FormulaError:
            return "err Formula " + err_kind(mx.get_error())
        except Exception as e:      # noqa
            self.last_exc = e
            return "err " + err_kind(e)

    def _apply(self, st):
        S, k = self.S, st[0]
        self.got_item = False       # the request itself succeeded (what follows it is an evaluation)
        if k == "item":
            S[st[1]]
        elif k == "eval":
            it = S[st[1]]
            self.got_item = True
            return "ok %r" % (it.foo(st[2]),)
        elif k == "eval_child":
            it = S[st[1]]
            self.got_item = True
            return "ok %r" % (it.Ch.g(st[2]),) if "Ch" in it.spaces else "ok none"
        elif k == "handle":
            it = S[st[1]]
            self.handles.append((it, "space", st[1], None))
            self.handles.append((it.foo, "cells", st[1], "foo"))
            if "Ch" in it.spaces:
                self.handles.append((it.Ch, "space", st[1], "Ch"))
        elif k == "new_cells":
            self.nextra += 1
            S.new_cells("extra%d" % self.nextra, formula="lambda: 0")
        elif k == "del_cells":
            if self.nextra:
                del S.cells["extra%d" % self.nextra]
                self.nextra -= 1
        elif k == "set_ref":
            S.q = st[1]
        elif k == "foo_formula":
            S.foo.formula = "def foo(t): return k * t + z + %d" % st[1]
        elif k == "child_cells":
            if "Ch" in S.spaces:
                S.Ch.new_cells("g%d" % st[1], formula="lambda t: t")
        elif k == "sub_cells":
            if "Sub" in self.m.spaces:
                self.m.Sub.new_cells("own%d" % st[1], formula="lambda t: t")
        elif k == "okrefs":
            S.ok_refs = {"z": st[1]}
        elif k == "failfor":
            S.failfor = tuple(st[1])
        elif k == "relref":
            S.set_ref("rr", self.O.c, "relative")
        elif k == "del_relref":
            if "rr" in S._own_refs:
                del S.rr
        elif k == "pformula":
            S.formula = fail_pf(st[1])
        return "ok"


FAIL_REQUESTS = ("item", "eval", "eval_child", "handle")


def check_failed(h, out, stats):
    from . import c13
    from .. import structworld as SW
    from modelx.core.errors import DeletedObjectError
    close_all()
    stats["failed_item_histories"] += 1
    steps = h["steps"]
    n0 = len(out.failures)
    try:
        with quiet():
            live, only = FailedWorld(h, "M"), FailedWorld(h, "F")
        for i, st in enumerate(steps):
            hist = dict(h, steps=steps[:i + 1])
            request = st[0] in FAIL_REQUESTS
            before = SW.describe(live.m, with_items=True) if request else None
            r = live.apply(st)
            stats["failed_items:%s:%s" % (st[0], " ".join(r.split(" ")[:2]) if r.startswith("err") else "ok")] += 1
            if request and r.startswith("err") and not live.got_item:
                stats["failed_requests"] += 1
                after = SW.describe(live.m, with_items=True)
                if after != before:
                    out.fail("the ItemSpace request %s raised (%s) but changed the model: %s" % (st, r, _desc_diff(before, after)), hist)
            if not request:
                r2 = only.apply(st)
                if r.split(" ")[:2] != r2.split(" ")[:2]:
                    out.fail("the edit %s of the parametrised space gives %r, but %r in a model to which only the edits "
                             "were applied (no ItemSpace was ever requested there)" % (st, r, r2), hist)
            for pb in failed_registry(live.m)[:1]:
                out.fail("after %s (%s): %s" % (st, r.split(" ")[0], pb), hist)
            try:
                with quiet():
                    mx.core.mxsys._check_sanity()
            except AssertionError as e:
                out.fail("the library's own consistency check fails after %s: %s" % (st, core.impl_error_text(e)), hist)
            keep = []
            for (hd, kind, key, name) in live.handles:
                stats["failed_items_handle_checks"] += 1
                if hd._is_valid():
                    cur = live.S._impl.param_spaces.get((key,))
                    cur = cur.interface if cur is not None else None
                    if cur is not None and name == "foo":
                        cur = cur.cells["foo"] if "foo" in cur.cells else None
                    elif cur is not None and name == "Ch":
                        cur = cur.spaces["Ch"] if "Ch" in cur.spaces else None
                    if cur is not hd:
                        out.fail("a handle to S[%s]%s is alive after %s but is not the object found under its address" % (
                            key, "." + name if name else "", st), hist)
                    else:
                        keep.append((hd, kind, key, name))
                    continue
                for what, use in c13.uses(hd, kind):
                    if what in ("new_cells", "bases", "set"):
                        continue
                    try:
                        with quiet():
                            use()
                        out.fail("a dead handle to S[%s]%s still acts (%s succeeded) after %s" % (
                            key, "." + name if name else "", what, st), hist)
                        break
                    except DeletedObjectError:
                        pass
                    except Exception as e:      # noqa
                        out.fail("a dead handle to S[%s]%s raises %s instead of the deleted-object error on %s" % (
                            key, "." + name if name else "", type(e).__name__, what), hist)
                        break
            live.handles = keep
            if len(out.failures) - n0 >= 3:
                return False
        # the end: every key, in both models
        for key in (1, 2, 3):
            for st in (["eval", key, 2], ["eval_child", key, 1]):
                a, b = live.apply(st), only.apply(st)
                if a != b and not (a.startswith("err") and b.startswith("err") and a.split(" ")[:2] == b.split(" ")[:2]):
                    out.fail("at the end %s gives %r, but %r in a model to which only the edits were applied" % (st, a, b),
                             dict(h, steps=steps + [st]))
                    return False
    finally:
        close_all()
    return len(out.failures) == n0


def _desc_diff(a, b):
    out = []
    for p in sorted(set(a["spaces"]) | set(b["spaces"])):
        sa, sb = a["spaces"].get(p), b["spaces"].get(p)
        if sa != sb:
            out.append("%s: %s" % (p, ", ".join(k for k in (sa or sb) if (sa or {}).get(k) != (sb or {}).get(k))))
    return "; ".join(out)[:300] or "model-level references"


def gen_failed(rng):
    tmpl = rng.choice(sorted(FAIL_BODIES))
    steps = []
    if rng.random() < 0.6:
        steps += [["handle", rng.choice([1, 2])], ["eval", 2, 1]]
    if tmpl == "relref":
        steps.append(["relref"])
    for _ in range(rng.randint(3, 8)):
        r = rng.random()
        if r < 0.45:
            k = rng.choice(["item", "item", "eval", "eval_child", "handle"])
            key = rng.choice([1, 1, 2, 3])
            steps.append([k, key] if k in ("item", "handle") else [k, key, rng.randint(0, 2)])
        else:
            k = rng.choice(FAIL_EDITS)
            if k in ("relref", "del_relref") and tmpl != "relref" and rng.random() < 0.7:
                k = "new_cells"
            steps.append([k, rng.randint(2, 9)] if k in ("set_ref", "foo_formula", "child_cells", "okrefs", "sub_cells") else
                         [k, rng.choice([[], [1], [1, 2], [2]])] if k == "failfor" else
                         [k, rng.choice(sorted(FAIL_BODIES))] if k == "pformula" else [k])
    return {"scenario": "failed-items", "fail": tmpl, "failfor": rng.choice([[1], [1], [1, 3], []]),
            "child": rng.random() < 0.8, "sub": rng.random() < 0.3, "steps": steps}


def failed_items(ctx, out, stats):
    hists = []
    for tmpl in sorted(FAIL_BODIES):
        pre = [["relref"]] if tmpl == "relref" else []
        post = [["del_relref"]] if tmpl == "relref" else []
        # (a) some keys fail from the start: requests, then edits of the parent, other keys, repair
        hists.append({"scenario": "failed-items", "fail": tmpl, "failfor": [1], "child": True, "sub": tmpl in ("refs_int", "relref"),
                      "steps": [["eval", 2, 3], ["handle", 2]] + pre + [["item", 1], ["item", 1], ["eval", 1, 1], ["new_cells"],
                                ["set_ref", 3], ["eval", 3, 1], ["child_cells", 1], ["sub_cells", 1], ["foo_formula", 2]] + post
                      + [["failfor", []], ["eval", 1, 2]]})
        # (b) an item that exists, with handles; then the formula starts to fail for its key
        hists.append({"scenario": "failed-items", "fail": tmpl, "failfor": [], "child": True, "sub": False,
                      "steps": [["handle", 1], ["eval", 1, 2]] + pre + [["failfor", [1]], ["item", 1], ["okrefs", 1], ["item", 1],
                                ["new_cells"], ["del_cells"]] + post + [["failfor", []], ["eval", 1, 2], ["eval_child", 1, 1]]})
    hists += [gen_failed(ctx.rng("failed-items", i)) for i in range(ctx.n(40, 800))]
    for h in hists:
        check_failed(h, out, stats)
        if len([f for f in out.failures if not f.get("key")]) >= 4:
            break
    return len(hists)


def load_corpus():
    d = os.path.join(core.CORPUS_DIR, "C07")
    out = []
    if os.path.isdir(d):
        for f in sorted(os.listdir(d)):
            if f.endswith(".json"):
                out.append(json.load(open(os.path.join(d, f)))["ops"])
    return out


def run(ctx, out):
    stats = collections.Counter()
    n = ctx.n(220, 4000)
    cases = [(ops, None, not corr_eligible(ops)) for ops in load_corpus()]
    for i in range(n):
        cases.append(([], ctx.rng("hist", i), i % 3 == 2))
    nontrivial, seen, samples = 0, set(), []
    for i, (ops, rng, wide) in enumerate(cases):
        sub = core.Outcome()
        nt, trace = run_one(ops, sub, stats, rng=rng, n_ops=(rng.randint(22, 40) if rng else 0), wide=wide)
        out.failures += sub.failures
        out.disagreements += sub.disagreements
        key = json.dumps(ops)
        if key not in seen:
            seen.add(key)
            nontrivial += bool(nt)
        if len(samples) < 2 and rng is not None:
            samples.append([json.dumps(o) for o in ops])
    if len([f for f in out.failures if not f.get("key")]) < 4:
        enumerate_edits(ctx, out, stats)
    nb = bind_stream(ctx, out, stats)
    nr = ref_stream(ctx, out, stats)
    stats["bind_cases"] = nb
    stats["ref_scenarios"] = nr
    nf = failed_items(ctx, out, stats)
    out.assumptions.append(
        "instance_value (a cells in an instance evaluates as in the base with the parameters bound) is not a Lean "
        "theorem: it is checked by the implementation-only oracle against a plain replica on every history; the Lean "
        "theorems cover binding, instance identity/handles under all histories, what edits leave behind, and the "
        "order of the reference chain")
    out.coverage.update({"evaluations": len(cases) + stats["enumerated_scenarios"] + nf, "programs": len(seen),
                         "distinct_nontrivial": nontrivial,
                         "rule": RULE + "; plus, after each of the %d motif programs with two instances of every parametrised "
                                        "space created and evaluated, single definition edits at every place a definition "
                                        "lives (quick: all deletions + a sample; thorough: all), accesses repeated" % len(MOTIFS)
                                 + "; plus %d histories of FAILING constructions (%d kinds: the parameter formula raises, returns a "
                                   "non-dict, refs that are no mapping / have a key that is no name, a base that is no space, a "
                                   "relative reference of the base out of its tree) for some keys, with handles, edits of the "
                                   "parent / child / sub space / formula, repair: a failed request changes nothing, registries "
                                   "of dynamic spaces consistent, handles dead or the object under their address, every edit "
                                   "and the final values as in an edits-only model" % (nf, len(FAIL_BODIES)),
                         "samples": samples, "input_distribution": dict(stats),
                         "corpus_cases": len(cases) - n, "traces_validated_against_impl": len(cases)})


def replay(ctx, payload, out):
    h = payload.get("history")
    if not h and "ops" in payload:
        h = payload             # a corpus file
    if not h:
        un = payload.get("unexplained") or []
        corr = [u for u in un if u.get("kind") == "correspondence"]
        h = corr[-1]["detail"].get("history") if corr else None
    if not h:
        return
    if h.get("scenario") == "failed-items":
        check_failed(h, out, collections.Counter())
    elif "ops" in h:
        ops = json.loads(json.dumps(h["ops"]))
        run_one(ops, out, collections.Counter(), wide=not corr_eligible(ops))
    elif "bind" in h:
        from modelx.core.node import _bind_args
        from modelx.core.formula import Formula
        _, sg, a, k = h["bind"].split()
        params = [(e.split("=")[0], int(e.split("=")[1]) if "=" in e else None) for e in sg.split(",")]
        args = [] if a == "-" else [int(x) for x in a.split(",")]
        kw = {} if k == "-" else {e.split("=")[0]: int(e.split("=")[1]) for e in k.split(",")}

        class Obj:
            formula = Formula("lambda %s: None" % ", ".join(n if d is None else "%s=%d" % (n, d) for n, d in params))
        try:
            real = "ok " + enc_vals(_bind_args(Obj, args, kw))
        except TypeError:
            real = "err Type"
        try:
            ref = "ok " + enc_vals(IW.ref_bind(params, args, kw))
        except IW.BindError:
            ref = "err Type"
        if ref != real:
            out.fail("_bind_args gives %s for %s but positional-or-keyword binding gives %s" % (real, h["bind"], ref), h)
        got = core.run_driver("items", [h["bind"]])[0]
        if got != real:
            out.disagree(h, 0, real, got, layer="items")
