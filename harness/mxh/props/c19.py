"""C19 – model registry: unique names, no model dropped, models isolated.

Correspondence: random sessions of new_model / read_model / rename / close over a tiny
name alphabet (so that collisions, also with already-suffixed backup names, are frequent),
run on the real modelx and on the Lean model `MxModel.Registry` (theorems in Props/C19.lean);
the registry (key, identity, model's own name – in dict order) is compared after every op.
Oracle (implementation only): the statement itself on mx.get_models(), plus isolation:
edits to one model never change the description or values of another.
"""
import os
import shutil
import tempfile
import types

import pandas as pd

from .. import core, iosession
from ..impl import mx, close_all, quiet, err_kind

NAMES = ["A", "B", "A_BAK1", "A_BAK2", "B_BAK1", "Model1", "Model2", "Model3"]
BAD = ["for", "_x", "1a", "a b".replace(" ", "-")]


# ----------------------------------------------------------------------------- generation

def gen_history(rng, length):
    ops = []
    created = 0
    for _ in range(length):
        r = rng.random()
        if created == 0 or r < 0.30:
            if rng.random() < 0.2:
                nm = "-"
            elif rng.random() < 0.1:
                nm = rng.choice(BAD + ["%empty"])
            else:
                nm = rng.choice(NAMES)
            ops.append(["new", nm])
            created += 1
        elif r < 0.55:
            nm = rng.choice(NAMES) if rng.random() < 0.9 else rng.choice(BAD)
            ops.append(["rename", str(rng.randrange(created)), nm, str(rng.randrange(2))])
        elif r < 0.70:
            nm = rng.choice(NAMES[:5]) if rng.random() < 0.9 else rng.choice(BAD)
            ops.append(["read", nm, "1" if rng.random() < 0.3 else "0"])
            created += 1
        elif r < 0.82:
            ops.append(["close", str(rng.randrange(created))])
        elif r < 0.91:
            ops.append(["edit", str(rng.randrange(created)), str(rng.randrange(6))])
        elif rng.random() < 0.08 and created > 1:
            ops.append(["share", str(rng.randrange(created)), str(rng.randrange(created))])
        else:
            ops.append(["io", str(rng.randrange(created)), str(rng.randrange(N_IO))])
    return ops


# `share I J`: model J binds (as S.io99_shared) the very OBJECT model I keeps in an EXTERNAL file - no spec asked for.
# `get_spec_from_value` of J then finds I's spec in the session-wide group None, and a close of J / a deletion of that
# reference in J deletes it (and the other way round): the cross-model variant of C18-absolute-io-shared.  SHARE_SCENARIOS
# run first on every check; the isolation oracle recognises the failure ONLY in this shape (`shared_external_names`).
SHARE_SCENARIOS = [
    [["new", "A"], ["new", "B"], ["share", "0", "1"], ["close", "1"], ["edit", "0", "0"]],
    [["new", "A"], ["new", "B"], ["share", "0", "1"], ["close", "0"], ["io", "1", "0"]],
    [["new", "A"], ["new", "B"], ["new", "-"], ["share", "1", "2"], ["io", "2", "7"], ["close", "2"], ["close", "0"]],
]


# the `io` op: the model acquires / releases / shares a value with an IOSpec.  File kinds x path kinds:
#   0 csv relative   1 csv ABSOLUTE   2 workbook sheet ABSOLUTE   3 module relative   4 module ABSOLUTE
#   5 Excel range relative   6 Excel range ABSOLUTE   7 delete the newest io reference   8 bind an io value to a
#   second name (model level)   9 workbook sheet relative
# Absolute paths are private to a model (one folder per model index below the session's tmp): files under an
# absolute path that two models SHARE are the recorded design finding C18-absolute-io-shared, not this property.
N_IO = 10


# ----------------------------------------------------------------------------- implementation

class Impl:
    def __init__(self, tmp):
        self.tmp = tmp
        self.models = []      # creation index -> Model interface (or None for a failed read)
        self.saved = {}
        self.template = None
        self.shown = {}       # id(pandas object) -> (the object, its text): contents never change in a session
        self.nio = {}         # creation index -> number of io names handed out
        self.shared_any = False
        self.shadow = iosession.Shadow(tmp)   # the same session as operations of the Lean kernel IOSession

    def saved_path(self, name, broken):
        key = (name, broken)
        if key in self.saved:
            return self.saved[key]
        # the saved model is built and written once per session (the first `read`); the other names are copies
        # of its folder with the name patched
        path = os.path.join(self.tmp, "saved_%s_%d" % (name, broken))
        if self.template is None:
            self.template = self._write_template()
        shutil.copytree(self.template, path)
        init = os.path.join(path, "__init__.py")
        src = open(init).read().replace('_name = "Zsaved"', '_name = "%s"' % name)
        open(init, "w").write(src)
        if broken:
            with open(os.path.join(path, "S", "__init__.py"), "a") as f:
                f.write("\ndef broken(:\n")
        self.saved[key] = path
        return path

    def _write_template(self):
        # build a model on the side, write it, close it, restore the namers: the session under
        # test must not see it
        sysm = mx.core.mxsys
        keep = (dict(sysm._models), sysm.currentmodel,
                sysm._modelnamer._AutoNamer__last_postfix, sysm._backupnamer._AutoNamer__last_postfix)
        sysm._models.clear()
        with quiet():
            m = mx.new_model("Zsaved")
            s = m.new_space("S")
            s.new_cells("f", formula="lambda x: x + 1")
            s.y = 3
            # IOSpecs with relative paths (files inside the saved folder): every model read from it gets its own
            s.new_pandas("df", "data/df.csv", _frame(7), file_type="csv")
            m.new_module("mod", "mod/mod.py", self.module_source())
            path = os.path.join(self.tmp, "saved_template")
            m.write(path)
            m.close()
        sysm._models.clear()
        sysm._models.update(keep[0])
        sysm.currentmodel = keep[1]
        sysm._modelnamer._AutoNamer__last_postfix = keep[2]
        sysm._backupnamer._AutoNamer__last_postfix = keep[3]
        return path

    def index_of(self, model):
        for i, m in enumerate(self.models):
            if m is not None and m._impl is model._impl:
                return i
        return None

    def apply(self, op):
        kind = op[0]
        try:
            with quiet():
                if kind == "new":
                    nm = None if op[1] == "-" else ("" if op[1] == "%empty" else op[1])
                    m = mx.new_model(nm)
                    self.models.append(m)
                    self.shadow.new_model(m)
                    self._populate(m)
                    return "ok %d" % (len(self.models) - 1)
                # stale handles (of closed models) are used for real: what the library does with them is the
                # observation - a harness that answers in the library's place hides exactly the defect repaired
                # by 0035a5d (the operation acted on whatever model bears the name now)
                if kind == "rename":
                    m = self.models[int(op[1])] if int(op[1]) < len(self.models) else None
                    if m is None:
                        return "err noSuchModel"    # an identity that was never handed out (failed read)
                    try:
                        m.rename(op[2], rename_old=(op[3] == "1"))
                    except KeyError:
                        return "err noSuchModel"
                    return "ok"
                if kind == "close":
                    m = self.models[int(op[1])] if int(op[1]) < len(self.models) else None
                    if m is None:
                        self.shadow.close(int(op[1]))
                        return "ok"
                    m.close()
                    self.shadow.close(int(op[1]))
                    return "ok"
                if kind == "read":
                    self.models.append(None)
                    path = self.saved_path(op[1], op[2] == "1")
                    # a save that is broken in S/__init__.py fails at the parse, before any IOSpec is read
                    items = [] if op[2] == "1" else [("S.df", "data/df.csv", False, None, True),
                                                     (".mod", "mod/mod.py", False, None, True)]
                    m = self.shadow.load(items, lambda: mx.read_model(path))
                    self.models[-1] = m
                    return "ok %d" % (len(self.models) - 1)
                if kind == "io":
                    m = self.models[int(op[1])] if int(op[1]) < len(self.models) else None
                    if m is None:
                        return "skip"
                    try:
                        self._io(m, int(op[1]), int(op[2]))
                    except Exception:
                        pass                # refused (e.g. through the handle of a closed model): changes nothing
                    return "skip"
                if kind == "share":
                    a = self.models[int(op[1])] if int(op[1]) < len(self.models) else None
                    b = self.models[int(op[2])] if int(op[2]) < len(self.models) else None
                    if a is None or b is None or a is b:
                        return "skip"
                    try:
                        self._share(a, b, int(op[2]))
                    except Exception:
                        pass
                    return "skip"
                if kind == "edit":
                    m = self.models[int(op[1])] if int(op[1]) < len(self.models) else None
                    if m is None:
                        return "skip"       # an identity that was never handed out (failed read): no handle
                    # also through the handle of a CLOSED model: it is not registered any more, but its objects
                    # keep working; the oracle then looks at the registry and at every open model
                    try:
                        self._edit(m, int(op[2]))
                    except Exception:
                        pass                # an edit that modelx refuses is an edit that changes nothing
                    return "skip"
        except ValueError:
            return "err invalidName"
        except SyntaxError:
            return "err noSuchModel"   # the model's enum for "read failed after the rename"
        except Exception as e:
            return "err " + err_kind(e)
        return "bad-op"

    def _populate(self, m):
        s = m.new_space("S")
        s.new_cells("f", formula="lambda x: x + y")
        s.y = 1
        m.g = 10
        s.f(1)
        # every model holds data in files: one inside the model folder, one EXTERNAL (absolute path)
        i = len(self.models) - 1
        self._io(m, i, 0)
        self._io(m, i, 1)

    # -- IOSpecs
    def module_source(self):
        p = os.path.join(self.tmp, "modsrc.py")
        if not os.path.exists(p):
            with open(p, "w") as f:
                f.write("def twice(x):\n    return 2 * x\n")
        return p

    def workbook(self):
        p = os.path.join(self.tmp, "rangesrc.xlsx")
        if not os.path.exists(p):
            import openpyxl
            wb = openpyxl.Workbook()
            ws = wb.active
            ws.title = "s"
            for r in range(1, 4):
                ws.cell(r, 1, r)
                ws.cell(r, 2, 10 * r)
            wb.save(p)
        return p

    def ext_path(self, i, fname):
        return os.path.join(self.tmp, "ext_m%d" % i, fname)

    def _io(self, m, i, k):
        s = m.S if "S" in m.spaces else m.new_space("S")
        n = self.nio.get(i, 0)
        self.nio[i] = n + 1
        nm = "io%d" % n
        sh = self.shadow
        if k == 0:
            sh.new_spec(i, "S", nm, "data/%s.csv" % nm, False, None,
                        lambda: s.new_pandas(nm, "data/%s.csv" % nm, _frame(n), file_type="csv"))
        elif k == 1:
            sh.new_spec(i, "S", nm, self.ext_path(i, nm + ".csv"), False, None,
                        lambda: s.new_pandas(nm, self.ext_path(i, nm + ".csv"), _frame(n), file_type="csv"))
        elif k == 2:
            sh.new_spec(i, "S", nm, self.ext_path(i, "book.xlsx"), True, nm,
                        lambda: s.new_pandas(nm, self.ext_path(i, "book.xlsx"), _frame(n), file_type="excel",
                                             sheet=nm))
        elif k == 9:
            sh.new_spec(i, "S", nm, "data/book.xlsx", True, nm,
                        lambda: s.new_pandas(nm, "data/book.xlsx", _frame(n), file_type="excel", sheet=nm))
        elif k == 3:
            sh.new_spec(i, "", nm, "mod/%s.py" % nm, False, None,
                        lambda: m.new_module(nm, "mod/%s.py" % nm, self.module_source()))
        elif k == 4:
            sh.new_spec(i, "S", nm, self.ext_path(i, nm + ".py"), False, None,
                        lambda: s.new_module(nm, self.ext_path(i, nm + ".py"), self.module_source()))
        elif k == 5:
            sh.new_spec(i, "S", nm, "data/%s.xlsx" % nm, False, None,
                        lambda: s.new_excel_range(nm, "data/%s.xlsx" % nm, "A1:B3", sheet="s", keyids=["r0"],
                                                  loadpath=self.workbook()))
        elif k == 6:
            sh.new_spec(i, "", nm, self.ext_path(i, nm + ".xlsx"), False, None,
                        lambda: m.new_excel_range(nm, self.ext_path(i, nm + ".xlsx"), "A1:B3", sheet="s",
                                                  keyids=["r0"], loadpath=self.workbook()))
        elif k == 7:
            for par in (s, m):
                names = [x for x in par.refs if x.startswith("io") and (par is m or x in par._impl.own_refs)]
                if names:
                    victim = sorted(names, key=lambda x: int(x[2:].split("_")[0]))[-1]
                    delattr(par, victim)
                    sh.unbind(i, "S" if par is s else "", victim)
                    break
        elif k == 8:
            for x, v in s.refs.items():
                if x.startswith("io") and x in s._impl.own_refs:
                    setattr(m, x + "_alias", v)
                    sh.bind(i, "", x + "_alias", v)
                    break

    def _share(self, a, b, j):
        """b.S.io99_shared = the object of a's first reference that has a spec under an absolute path"""
        for sp in a._impl.refmgr.specs:
            if os.path.isabs(str(sp.path)):
                sb = b.S if "S" in b.spaces else b.new_space("S")
                setattr(sb, "io99_shared", sp.value)
                self.shared_any = True
                self.shadow.bind(j, "S", "io99_shared", sp.value)
                return

    def shared_external_names(self, i, j):
        """names (`space.name`) under which model #i references an object that model #j references too and whose spec
        sits in the session-wide group None - the shape of the cross-model variant of C18-absolute-io-shared"""
        iom = mx.core.mxsys.iomanager
        ext = [sp.value for io in iom.get_ios(None).values() for sp in io.specs.values()]
        def named(m):
            res = [("", k, r.interface) for k, r in m._impl.own_refs.items() if k != "__builtins__"]
            for sn, sp_ in m._impl.spaces.items():
                res.extend((sn, k, r.interface) for k, r in sp_.own_refs.items())
            return res
        mine, other = named(self.models[i]), named(self.models[j])
        return set("%s.%s" % (sn, k) for sn, k, v in mine
                   if any(v is e for e in ext) and any(v is w for _, _, w in other))

    def _edit(self, m, k):
        s = m.S if "S" in m.spaces else m.new_space("S")
        if k == 0:
            s.y = getattr(s, "y", 0) + 1 if "y" in s.refs else 1
        elif k == 1:
            m.g = m.g + 1 if "g" in m.refs else 1
        elif k == 2:
            if "f" in s.cells:
                s.f[5] = 99
        elif k == 3:
            nm = "h%d" % len(s.cells)
            s.new_cells(nm, formula="lambda: 7")
        elif k == 4:
            if "f" in s.cells:
                s.f(2)
        elif k == 5:
            if len(s.cells) > 1:
                del s.cells[list(s.cells)[-1]]

    def observe(self):
        parts = []
        for key, impl in mx.core.mxsys.models.items():
            idx = self.index_of(impl.interface)
            parts.append("%s:%s:%s" % (key, idx, impl.name))
        return "reg " + " ".join(parts)

    def describe(self, m):
        """public description of one model (for the isolation oracle): definitions, values, and what the model
        keeps in files - `iospecs` (kind, file, file type, sheet / range, the names bound to the value) and
        `get_spec` of every file-backed value under every name"""
        _show = self.show
        d = {"name": None, "refs": {k: _show(v) for k, v in m.refs.items() if k != "__builtins__"}, "spaces": {}}
        for sn, s in m.spaces.items():
            d["spaces"][sn] = {
                "cells": {cn: (c.formula.source if c.formula else None, sorted(
                    (repr(k), repr(v)) for k, v in dict(c).items())) for cn, c in s.cells.items()},
                "refs": {k: _show(v) for k, v in s.refs.items() if not k.startswith("_")},
            }
        named = [("", k, v) for k, v in m.refs.items() if k != "__builtins__"]
        for sn, s in m.spaces.items():
            named.extend((sn, k, v) for k, v in s.refs.items() if not k.startswith("_"))
        try:
            specs = list(m.iospecs)
        except Exception as e:
            specs = []
            d["iospecs_error"] = type(e).__name__
        d["iospecs"] = sorted(
            (type(sp).__name__, self.show_path(sp.path), str(getattr(sp.io, "file_type", "-")),
             str(getattr(sp, "sheet", None)), str(getattr(sp, "range", None)),
             ",".join(sorted("%s.%s" % (sn, k) for sn, k, v in named if v is sp.value)))
            for sp in specs)
        d["spec_of"] = {}
        for sn, k, v in named:
            if _file_backed_kind(v):
                try:
                    sp = m.get_spec(v)
                    d["spec_of"]["%s.%s" % (sn, k)] = "%s:%s" % (type(sp).__name__, self.show_path(sp.path))
                except Exception as e:
                    d["spec_of"]["%s.%s" % (sn, k)] = "ERROR: %s" % e
        return d

    def show(self, v):
        if isinstance(v, (pd.DataFrame, pd.Series)):
            hit = self.shown.get(id(v))
            if hit is None or hit[0] is not v:
                hit = self.shown[id(v)] = (v, _show(v))
            return hit[1]
        return _show(v)

    def show_path(self, p):
        p = str(p)
        if os.path.isabs(p):
            return "<abs>/" + os.path.relpath(p, self.tmp).replace(os.sep, "/")
        return p.replace(os.sep, "/")

    def files_written(self, m, k):
        """write the model: every file its IOSpecs name must be (re)written - relative ones below the target,
        external ones at their absolute path; returns the list of missing files"""
        target = os.path.join(self.tmp, "final_%d" % k)
        want = []
        for sp in m.iospecs:
            p = str(sp.path)
            want.append(p if os.path.isabs(p) else os.path.join(target, p))
        for p in want:
            if os.path.isabs(p) and os.path.exists(p) and not p.startswith(target):
                os.unlink(p)
        with quiet():
            m.write(target)
        missing = sorted(self.show_path(p) for p in want if not os.path.exists(p))
        shutil.rmtree(target, ignore_errors=True)
        return missing


def _only_specs_of(before, after, names):
    """the two descriptions differ ONLY in the IOSpec of the values bound to `names` (non-empty): iospecs entries of
    exactly those values are gone, `get_spec` of exactly those names changed; everything else is equal"""
    if not names:
        return False
    for k in set(before) | set(after):
        if k not in ("iospecs", "spec_of") and before.get(k) != after.get(k):
            return False
    gone = [x for x in before["iospecs"] if x not in after["iospecs"]]
    new = [x for x in after["iospecs"] if x not in before["iospecs"]]
    if new or any(not (set(x[-1].split(",")) & names) for x in gone):
        return False
    # the entry of a spec lists EVERY name of the model bound to its value: all of them lose the spec with it
    names = set(names) | set(n for x in gone for n in x[-1].split(","))
    changed = [n for n in set(before["spec_of"]) | set(after["spec_of"])
               if before["spec_of"].get(n) != after["spec_of"].get(n)]
    return all(n in names for n in changed)


def _frame(i):
    df = pd.DataFrame({"a": [i, i + 1, i + 2], "b": [10 * i, 5, 7]})
    df.index.name = "k"
    return df


def _file_backed_kind(v):
    if isinstance(v, (pd.DataFrame, pd.Series, types.ModuleType)):
        return True
    return type(v).__name__ == "ExcelRange"


def _show(v):
    """a value of a reference without addresses"""
    if isinstance(v, (pd.DataFrame, pd.Series)):
        return "pandas:" + repr(v.to_dict())
    if isinstance(v, types.ModuleType):
        return "module:" + ",".join(sorted(x for x in vars(v) if not x.startswith("_")))
    if type(v).__name__ == "ExcelRange":
        return "range:" + repr(sorted((repr(a), repr(b)) for a, b in dict(v).items()))
    return repr(v)


# ----------------------------------------------------------------------------- one history

def run_history(ops, out, hist_id, stats, final_write=True):
    close_all()
    iom = mx.core.mxsys.iomanager
    iom.ios.clear()
    iom.ios.inverse.clear()
    tmp = os.path.realpath(tempfile.mkdtemp(prefix="mxh_c19_"))
    try:
        impl = Impl(tmp)
        impl_lines, model_ops = [], ["reset"]
        index_map = []
        cache = {}          # descriptions taken after the previous op (nothing happens between two ops)
        for k, op in enumerate(ops):
            before = {i: m for i, m in enumerate(impl.models)
                      if m is not None and m._impl in mx.core.mxsys.models.values()}
            desc_before = {i: cache[i] if i in cache else impl.describe(m) for i, m in before.items()}
            cache = {}
            reg_before = [(key, id(im)) for key, im in mx.core.mxsys.models.items()]
            shared_before = {}
            if impl.shared_any and op[0] in ("close", "io", "share") and op[1].isdigit() \
                    and int(op[1]) < len(impl.models) and impl.models[int(op[1])] is not None:
                jj = int(op[2]) if op[0] == "share" else int(op[1])
                if jj < len(impl.models) and impl.models[jj] is not None:
                    shared_before = {i: impl.shared_external_names(i, jj) for i in before if i != jj}
            impl.shadow.k = k
            res = impl.apply(op)
            impl.shadow.observe()
            if op[0] in ("edit", "io", "share"):
                if reg_before != [(key, id(im)) for key, im in mx.core.mxsys.models.items()]:
                    out.fail("an edit of a model changed the registry", ops[:k + 1])
                if int(op[1]) < len(impl.models) and impl.models[int(op[1])] is not None \
                        and int(op[1]) not in before:
                    stats["edits_through_closed_model"] = stats.get("edits_through_closed_model", 0) + 1
            stats[op[0]] = stats.get(op[0], 0) + 1
            if res.startswith("err"):
                stats["rejected:" + res[4:]] = stats.get("rejected:" + res[4:], 0) + 1
            obs = impl.observe()
            if "_BAK" in obs:
                stats["hist_with_backup_name"].add(hist_id)
            if op[0] not in ("edit", "io", "share"):
                model_ops.append(" ".join(op))
                impl_lines.append(res)
                index_map.append(k)
                model_ops.append("obs")
                impl_lines.append(obs)
                index_map.append(k)
            # ---- oracle: the statement on the implementation alone
            reg = mx.core.mxsys.models
            for key, im in reg.items():
                if im.name != key:
                    out.fail("registry key %r maps to a model named %r" % (key, im.name), ops[:k + 1])
            if len(set(id(v) for v in reg.values())) != len(reg):
                out.fail("one model registered under two names", ops[:k + 1])
            for i, m in before.items():
                closing_it = (op[0] == "close" and int(op[1]) == i)
                present = m._impl in reg.values()
                if closing_it and present:
                    out.fail("close did not remove the model", ops[:k + 1])
                if not closing_it and not present:
                    out.fail("model #%d dropped from the registry by %s" % (i, op[0]), ops[:k + 1])
                if present and not closing_it:
                    touched = (op[0] in ("edit", "io", "rename") and int(op[1]) == i) or \
                              (op[0] == "share" and int(op[2]) == i)
                    d = cache[i] = impl.describe(m)
                    if not touched and d != desc_before[i]:
                        key = None
                        if _only_specs_of(desc_before[i], d, shared_before.get(i, set())):
                            key = "C18-absolute-io-shared"
                            stats["known_shared_external_value"] = stats.get("known_shared_external_value", 0) + 1
                        out.fail("model #%d changed by an operation on another model (%s)" % (i, op[0]),
                                 ops[:k + 1], detail={"before": desc_before[i], "after": d}, key=key)
                    if op[0] == "rename" and touched and d != desc_before[i]:
                        out.fail("rename changed definitions or values of the model", ops[:k + 1])
                    if d["iospecs"]:
                        stats["obs_of_models_with_iospecs"] = stats.get("obs_of_models_with_iospecs", 0) + 1
                        if op[0] == "close" and any(x[1].startswith("<abs>") for x in d["iospecs"]):
                            stats["close_next_to_external_iospec"] = stats.get("close_next_to_external_iospec", 0) + 1
        # ---- at the end: every model that is still open writes every file its IOSpecs name (the other
        # models' operations - closes above all - must not have cut a model off from its files)
        if final_write:
            still = [i for i, m in enumerate(impl.models)
                     if m is not None and m._impl in mx.core.mxsys.models.values()]
            # (a write also rewrites every external file of the session, so the cost grows with the square of the
            # number of open models: the oldest, the newest and one in between are written)
            for i in sorted(set(still[:1] + still[-1:] + still[len(still) // 2:len(still) // 2 + 1])):
                m = impl.models[i]
                if True:
                    try:
                        missing = impl.files_written(m, i)
                    except Exception as e:
                        out.fail("model #%d cannot be written at the end of the session: %s" % (i, err_kind(e)), ops)
                        continue
                    stats["final_writes"] = stats.get("final_writes", 0) + 1
                    if missing:
                        out.fail("writing model #%d did not write the files of its IOSpecs: %s" % (i, missing), ops)
        # ---- the session-wide IOManager next to the Lean kernel IOSession: per-model iospecs and the keys of
        # IOManager.ios after every operation
        impl.shadow.compare(out, ops, stats)
        model_lines = core.run_driver("registry", model_ops)[1:]
        for j, (a, b) in enumerate(zip(impl_lines, model_lines)):
            b = b.split(" | ")[0].rstrip()
            if a.rstrip() != b:
                out.disagree(ops, index_map[j], a, b, layer="registry")
                break
    finally:
        close_all()
        iom.ios.clear()
        iom.ios.inverse.clear()
        shutil.rmtree(tmp, ignore_errors=True)


def run(ctx, out):
    n_hist = ctx.n(150, 3000)
    length = ctx.n(25, 40)
    stats = {"hist_with_backup_name": set()}
    seen = set()
    samples = []
    corpus = [
        [["new", "A"], ["new", "A_BAK1"], ["new", "A"], ["rename", "1", "A", "1"], ["read", "A", "1"],
         ["close", "0"], ["new", "-"]],
        [["new", "A"], ["read", "A", "0"], ["read", "A", "1"], ["rename", "0", "B", "0"], ["rename", "1", "B", "0"]],
    ]
    corpus = corpus + iosession.corpus_histories("C19") + SHARE_SCENARIOS
    hists = list(corpus)
    for i in range(n_hist):
        hists.append(gen_history(ctx.rng("hist", i), length))
    for i, h in enumerate(hists):
        run_history(h, out, i, stats)
        seen.add(repr(h))
        if i < 2 or (i == len(corpus)):
            samples.append([" ".join(o) for o in h])
    nontrivial = len(stats.pop("hist_with_backup_name"))
    out.coverage.update({
        "evaluations": len(hists),
        "distinct_nontrivial": nontrivial,
        "rule": "sessions of %d ops over names %s (+ invalid %s); distinct by op text; non-trivial = at least "
                "one name collision occurred (a backup name appeared in the registry)" % (length, NAMES, BAD),
        "samples": samples,
        "programs": len(seen),
        "op_histogram": stats,
        "traces_validated_against_impl": len(hists),
    })
    out.assumptions.append("models_isolated is checked by the implementation-only oracle (descriptions of the "
                           "other models before/after every op); the Lean model keeps per-model state separate by construction")


def replay(ctx, payload, out):
    stats = {"hist_with_backup_name": set()}
    h = payload.get("history") or (payload.get("unexplained") or [{}])[-1].get("detail", {}).get("history")
    if h:
        run_history(h, out, 0, stats)
