"""C15 - an exported package computes the same values as the model.

Level claimed: TRANSLATION VALIDATION.  For every generated model (exportgen.py: static and
nested spaces, inheritance with overrides, cached/uncached cells, def/lambda formulas,
comprehensions, nested functions, names shadowing built-ins as references and as cells,
literal/pickled/module/object-valued references, parametrised spaces with defaults, nested
parametrised spaces reusing parameter names, static children of parametrised spaces) the
check
  1. builds it on the real modelx (public API, formulas as source strings) and evaluates the
     queries (cells x argument tuples in static spaces, derived spaces, instances incl. nested),
  2. exports it with `Model.export`,
  3. imports the package in a SUBPROCESS in which `import modelx` raises
     (export_runner.py: `sys.modules['modelx'] = None`) and runs the same queries,
  4. compares canonical values (export_runner.canon: plain ints, bools, None, strings, floats,
     containers of those; OBJECTS by exact type name plus value, so that a plain 0.05 returned in
     place of a `Percent(0.05)` is a difference).
Enumerated first on every run (exportvals.motif_family): one model per reference VALUE KIND - the
literal types at their boundary values, instances of strict subclasses of them (user classes, enum
members, numpy scalars), look-alikes, containers, arrays, importable things - held at model level,
space level, in a derived space, in ItemSpaces and below one, read by every pattern that exposes the
exact type; then pairs of kinds across the literal / non-literal boundary.  Then the SCOPING family
(exportscope.family): templates x contexts x name kinds for names bound by a comprehension / lambda / nested def /
generator expression / walrus in one place of a formula and global (reference, cells, child space, ItemSpace
parameter, built-in) in another - Python's own scoping is the oracle.
Then the FAILURE family (exportfail.family): one model per way a formula can raise (eight kinds), with elements of
0 / 1 / 2 parameters, cached and uncached, that fail for some arguments, callers that handle the failure with
try/except, and every element read again after it failed - inside one query and across queries, in static, derived
and parametrised spaces.
Oracle (implementation only): wherever the model yields a value the package must yield the
same value; the package must import; it must not load modelx; `export` must not raise.
Queries on which the model itself raises are not compared - except in models that ask for it (`"compare_errors"`
in the description: the failure family and its corpus witness), where the package must raise the same exception
class that modelx reports inside its FormulaError: per query, the same value or the same exception class.

Supplement (Lean, Props/C15.lean): the two decision procedures of the exporter that do not
depend on formula text.  Correspondence for them:
  * `rw`: for every exported method, every name that is global in the formula must have been
    rewritten to `self.<name>` iff `MxModel.Export.shouldReplace` says so (read off the
    generated `_mx_classes.py` with `ast`);
  * `rwo`: for every OCCURRENCE of a name that sits directly in an inlined comprehension (Python >= 3.12) the
    scopes around it up to the first one with a symbol table (own `ast` analysis) and whether the exporter rewrote
    that occurrence must agree with `MxModel.Export.shouldReplaceAt` (the climb `classify`);
  * `rcp`: for every reference to a cells / space of every space, the form of its statement in the generated
    `_mx_copy_refs` (plain copy of the base's object / the item's counterpart if inside the base root) must be what
    `MxModel.Export.refCopyAction` selects for the reference's mode over the chain extracted from `ref_copies`;
  * `cm`: every cache method of every generated class (a method `x` next to `_f_x`), read back with
    tables.cache_method_tokens, must be the program extracted from the template in exporter.py - the program
    `failed_evaluation_stores_nothing` / `stored_value_returned_thereafter` / `exported_cache_reads_eq_spec` are about;
  * `rsv`: for probe cells `lambda: <name>` whose name is an ItemSpace parameter named like a built-in, reached with
    some / all / none of the parametrised levels called: member, built-in or nothing on both sides as
    `MxModel.Export.exportedResolveAt` / `mxResolveAt` say (static access: the class-level `k = k` lines);
  * `look`: for probe cells `lambda: <name>` in (nested) parametrised spaces, the value found
    by the exported instance and by modelx must be the entry `exportedLookup` / `mxLookup`
    select;
  * `refval`: for every reference of the model and of every space, the way it was written into
    `_mx_assign_refs` (attribute path / source literal / import_module / IO data / pickled dict,
    read off the generated modules with `ast`) must be the branch `MxModel.Export.refValue` takes
    for the value's exact type and bases (tables extracted from ParentTranslator.ref_value).
"""
import ast
import json
import os
import re
import shutil
import symtable
import tempfile

from .. import core
from .. import exportgen as G
from .. import exportworld as W
from .. import export_runner as R
from .. import exportvals as V
from .. import exportscope as S
from .. import exportrefs as XR
from .. import exportfail as XF
from ..impl import mx, close_all, quiet, err_kind


# ----------------------------------------------------------------------------- queries

def _args_for(rng, sig, first_small=True):
    args, kw = [], {}
    for i, (p, dflt) in enumerate(sig):
        if dflt is not None and rng.random() < 0.4:
            continue
        v = rng.randint(0, 3) if i == 0 else rng.randint(-3, 6)
        if kw or rng.random() < 0.12:
            kw[p] = v
        else:
            args.append(v)
    return args, kw


def space_steps(rng, desc, path, stats):
    """navigation to the space at static `path`, instantiating parametrised levels"""
    by_path = dict(W.iter_spaces(desc))
    steps, used = [], {}
    levels = []
    for k in range(1, len(path) + 1):
        sp = by_path[path[:k]]
        steps.append({"attr": sp["name"]})
        f = sp.get("formula")
        lvl = {"path": path[:k], "args": None}
        if f and not isinstance(f, str):
            if rng.random() < 0.06:
                stats["static_access_to_param_space"] = stats.get("static_access_to_param_space", 0) + 1
            else:
                vals = []
                names = []
                for i, (p, dflt) in enumerate(f):
                    if dflt is not None and i == len(f) - 1 and rng.random() < 0.4:
                        break
                    # an inner argument differs from the enclosing one of the same name (mostly)
                    v = rng.randint(0, 6)
                    if p in used and rng.random() < 0.85:
                        while v == used[p]:
                            v = rng.randint(0, 6)
                    vals.append(v)
                    names.append(p)
                r = rng.random()
                via = "call" if r < 0.45 else ("getitem" if r < 0.85 else "kw")
                if not vals:
                    via = "call"
                st = {"item": vals, "via": via}
                if via == "kw":
                    order = list(range(len(vals)))
                    rng.shuffle(order)
                    st = {"item": [vals[j] for j in order], "via": "kw", "names": [names[j] for j in order]}
                steps.append(st)
                bound = {}
                for i, (p, dflt) in enumerate(f):
                    bound[p] = vals[i] if i < len(vals) else dflt
                for p, v in bound.items():
                    if p in used and used[p] != v:
                        stats["query_inner_arg_differs_from_outer"] = \
                            stats.get("query_inner_arg_differs_from_outer", 0) + 1
                    used[p] = v
                lvl["args"] = [bound[p] for p, _ in f]
        levels.append(lvl)
    return steps, levels


def make_queries(rng, desc, m, stats, per_cells=2):
    qs = []
    sigs = desc.get("sigs", {})
    for path, sp in W.iter_spaces(desc):
        try:
            static = W._get(m, ".".join(path))
            names = list(static.cells.keys())
        except Exception:
            continue
        for cn in names:
            sig = sigs.get(cn)
            if sig is None:
                sig = _sig_from_src(_find_src(desc, path, cn))
            for _ in range(per_cells):
                steps, levels = space_steps(rng, desc, path, stats)
                args, kw = _args_for(rng, sig)
                qs.append({"sp": steps, "cells": cn, "args": args, "kw": kw,
                           "_path": list(path), "_levels": levels})
    # the same query again later: the second evaluation is served from the exported cache
    for q in rng.sample(qs, min(len(qs), max(2, len(qs) // 5))):
        qs.append(dict(q, _repeat=True))
    return qs


def _find_src(desc, path, cn):
    by_path = dict(W.iter_spaces(desc))

    def rec(p, seen):
        sp = by_path.get(tuple(p))
        if sp is None or tuple(p) in seen:
            return None
        seen.add(tuple(p))
        for c in sp.get("cells", []):
            if c["name"] == cn:
                return c["src"]
        for b in sp.get("bases", []):
            r = rec(b.split("."), seen)
            if r:
                return r
        return None
    return rec(path, set())


def _sig_from_src(src):
    if not src:
        return []
    node = G._func_node(src)
    a = node.args
    n = len(a.args)
    dflts = [None] * (n - len(a.defaults)) + [ast.literal_eval(d) if isinstance(d, ast.Constant) else 0
                                             for d in a.defaults]
    return [[arg.arg, dflts[i]] for i, arg in enumerate(a.args)]


def public(q):
    return {k: v for k, v in q.items() if not k.startswith("_")}


# ----------------------------------------------------------------------------- the rewriting correspondence

def global_names(src):
    """names that are global in every scope of the formula in which they occur (symtable) and
    the names that are local/free somewhere"""
    if G.is_lambda(src):
        code = "_f_ = " + src.strip()
    else:
        code = src
    top = symtable.symtable(code, "<formula>", "exec")
    glob, other = set(), set()

    def rec(t, is_top):
        for s in t.get_symbols():
            if is_top:
                continue
            if s.is_global():
                glob.add(s.get_name())
            else:
                other.add(s.get_name())
        for ch in t.get_children():
            rec(ch, False)
    rec(top, True)
    # Python >= 3.12 inlines list/set/dict comprehensions (PEP 709): their variables have no symbol table of
    # their own, but they are local to the comprehension all the same
    for node in ast.walk(ast.parse(code)):
        if isinstance(node, (ast.ListComp, ast.SetComp, ast.DictComp, ast.GeneratorExp)):
            for gen in node.generators:
                other.update(t.id for t in ast.walk(gen.target) if isinstance(t, ast.Name))
    return glob - other, other


def exported_methods(pkg_dir, path):
    """{method name: (names read as self.<n>, bare names loaded)} of class _c_<path[-1]>"""
    d = pkg_dir
    for nm in path[:-1]:
        d = os.path.join(d, "_m_" + nm)
    f = os.path.join(d, "_mx_classes.py")
    tree = ast.parse(open(f).read())
    res = {}
    for node in tree.body:
        if isinstance(node, ast.ClassDef) and node.name == "_c_" + path[-1]:
            for fn in node.body:
                if isinstance(fn, ast.FunctionDef):
                    selfs, bare = set(), set()
                    for n in ast.walk(fn):
                        if isinstance(n, ast.Attribute) and isinstance(n.value, ast.Name) and n.value.id == "self":
                            selfs.add(n.attr)
                        elif isinstance(n, ast.Name) and n.id != "self":
                            bare.add(n.id)
                    res[fn.name] = (selfs, bare)
    return res


def rewrite_lines(desc, m, pkg_dir, skip_spaces=None):
    """-> [(driver line, observed 'self'|'bare'|'both'|'none', where)]"""
    out = []
    for path, sp in W.iter_spaces(desc):
        try:
            static = W._get(m, ".".join(path))
            cells = list(static.cells.keys())
            refs = [k for k in static.refs.keys() if k[0] != "_"]
            spaces = list(static.spaces.keys())
        except Exception:
            continue
        params = []
        by_path = dict(W.iter_spaces(desc))
        for k in range(len(path), 0, -1):
            f = by_path[path[:k]].get("formula")
            if f and not isinstance(f, str):
                params += [p for p, _ in f if p not in params]
        try:
            methods = exported_methods(pkg_dir, path)
        except Exception:
            continue
        if skip_spaces and ".".join(path) in skip_spaces:
            continue
        for cn in cells:
            src = static.cells[cn].formula.source
            try:
                glob, _other = global_names(src)
            except SyntaxError:
                continue
            cached = static.cells[cn].is_cached
            meth = methods.get(("_f_" + cn) if cached else cn)
            if meth is None:
                continue
            selfs, bare = meth
            for n in sorted(glob):
                line = "rw %s cells=%s refs=%s spaces=%s params=%s" % (
                    n, ",".join(cells), ",".join(refs), ",".join(spaces), ",".join(params))
                obs = ("self" if n in selfs else "") + ("bare" if n in bare else "")
                obs = {"selfbare": "both", "": "none"}.get(obs, obs)
                out.append((line, obs, "%s.%s:%s" % (".".join(path), cn, n)))
    return out


# ----------------------------------------------------------------------------- the per-occurrence correspondence

_COMPS = (ast.ListComp, ast.SetComp, ast.DictComp)


class _Mismatch(Exception):
    pass


def _comp_targets(node):
    return sorted(set(t.id for g in node.generators for t in ast.walk(g.target) if isinstance(t, ast.Name)))


def _arg_names(a):
    res = [x.arg for x in list(a.posonlyargs) + list(a.args) + list(a.kwonlyargs)]
    for x in (a.vararg, a.kwarg):
        if x is not None:
            res.append(x.arg)
    return res


def bound_in_function(fn):
    """names Python binds in the scope of a function / lambda: parameters, assigned names, loop variables of `for`
    statements, nested `def`s, imports, and walrus targets (also those inside its comprehensions and generator
    expressions, which bind in the enclosing function).  No `global` / `nonlocal` / class scopes (not generated)."""
    names = set(_arg_names(fn.args))

    def visit(node, in_comp):
        if isinstance(node, (ast.FunctionDef, ast.AsyncFunctionDef, ast.ClassDef)):
            names.add(node.name)
            return
        if isinstance(node, ast.Lambda):
            return
        if isinstance(node, ast.NamedExpr):
            names.add(node.target.id)
            visit(node.value, in_comp)
            return
        if isinstance(node, _COMPS + (ast.GeneratorExp,)):
            for ch in ast.iter_child_nodes(node):
                visit(ch, True)
            return
        if isinstance(node, ast.Name):
            if isinstance(node.ctx, (ast.Store, ast.Del)) and not in_comp:
                names.add(node.id)
            return
        if isinstance(node, (ast.Import, ast.ImportFrom)):
            for al in node.names:
                names.add((al.asname or al.name).split(".")[0])
            return
        if isinstance(node, ast.ExceptHandler) and node.name:
            names.add(node.name)
        for ch in ast.iter_child_nodes(node):
            visit(ch, in_comp)
    for st in (fn.body if isinstance(fn.body, list) else [fn.body]):
        visit(st, False)
    return sorted(names)


def occurrences(fn):
    """-> [(Name node, chain)] for every Name of the formula; chain = [(kind, bound names, node)] innermost first,
    kind 'c' for a list / set / dict comprehension (inlined, no symbol table), 't' for generator expressions,
    lambdas and functions"""
    res = []

    def walk(node, chain):
        if isinstance(node, ast.Name):
            res.append((node, chain))
            return
        if isinstance(node, _COMPS + (ast.GeneratorExp,)):
            kind = "c" if isinstance(node, _COMPS) else "t"
            inner = [(kind, _comp_targets(node), node)] + chain
            gens = node.generators
            walk(gens[0].iter, chain)               # the first iterable belongs to the enclosing scope
            for k, g in enumerate(gens):
                walk(g.target, inner)
                if k:
                    walk(g.iter, inner)
                for c in g.ifs:
                    walk(c, inner)
            if isinstance(node, ast.DictComp):
                walk(node.key, inner)
                walk(node.value, inner)
            else:
                walk(node.elt, inner)
            return
        if isinstance(node, (ast.Lambda, ast.FunctionDef)):
            for d in list(node.args.defaults) + [x for x in node.args.kw_defaults if x is not None]:
                walk(d, chain)
            inner = [("t", bound_in_function(node), node)] + chain
            for st in (node.body if isinstance(node.body, list) else [node.body]):
                walk(st, inner)
            return
        for ch in ast.iter_child_nodes(node):
            walk(ch, chain)
    top = [("t", bound_in_function(fn), fn)]
    for st in (fn.body if isinstance(fn.body, list) else [fn.body]):
        walk(st, top)
    return res


def _merged_names(scope_node):
    """names bound by the inlined comprehensions that sit directly in the scope (not inside a nested lambda /
    function / generator expression): `symtable` may list them as locals of the scope (PEP 709 merges them in)"""
    res = set()

    def visit(node):
        for ch in ast.iter_child_nodes(node):
            if isinstance(ch, (ast.Lambda, ast.FunctionDef, ast.GeneratorExp)):
                continue
            if isinstance(ch, _COMPS):
                res.update(_comp_targets(ch))
            visit(ch)
    visit(scope_node)
    return res


def pair_nodes(a, b, out):
    """walk the formula (a) and the exported method (b) in parallel: -> out[id(Name node of a)] = 'self' | 'bare'"""
    if isinstance(a, ast.Name):
        if isinstance(b, ast.Attribute) and isinstance(b.value, ast.Name) and b.value.id == "self" and b.attr == a.id:
            out[id(a)] = "self"
            return
        if isinstance(b, ast.Name) and b.id == a.id:
            out[id(a)] = "bare"
            return
        raise _Mismatch()
    if isinstance(a, ast.Subscript) and isinstance(b, ast.Call):
        # `cells[x, y]` was turned into `self.cells(x, y)`
        pair_nodes(a.value, b.func, out)
        elts = a.slice.elts if isinstance(a.slice, ast.Tuple) else [a.slice]
        if len(elts) != len(b.args) or b.keywords:
            raise _Mismatch()
        for x, y in zip(elts, b.args):
            pair_nodes(x, y, out)
        return
    if type(a) is not type(b):
        raise _Mismatch()
    for (fa, va), (fb, vb) in zip(ast.iter_fields(a), ast.iter_fields(b)):
        if isinstance(va, list):
            if not isinstance(vb, list) or len(va) != len(vb):
                raise _Mismatch()
            for x, y in zip(va, vb):
                if isinstance(x, ast.AST):
                    pair_nodes(x, y, out)
        elif isinstance(va, ast.AST):
            if not isinstance(vb, ast.AST):
                raise _Mismatch()
            pair_nodes(va, vb, out)


def observed_rewrites(fn, meth):
    """formula node (Lambda | FunctionDef) x exported FunctionDef -> {id(Name node): 'self' | 'bare'}"""
    out = {}
    a_args, b_args = fn.args, meth.args
    if not b_args.args or b_args.args[0].arg != "self":
        raise _Mismatch()
    for x, y in zip(a_args.defaults, b_args.defaults):
        pair_nodes(x, y, out)
    if isinstance(fn, ast.Lambda):
        if len(meth.body) != 1 or not isinstance(meth.body[0], ast.Return):
            raise _Mismatch()
        pair_nodes(fn.body, meth.body[0].value, out)
    else:
        if len(fn.body) != len(meth.body):
            raise _Mismatch()
        for x, y in zip(fn.body, meth.body):
            pair_nodes(x, y, out)
    return out


def exported_method_nodes(pkg_dir, path):
    d = pkg_dir
    for nm in path[:-1]:
        d = os.path.join(d, "_m_" + nm)
    tree = ast.parse(open(os.path.join(d, "_mx_classes.py")).read())
    for node in tree.body:
        if isinstance(node, ast.ClassDef) and node.name == "_c_" + path[-1]:
            return {fn.name: fn for fn in node.body if isinstance(fn, ast.FunctionDef)}
    return {}


def occurrence_lines(desc, m, pkg_dir, stats, skip_spaces=None):
    """-> [(driver line, observed 'self'|'bare', where)] for every occurrence of a name that sits directly in an
    inlined comprehension: the scopes around it up to the first one with a symbol table (own analysis of the
    formula with `ast`, independent of libcst / symtable), and what the exporter did with THAT occurrence"""
    out = []
    by_path = dict(W.iter_spaces(desc))
    for path, sp in W.iter_spaces(desc):
        if skip_spaces and ".".join(path) in skip_spaces:
            continue
        try:
            static = W._get(m, ".".join(path))
            cells = list(static.cells.keys())
            refs = [k for k in static.refs.keys() if k[0] != "_"]
            spaces = list(static.spaces.keys())
            methods = exported_method_nodes(pkg_dir, path)
        except Exception:       # noqa: BLE001
            continue
        params = []
        for k in range(len(path), 0, -1):
            f = by_path[path[:k]].get("formula")
            if f and not isinstance(f, str):
                params += [p for p, _ in f if p not in params]
        tail = "cells=%s refs=%s spaces=%s params=%s" % (",".join(cells), ",".join(refs), ",".join(spaces),
                                                         ",".join(params))
        for cn in cells:
            c = static.cells[cn]
            meth = methods.get(("_f_" + cn) if c.is_cached else cn)
            if meth is None:
                continue
            try:
                fn = G._func_node(c.formula.source)
                occ = occurrences(fn)
                if not any(ch[0][0] == "c" for _n, ch in occ):
                    continue
                seen = observed_rewrites(fn, meth)
            except (_Mismatch, SyntaxError, AttributeError):
                stats["rwo_unpaired_formulas"] = stats.get("rwo_unpaired_formulas", 0) + 1
                continue
            merged = {}
            for node, chain in occ:
                if chain[0][0] != "c" or id(node) not in seen:
                    continue
                k = next(i for i, fr in enumerate(chain) if fr[0] == "t")
                n = node.id
                bound_on_path = any(n in fr[1] for fr in chain)
                tnode = chain[k][2]
                if not bound_on_path:
                    if id(tnode) not in merged:
                        merged[id(tnode)] = _merged_names(tnode)
                    if n in merged[id(tnode)]:
                        # a comprehension beside the path binds the name: what the table of the scope says about it
                        # is an artefact of PEP 709's merging (and the model raises UnboundLocalError on 3.12.1)
                        stats["rwo_skipped_merged_name"] = stats.get("rwo_skipped_merged_name", 0) + 1
                        continue
                non_global = sorted(set(x for fr in chain[k:] for x in fr[1]))
                frames = ["c:" + ",".join(fr[1]) for fr in chain[:k]] + ["t:" + ",".join(non_global)]
                line = "rwo %s f=%s %s" % (n, ";".join(frames), tail)
                out.append((line, seen[id(node)], "%s.%s:%s@%d:%d" % (".".join(path), cn, n, node.lineno,
                                                                       node.col_offset)))
    return out


# ----------------------------------------------------------------------------- the cache-method correspondence

_TEMPLATE_CACHE = {}


def template_cache_programs():
    """the templates of exporter.py as programs (tables.cache_method_tokens), read once per process"""
    if not _TEMPLATE_CACHE:
        from .. import tables
        try:
            _TEMPLATE_CACHE.update(tables._export_cache_methods())
        except Exception as e:      # noqa: BLE001 - reported by the table extraction itself
            _TEMPLATE_CACHE.update({"exportCacheNoParam": None, "exportCacheParam": None, "error": repr(e)})
    return _TEMPLATE_CACHE


def cache_method_lines(desc, pkg_dir):
    """-> [(which template, tokens read off the generated method | 'unreadable: ..', where)] for every cache method
    (a method `x` next to a method `_f_x`) of every generated space class"""
    from .. import tables
    out = []
    for path, _sp in W.iter_spaces(desc):
        try:
            methods = exported_method_nodes(pkg_dir, path)
        except Exception:       # noqa: BLE001
            continue
        for name, fn in methods.items():
            if name.startswith("_f_") or ("_f_" + name) not in methods:
                continue
            has_params = len(fn.args.args) + len(fn.args.kwonlyargs) > 1 or fn.args.vararg or fn.args.kwarg
            which = "exportCacheParam" if has_params else "exportCacheNoParam"
            key = None
            try:
                if has_params:
                    test = fn.body[0].test
                    if isinstance(test, ast.UnaryOp):
                        test = test.operand
                    key = ast.unparse(test.left)
                toks = tables.cache_method_tokens(fn, name, key)
            except Exception as e:      # noqa: BLE001
                toks = "unreadable: %s" % (e,)
            out.append((which, toks, "%s.%s" % (".".join(path), name)))
    return out


# ----------------------------------------------------------------------------- the reference-value correspondence

def _emit_class(node):
    """which branch of ParentTranslator.ref_value wrote this right-hand side"""
    if isinstance(node, ast.Subscript) and isinstance(node.value, ast.Name) and node.value.id in ("pickle_data", "io_data"):
        return "pickle" if node.value.id == "pickle_data" else "io"
    if isinstance(node, ast.Call) and ast.unparse(node.func) == "_mx_sys.import_module":
        return "module"
    n = node
    while isinstance(n, ast.Attribute):
        n = n.value
    if isinstance(n, ast.Name) and n.id == "self":
        return "path"
    return "literal"        # whatever pprint.pformat wrote (a constant - or text that is not one)


_ASSIGN = re.compile(r"^\s+self\.([A-Za-z_]\w*) = (.*)$")


def emitted_refs(pkg_dir, path, model_name):
    """{reference name: 'path'|'literal'|'module'|'io'|'pickle'} read off `_mx_assign_refs` of the class
    generated for the space at `path` (`()`: the model).  Falls back to the text of the lines when the
    generated module is not valid Python."""
    d = pkg_dir
    for nm in path[:-1]:
        d = os.path.join(d, "_m_" + nm)
    fname = os.path.join(d, "_mx_classes.py" if path else "_mx_model.py")
    cname = "_c_" + (path[-1] if path else model_name)
    text = open(fname).read()
    res = {}
    try:
        tree = ast.parse(text)
    except SyntaxError:
        tree = None
    if tree is not None:
        for node in tree.body:
            if isinstance(node, ast.ClassDef) and node.name == cname:
                for fn in node.body:
                    if isinstance(fn, ast.FunctionDef) and fn.name == "_mx_assign_refs":
                        for st in fn.body:
                            if isinstance(st, ast.Assign) and len(st.targets) == 1 and \
                                    isinstance(st.targets[0], ast.Attribute) and \
                                    isinstance(st.targets[0].value, ast.Name) and st.targets[0].value.id == "self":
                                res[st.targets[0].attr] = _emit_class(st.value)
        return res
    inside_cls = inside_fn = False
    for line in text.split("\n"):
        if line.startswith("class "):
            inside_cls = line.startswith("class %s(" % cname)
            inside_fn = False
        elif inside_cls and line.lstrip().startswith("def "):
            inside_fn = line.lstrip().startswith("def _mx_assign_refs(")
        elif inside_cls and inside_fn:
            mm = _ASSIGN.match(line)
            if mm:
                rhs = mm.group(2)
                res[mm.group(1)] = ("pickle" if rhs.startswith("pickle_data[") else
                                    "io" if rhs.startswith("io_data[") else
                                    "module" if rhs.startswith("_mx_sys.import_module(") else
                                    "path" if re.match(r"self(\.|$)", rhs) else "literal")
    return res


def copied_refs(pkg_dir, path):
    """{reference name: 'base' | 'inside'} read off `_mx_copy_refs` of the class generated for the space at `path`"""
    d = pkg_dir
    for nm in path[:-1]:
        d = os.path.join(d, "_m_" + nm)
    tree = ast.parse(open(os.path.join(d, "_mx_classes.py")).read())
    res = {}
    for node in tree.body:
        if isinstance(node, ast.ClassDef) and node.name == "_c_" + path[-1]:
            for fn in node.body:
                if isinstance(fn, ast.FunctionDef) and fn.name == "_mx_copy_refs":
                    for st in fn.body:
                        if isinstance(st, ast.Assign) and len(st.targets) == 1 and \
                                isinstance(st.targets[0], ast.Attribute) and \
                                isinstance(st.targets[0].value, ast.Name) and st.targets[0].value.id == "self":
                            k = st.targets[0].attr
                            if isinstance(st.value, ast.IfExp) and "_mx_is_in(base_root)" in ast.unparse(st.value.test):
                                res[k] = "inside"
                            elif ast.unparse(st.value) == "base." + k:
                                res[k] = "base"
                            else:
                                res[k] = "other"
    return res


def refcopy_lines(desc, m, pkg_dir):
    """-> [(driver line, observed form, where)] for every reference to a cells / space of every static space: its
    mode (model-level references have none) and the form of its statement in the generated `_mx_copy_refs`"""
    from modelx.core.cells import Cells
    from modelx.core.space import BaseSpace
    out = []
    for path, _sp in W.iter_spaces(desc):
        try:
            static = W._get(m, ".".join(path))
            copied = copied_refs(pkg_dir, path)
        except Exception:       # noqa: BLE001
            continue
        for k, v in static.refs.items():
            if k[0] == "_" or k not in copied or not isinstance(v, (Cells, BaseSpace)):
                continue
            try:
                mode = static._get_object(k, as_proxy=True).refmode
            except Exception:       # noqa: BLE001
                continue
            out.append(("rcp %s" % ("none" if mode is None else mode), copied[k], "%s:%s" % (".".join(path), k)))
    return out


def refval_lines(desc, m, pkg_dir):
    """-> [(driver line, observed emission, where, type name)] for every reference of the model and of
    every static space"""
    out = []
    holders = [((), m)]
    for path, _sp in W.iter_spaces(desc):
        try:
            holders.append((path, W._get(m, ".".join(path))))
        except Exception:       # noqa: BLE001
            continue
    for path, obj in holders:
        try:
            emitted = emitted_refs(pkg_dir, path, desc["name"])
        except Exception:       # noqa: BLE001
            continue
        for k, v in obj.refs.items():
            if k[0] == "_" or k not in emitted:
                continue
            t = V.traits_of(v, m)
            line = "refval ty=%s bases=%s iface=%d valid=%d mod=%d io=%d fin=%d" % (
                t["ty"], ",".join(t["bases"]), t["iface"], t["valid"], t["mod"], t["io"], t["fin"])
            if " " in t["ty"] or any(" " in b or "," in b for b in t["bases"]):
                continue
            out.append((line, emitted[k], "%s:%s" % (".".join(path) or "<model>", k), t["ty"]))
    return out


# ----------------------------------------------------------------------------- the lookup correspondence

def probe_name(src):
    """`lambda: name` -> name"""
    try:
        node = G._func_node(src)
    except SyntaxError:
        return None
    if isinstance(node, ast.Lambda) and not node.args.args and isinstance(node.body, ast.Name):
        return node.body.id
    return None


def _int_env(pairs):
    return ",".join("%s:%d" % (k, v) for k, v in pairs if type(v) is int)


def look_line(desc, m, q, name):
    """driver line for the probe query q (levels innermost first), or None if out of the model's domain"""
    by_path = dict(W.iter_spaces(desc))
    g = [(k, v) for k, v in m.refs.items() if k[0] != "_"]
    if any(type(v) is not int for k, v in g if k == name):
        return None
    parts = []
    for lvl in reversed(q["_levels"]):
        path = tuple(lvl["path"])
        sp = by_path[path]
        static = W._get(m, ".".join(path))
        f = sp.get("formula") or []
        own = []
        for k, v in static.refs.items():
            if k[0] == "_":
                continue
            if k in m.refs and m.refs[k] is v and not _declares(desc, path, k):
                continue            # a model-level reference seen through the chain
            if type(v) is not int:
                if k == name:
                    return None
                continue
            own.append((k, v))
        args = "-" if lvl["args"] is None else ",".join(str(a) for a in lvl["args"])
        if lvl["args"] is not None and any(type(a) is not int for a in lvl["args"]):
            return None
        parts.append("p=%s;a=%s;r=%s;c=%s" % (",".join(p for p, _ in f) if lvl["args"] is not None or f else "",
                                              args, _int_env(own), ",".join(static.cells.keys())))
    return "look %s g=%s | %s" % (name, _int_env(g), " | ".join(parts))


def derive_levels(desc, q):
    """`_path` / `_levels` of a query that was written by hand (corpus, families): from its steps"""
    by_path = dict(W.iter_spaces(desc))
    path, levels = (), []
    for st in q["sp"]:
        if "attr" in st:
            path = path + (st["attr"],)
            if path not in by_path:
                return None
            levels.append({"path": path, "args": None})
        else:
            f = by_path[path].get("formula")
            if not f or isinstance(f, str) or not levels or levels[-1]["args"] is not None:
                return None
            vals = [R.uncanon(a) for a in st["item"]]
            if st.get("via") == "kw":
                given = dict(zip(st["names"], vals))
            else:
                given = dict(zip([p_ for p_, _d in f], vals))
            levels[-1]["args"] = [given.get(p_, d_) for p_, d_ in f]
    return list(path), levels


def rsv_line(desc, m, q, name):
    """driver line for a probe `lambda: <name>` whose name is a PARAMETER named like a built-in (and nothing else in
    the space): which of the visible parameters have a value on this access path, or None"""
    if name not in G.ALL_BUILTINS:
        return None
    by_path = dict(W.iter_spaces(desc))
    levels = q["_levels"]
    static = W._get(m, ".".join(levels[-1]["path"]))
    cells = list(static.cells.keys())
    refs = [k for k in static.refs.keys() if k[0] != "_"]
    spaces = list(static.spaces.keys())
    params, bound = [], []
    for lvl in reversed(levels):
        f = by_path[tuple(lvl["path"])].get("formula")
        if f and not isinstance(f, str):
            for p_, _d in f:
                if p_ not in params:
                    params.append(p_)
                if lvl["args"] is not None and p_ not in bound:
                    bound.append(p_)
    if name not in params or name in cells or name in refs or name in spaces:
        return None
    return "rsv %s bound=%s cells=%s refs=%s spaces=%s params=%s" % (
        name, ",".join(bound), ",".join(cells), ",".join(refs), ",".join(spaces), ",".join(params))


def target_of(r):
    """member / builtin / unbound as far as a probe's result shows it (a parameter's value is an int)"""
    k = res_of(r)
    if k.startswith("val") or k == "cells":
        return "member"
    if k == "unbound":
        return "unbound"
    if k == "other":
        return "builtin"
    return None


def _declares(desc, path, name):
    by_path = dict(W.iter_spaces(desc))

    def rec(p, seen):
        sp = by_path.get(tuple(p))
        if sp is None or tuple(p) in seen:
            return False
        seen.add(tuple(p))
        if any(r["name"] == name for r in sp.get("refs", [])):
            return True
        return any(rec(b.split("."), seen) for b in sp.get("bases", []))
    return rec(path, set())


def model_error_class(exp):
    """`Formula:<class name>` (eval_model) -> the bare class name of what the formula raised; None when the model's
    failure is not a formula's (wrong number of arguments ...) or is modelx's own (`modelx.core.errors.X`)"""
    k = exp.get("err", "")
    if not k.startswith("Formula:"):
        return None
    k = k[len("Formula:"):]
    return k if k.isidentifier() else None


def res_of(r):
    if "ok" in r and type(r["ok"]) is int:
        return "val %d" % r["ok"]
    if "ok" in r and isinstance(r["ok"], dict) and "i" in r["ok"]:
        return "val %d" % int(r["ok"]["i"])       # an int beyond 2**52 (canon writes it as text)
    if "ok" in r and isinstance(r["ok"], dict) and r["ok"].get("other") in ("method", "Cells", "function"):
        return "cells"
    if "err" in r:
        # an unbound name surfaces as NameError inside a FormulaError (modelx) / AttributeError (package)
        return "unbound" if r["err"] in ("Attribute", "Name", "Formula:NameError") else "err"
    return "other"


# ----------------------------------------------------------------------------- one batch of models

class Case:
    def __init__(self, idx, desc, origin):
        self.idx = idx
        self.desc = desc
        self.origin = origin
        self.queries = []
        self.expected = []
        self.pkg = None
        self.problem = None       # (what, detail) for failures before the comparison
        self.triggers = {}
        self.rw = []
        self.rwo = []
        self.look = []
        self.rsv = []
        self.rcp = []
        self.refval = []
        self.cm = []


def prepare(case, rng, tmp, stats, fixed_queries=None):
    """build on modelx, evaluate, export; returns False when the model could not be built"""
    close_all()
    desc = case.desc
    case.triggers = G.desc_triggers(desc)
    try:
        with quiet():
            m = W.build(desc)
    except Exception as e:     # noqa: BLE001 - a model modelx refuses is not a C15 subject
        stats["build_refused:" + err_kind(e)] = stats.get("build_refused:" + err_kind(e), 0) + 1
        close_all()
        return False
    try:
        if fixed_queries is not None:
            case.queries = fixed_queries
        else:
            case.queries = make_queries(rng, desc, m, stats)
        half = len(case.queries) // 2
        pubq = [public(q) for q in case.queries]
        first = W.eval_model(m, pubq[:half])            # some values exist before the export
        case.pkg = desc["name"] + "_nomx"
        try:
            with quiet():
                m.export(os.path.join(tmp, case.pkg))
        except Exception as e:      # noqa: BLE001
            case.problem = ("export raised " + err_kind(e), {"message_kind": type(e).__name__})
            return True
        case.expected = first + W.eval_model(m, pubq[half:])
        # correspondence inputs need the live model
        try:
            case.rw = rewrite_lines(desc, m, os.path.join(tmp, case.pkg),
                                    skip_spaces=set(k for k, v in case.triggers.items() if v))
        except Exception as e:      # noqa: BLE001
            stats["rw_extraction_failed"] = stats.get("rw_extraction_failed", 0) + 1
        try:
            case.rwo = occurrence_lines(desc, m, os.path.join(tmp, case.pkg), stats,
                                        skip_spaces=set(k for k, v in case.triggers.items() if v))
        except Exception as e:      # noqa: BLE001
            stats["rwo_extraction_failed"] = stats.get("rwo_extraction_failed", 0) + 1
        try:
            case.rcp = refcopy_lines(desc, m, os.path.join(tmp, case.pkg))
        except Exception as e:      # noqa: BLE001
            stats["rcp_extraction_failed"] = stats.get("rcp_extraction_failed", 0) + 1
        try:
            case.refval = refval_lines(desc, m, os.path.join(tmp, case.pkg))
        except Exception as e:      # noqa: BLE001
            stats["refval_extraction_failed"] = stats.get("refval_extraction_failed", 0) + 1
        try:
            case.cm = cache_method_lines(desc, os.path.join(tmp, case.pkg))
        except Exception as e:      # noqa: BLE001
            stats["cm_extraction_failed"] = stats.get("cm_extraction_failed", 0) + 1
        for qi, q in enumerate(case.queries):
            if "_levels" not in q and not (q.get("kw") or q.get("args")):
                try:
                    dl = derive_levels(desc, q)
                except Exception:       # noqa: BLE001
                    dl = None
                if dl:
                    q = case.queries[qi] = dict(q, _path=dl[0], _levels=dl[1])
            if "_levels" not in q or q.get("kw") or q.get("args"):
                continue
            src = _find_src(desc, q["_path"], q["cells"])
            nm = probe_name(src) if src else None
            if nm:
                try:
                    line = look_line(desc, m, q, nm)
                except Exception:       # noqa: BLE001
                    line = None
                if line:
                    case.look.append((qi, line))
                try:
                    line = rsv_line(desc, m, q, nm)
                except Exception:       # noqa: BLE001
                    line = None
                if line:
                    case.rsv.append((qi, line))
        return True
    finally:
        close_all()


def trigger_key(case, q):
    if q is None:
        # failure of the whole package (export raised, import failed): the model's only trigger
        keys = set().union(*case.triggers.values()) if case.triggers else set()
        return next(iter(keys)) if len(keys) == 1 else None
    path = q.get("_path")
    if path is None:
        # replayed query without generator metadata: the attribute steps are the static path
        path = [st["attr"] for st in q["sp"] if "attr" in st]
    keys = set(case.triggers.get(".".join(path), set()))
    keys |= G.query_triggers(case.desc, q["sp"], _find_src(case.desc, path, q["cells"]))
    if len(keys) == 1:
        return next(iter(keys))
    return None


def compare(case, rec, out, stats, samples):
    desc = case.desc
    def hist(q, upto=False):
        """the failing query alone - or, where what an element returns depends on the reads before it (the failure
        family: the caches of the package), the shortest sequence of earlier queries followed by it that still
        matters: all reads before it in the same place"""
        if q is None:
            return {"desc": desc, "queries": []}
        if not (upto or desc.get("compare_errors")):
            return {"desc": desc, "queries": [public(q)]}
        k = next(i for i, x in enumerate(case.queries) if x is q)
        return {"desc": desc, "queries": [public(x) for x in case.queries[:k] if x["sp"] == q["sp"]] + [public(q)]}
    if case.problem:
        key = trigger_key(case, None)
        out.fail("C15: " + case.problem[0] + (" [%s]" % key if key else ""), hist(None),
                 detail=case.problem[1], key=key)
        return
    if rec["import"] != "ok":
        key = trigger_key(case, None)
        out.fail("C15: exported package cannot be imported without modelx (%s)%s" % (
            rec["import"], " [%s]" % key if key else ""), hist(None), detail={"error": rec.get("error"), "stderr": rec.get("stderr")}, key=key)
        return
    if rec.get("modelx_loaded"):
        out.fail("C15: the exported package loaded modelx", hist(None))
    for q, exp, got in zip(case.queries, case.expected, rec["results"]):
        stats["queries"] += 1
        if "err" in exp:
            stats["model_raises"] += 1
            stats["model_raises:" + exp["err"]] = stats.get("model_raises:" + exp["err"], 0) + 1
            if not desc.get("compare_errors"):
                continue
            # the failure family: the same exception class on both sides (modelx wraps what the formula raised
            # into a FormulaError whose message names the class)
            cls = model_error_class(exp)
            if cls is None:
                stats["model_error_not_a_formula_failure"] = stats.get("model_error_not_a_formula_failure", 0) + 1
                continue
            stats["compared_errors"] = stats.get("compared_errors", 0) + 1
            if q.get("_repeat"):
                stats["compared_errors_repeat"] = stats.get("compared_errors_repeat", 0) + 1
            if got.get("cls") == cls:
                continue
            key = trigger_key(case, q)
            if "err" in got:
                what = "C15: exported package raises %s where the model's formula raises %s" % (got.get("cls"), cls)
            else:
                what = "C15: exported package returns a value where the model's formula raises %s" % cls
            if key:
                what += " [" + key + "]"
            out.fail(what, hist(q, upto=True), detail={"model": exp, "exported": got, "cells_source": _find_src(
                desc, q.get("_path") or [st["attr"] for st in q["sp"] if "attr" in st], q["cells"])}, key=key)
            continue
        if isinstance(exp["ok"], dict) and "other" in exp["ok"]:
            stats["model_value_not_canonical"] += 1
            continue
        stats["compared"] += 1
        if q.get("_repeat"):
            stats["compared_repeat_cache_hit"] += 1
        if any("item" in st for st in q["sp"]):
            stats["compared_in_instance"] += 1
            if sum(1 for st in q["sp"] if "item" in st) > 1:
                stats["compared_in_nested_instance"] += 1
        if got == exp:
            if len(samples) < 6 and stats["compared"] % 37 == 1:
                samples.append({"model": desc["name"], "query": public(q), "value": exp})
            continue
        key = trigger_key(case, q)
        if "err" in got:
            what = "C15: exported package raises %s where the model returns a value" % got["err"]
        else:
            what = "C15: exported package returns a different value"
        if key:
            what += " [" + key + "]"
        out.fail(what, hist(q), detail={"model": exp, "exported": got, "cells_source": _find_src(
            desc, q.get("_path") or [st["attr"] for st in q["sp"] if "attr" in st], q["cells"])}, key=key)


def run_batch(ctx, cases, out, stats, samples, rngs=None, fixed=None):
    tmp = tempfile.mkdtemp(prefix="mxh_c15_")
    try:
        jobs, live = [], []
        for k, case in enumerate(cases):
            ok = prepare(case, rngs[k] if rngs else None, tmp, stats, fixed_queries=(fixed[k] if fixed else None))
            if not ok:
                continue
            live.append(case)
            if case.problem is None:
                jobs.append({"id": case.idx, "dir": tmp, "pkg": case.pkg,
                             "queries": [public(q) for q in case.queries]})
        recs = W.run_exported(jobs, tmp) if jobs else {}
        driver_lines, driver_meta = [], []
        for case in live:
            rec = recs.get(case.idx, {"import": "ok", "results": []})
            compare(case, rec, out, stats, samples)
            progs = template_cache_programs()
            for which, toks, where in case.cm:
                # the generated method is the template the theorems of Props/C15.lean section 6 speak about
                stats["cm_methods"] = stats.get("cm_methods", 0) + 1
                if progs.get(which) is not None and toks != progs[which]:
                    out.disagree({"desc": case.desc, "line": "cm " + which, "where": where}, 0, toks, progs[which],
                                 layer="export")
            for line, obs, where in case.rw:
                driver_lines.append(line)
                driver_meta.append(("rw", case, obs, where))
            for line, obs, where in case.rwo:
                driver_lines.append(line)
                driver_meta.append(("rwo", case, obs, where))
            for line, obs, where in case.rcp:
                driver_lines.append(line)
                driver_meta.append(("rcp", case, obs, where))
            for line, obs, where, tyname in case.refval:
                driver_lines.append(line)
                driver_meta.append(("refval", case, obs, (where, tyname)))
            if rec.get("import") == "ok" and case.problem is None:
                for qi, line in case.look:
                    if qi < len(rec["results"]):
                        driver_lines.append(line)
                        driver_meta.append(("look", case, (case.expected[qi], rec["results"][qi]), qi))
                for qi, line in case.rsv:
                    if qi < len(rec["results"]):
                        driver_lines.append(line)
                        driver_meta.append(("rsv", case, (case.expected[qi], rec["results"][qi]), qi))
        if driver_lines:
            model_out = core.run_driver("export", driver_lines)
            for line, meta, mo in zip(driver_lines, driver_meta, model_out):
                kind, case, obs, where = meta
                if kind == "rw":
                    stats["rw_decisions"] += 1
                    pred = mo.split(" ")[0]
                    stats["rw_" + pred] = stats.get("rw_" + pred, 0) + 1
                    if obs != pred:
                        out.disagree({"desc": case.desc, "line": line, "where": where}, 0, obs, mo, layer="export")
                elif kind == "rwo":
                    stats["rwo_decisions"] = stats.get("rwo_decisions", 0) + 1
                    stats["rwo_" + mo] = stats.get("rwo_" + mo, 0) + 1
                    if obs != mo:
                        out.disagree({"desc": case.desc, "line": line, "where": where}, 0, obs, mo, layer="export")
                elif kind == "rcp":
                    stats["rcp_decisions"] = stats.get("rcp_decisions", 0) + 1
                    stats["rcp_" + line.split(" ")[1] + "_" + mo] = stats.get("rcp_" + line.split(" ")[1] + "_" + mo, 0) + 1
                    if obs != mo:
                        out.disagree({"desc": case.desc, "line": line, "where": where}, 0, obs, mo, layer="export")
                elif kind == "rsv":
                    exp_m, got_e = obs
                    parts = dict(p.split("=", 1) for p in mo.split(" ") if "=" in p)
                    tm, te = target_of(exp_m), target_of(got_e)
                    if tm is None or te is None:
                        stats["rsv_skipped_error"] = stats.get("rsv_skipped_error", 0) + 1
                        continue
                    stats["rsv_decisions"] = stats.get("rsv_decisions", 0) + 1
                    stats["rsv_" + parts.get("mx", "?")] = stats.get("rsv_" + parts.get("mx", "?"), 0) + 1
                    if te != parts.get("exp"):
                        out.disagree({"desc": case.desc, "line": line, "query": public(case.queries[where])}, 0,
                                     "exported " + te, mo, layer="export")
                    elif tm != parts.get("mx"):
                        out.disagree({"desc": case.desc, "line": line, "query": public(case.queries[where])}, 0,
                                     "modelx " + tm, mo, layer="export")
                elif kind == "refval":
                    stats["refval_decisions"] += 1
                    pred = {"none": "literal"}.get(mo, mo)      # an invalidated modelx object is written as `None`
                    stats["refval_" + pred] = stats.get("refval_" + pred, 0) + 1
                    if obs != pred:
                        out.disagree({"desc": case.desc, "line": line, "where": where[0], "type": where[1]}, 0,
                                     "written as " + obs, mo, layer="export")
                else:
                    exp_m, got_e = obs
                    stats["look_decisions"] += 1
                    parts = dict(p.split("=", 1) for p in mo.replace("exp=", "|exp=").replace(" mx=", "|mx=").split("|") if p)
                    if parts.get("exp") == "unbound" and parts.get("mx") == "unbound" and \
                            line.split(" ")[1] in G.ALL_BUILTINS:
                        # neither chain binds the name and it is a built-in: what happens then is the subject of
                        # the rewriting decision (`rw`), not of the chain order
                        stats["look_skipped_builtin_fallback"] = stats.get("look_skipped_builtin_fallback", 0) + 1
                    elif res_of(exp_m) == "err":
                        # modelx failed for a reason other than an unbound name (e.g. its own ItemSpace
                        # construction raised): nothing to compare the chain model with
                        stats["look_skipped_model_error"] = stats.get("look_skipped_model_error", 0) + 1
                    elif res_of(got_e) != parts.get("exp"):
                        out.disagree({"desc": case.desc, "line": line, "query": public(case.queries[where])}, 0,
                                     "exported " + res_of(got_e), mo, layer="export")
                    elif res_of(exp_m) != parts.get("mx"):
                        out.disagree({"desc": case.desc, "line": line, "query": public(case.queries[where])}, 0,
                                     "modelx " + res_of(exp_m), mo, layer="export")
    finally:
        shutil.rmtree(tmp, ignore_errors=True)


# ----------------------------------------------------------------------------- entry points

def load_corpus():
    cdir = os.path.join(core.CORPUS_DIR, "C15")
    res = []
    if os.path.isdir(cdir):
        for f in sorted(os.listdir(cdir)):
            if f.endswith(".json"):
                res.append((f, json.load(open(os.path.join(cdir, f)))))
    return res


def new_stats():
    return {"queries": 0, "compared": 0, "model_raises": 0, "model_value_not_canonical": 0,
            "compared_repeat_cache_hit": 0, "compared_in_instance": 0, "compared_in_nested_instance": 0,
            "rw_decisions": 0, "look_decisions": 0, "refval_decisions": 0}


def _run_task(task):
    """one batch, executed in a worker process (or inline): -> what `run` merges"""
    ctx, cases, rngs, fixed = task
    out = core.Outcome()
    stats = new_stats()
    samples = []
    run_batch(ctx, cases, out, stats, samples, rngs=rngs, fixed=fixed)
    nontrivial = sum(1 for c in cases if c.expected and any("ok" in e for e in c.expected))
    return out.failures, out.disagreements, stats, samples, nontrivial


def n_jobs():
    try:
        j = int(os.environ.get("VERIF_C15_JOBS") or 0)
    except ValueError:
        j = 0
    if j <= 0:
        j = max(1, min(4, (os.cpu_count() or 2) // 2))
    return j


def run_tasks(tasks):
    """the batches are independent of one another (every batch closes all models first, has its own scratch
    directory, subprocess and driver call), so they run in forked worker processes; the results are merged in
    task order, which makes the outcome independent of the number of workers"""
    jobs = min(n_jobs(), len(tasks))
    if jobs <= 1:
        return [_run_task(t) for t in tasks]
    import multiprocessing
    close_all()
    with multiprocessing.get_context("fork").Pool(jobs) as pool:
        return pool.map(_run_task, tasks, chunksize=1)


# ----------------------------------------------------------------------------- shrinking a failing input

_IDENT = re.compile(r"[A-Za-z_]\w*")


def slice_desc(desc, q):
    """the part of the model the failing query can depend on: the spaces on its path, the cells / references /
    spaces whose names occur (transitively) in the formulas involved, their bases and the targets of their
    object-valued references"""
    by_path = dict(W.iter_spaces(desc))
    path = tuple(st["attr"] for st in q["sp"] if "attr" in st)
    idents = {q["cells"]}
    all_cells = {}
    for pth, sp in by_path.items():
        for c in sp.get("cells", []):
            all_cells.setdefault(c["name"], []).append(c["src"])
    todo = [q["cells"]]
    while todo:
        for src in all_cells.get(todo.pop(), []):
            for n in _IDENT.findall(src):
                if n not in idents:
                    idents.add(n)
                    todo.append(n)
    keep = set()

    def keep_path(pth):
        for k in range(1, len(pth) + 1):
            if pth[:k] not in keep and pth[:k] in by_path:
                keep.add(pth[:k])
                for b in by_path[pth[:k]].get("bases", []):
                    keep_path(tuple(b.split(".")))
    keep_path(path)
    changed = True
    while changed:
        changed = False
        before = len(keep)
        for pth, sp in by_path.items():
            if pth[-1] in idents and pth[:-1] in keep | {()}:
                keep_path(pth)
        refs = list(desc.get("grefs", [])) + [r for pth in keep for r in by_path[pth].get("refs", [])]
        for r in refs:
            if r["name"] in idents and "obj" in r["val"]:
                parts = tuple(r["val"]["obj"].split("."))
                tp = parts if parts in by_path else parts[:-1]
                if tp in by_path:
                    keep_path(tp)
                if parts not in by_path:
                    idents.add(parts[-1])
            if r["name"] in idents and "same_as" in r["val"]:
                idents.add(r["val"]["same_as"])
        changed = len(keep) != before

    def sp_out(pth, sp):
        return {"name": sp["name"], "bases": sp.get("bases", []), "formula": sp.get("formula"),
                "refs": [r for r in sp.get("refs", []) if r["name"] in idents],
                "cells": [c for c in sp.get("cells", []) if c["name"] in idents],
                "spaces": [sp_out(pth + (c["name"],), c) for c in sp.get("spaces", []) if pth + (c["name"],) in keep]}
    return {"name": desc["name"], "profile": desc.get("profile"),
            **({"compare_errors": True} if desc.get("compare_errors") else {}),
            "grefs": [r for r in desc.get("grefs", []) if r["name"] in idents],
            "spaces": [sp_out((sp["name"],), sp) for sp in desc["spaces"] if (sp["name"],) in keep],
            "sigs": {k: v for k, v in desc.get("sigs", {}).items() if k in idents}}


def shrink_failures(ctx, out, limit=5):
    """replace the model of the first unexplained failures (one per distinct message) by its slice when the
    slice still fails in the same way"""
    seen = set()
    for f in out.failures:
        if f.get("key") or f["what"] in seen or len(seen) >= limit:
            continue
        seen.add(f["what"])
        h = f["history"]
        if not h.get("queries"):
            continue
        try:
            # the failing query is the last one (the earlier ones are the reads before it, where they matter)
            small = slice_desc(h["desc"], h["queries"][-1])
            if len(json.dumps(small)) >= len(json.dumps(h["desc"])):
                continue
            kept = set(c["name"] for _p, sp in W.iter_spaces(small) for c in sp.get("cells", []))
            qsets = [h["queries"][-1:], [x for x in h["queries"] if x["cells"] in kept], h["queries"]]
            for qs in qsets:
                if len(qs) > len(h["queries"]):
                    continue
                probe = core.Outcome()
                run_batch(ctx, [Case(0, dict(small, name="R0"), "shrink")], probe, new_stats(), [], fixed=[qs])
                if any(g["what"] == f["what"] for g in probe.failures):
                    f["history"] = {"desc": dict(small, name=h["desc"]["name"]), "queries": qs}
                    f["detail"] = dict(f["detail"] or {}, shrunk_from_bytes=len(json.dumps(h["desc"])))
                    break
        except Exception:       # noqa: BLE001 - the unshrunk input is reported
            continue


def _chunks(seq, n):
    return [seq[k:k + n] for k in range(0, len(seq), n)]


def run(ctx, out):
    out.level = "translation_validation"
    stats = new_stats()
    samples = []
    features = {}
    profiles = {}
    n_models = int(os.environ.get("VERIF_C15_MODELS") or 0) or ctx.n(48, 1500)
    batch = 12
    idx = 0
    tasks = []          # (phase, (ctx, cases, rngs, fixed))
    # corpus first: witnesses of the known findings and hand-written regression models
    corpus = load_corpus()
    ccases, cfixed = [], []
    for fname, payload in corpus:
        d = dict(payload["desc"])
        d["name"] = "K%d" % idx
        ccases.append(Case(idx, d, "corpus/C15/" + fname))
        cfixed.append(payload["queries"])
        idx += 1
    if ccases:
        tasks.append(("corpus", (ctx, ccases, None, cfixed)))
    # the structured family: one model per reference value kind, then pairs (the same on every run;
    # only the query arguments depend on the seed)
    family = V.motif_family(io_rotation=ctx.n(ctx.seed, None))
    if os.environ.get("VERIF_C15_MOTIFS"):
        family = [x for x in family if any(w in x[0] for w in os.environ["VERIF_C15_MOTIFS"].split(","))]
    mcases, mrngs = [], []
    for label, d in family:
        d = dict(d, name="V%d" % idx)
        mcases.append(Case(idx, d, "motif/" + label))
        mrngs.append(ctx.rng("motif", label))
        idx += 1
    for cs, rs in zip(_chunks(mcases, batch), _chunks(mrngs, batch)):
        tasks.append(("motif", (ctx, cs, rs, None)))
    # the scoping family: every template on every run, for a rotating choice of name kinds (all of them in the
    # thorough tier), plus a seed-dependent tail of random scope expressions
    scope_formulas = 0
    if not os.environ.get("VERIF_C15_NO_SCOPE"):
        fam = S.family(ctx.rng("scope"), n_random=ctx.n(17, 510), per_template=ctx.n(2, None), rotation=ctx.seed)
        for label, d, qs in fam:
            d = dict(d, name="S%d" % idx)
            scope_formulas += len(qs)
            tasks.append(("scope", (ctx, [Case(idx, d, "scope/" + label)], None, [qs])))
            idx += 1
    # object-valued references at every position relative to the reading formula's item (model level: no mode;
    # space level: one mode per quick run, all in the thorough tier)
    if not os.environ.get("VERIF_C15_NO_OBJREFS"):
        modes = XR.MODES if ctx.tier != "quick" else (XR.MODES[ctx.seed % 3],)
        for label, d, qs in XR.family(modes=modes):
            d = dict(d, name="R%d" % idx)
            tasks.append(("objrefs", (ctx, [Case(idx, d, "objrefs/" + label)], None, [qs])))
            idx += 1
    # the failure family: formulas that raise, handlers, repeated reads (all kinds on every run)
    fail_queries = 0
    if not os.environ.get("VERIF_C15_NO_FAIL"):
        for label, d, qs in XF.family(ctx.rng("fail")):
            d = dict(d, name="F%d" % idx)
            fail_queries += len(qs)
            tasks.append(("failures", (ctx, [Case(idx, d, label)], None, [qs])))
            idx += 1
    programs = set()
    skipped_trigger = 0
    done = 0
    while done < n_models:
        cases, rngs = [], []
        for _ in range(min(batch, n_models - done)):
            rng = ctx.rng("model", done)
            mg = G.ModelGen(rng, "M%d" % idx)
            desc = mg.gen()
            done += 1
            idx += 1
            if any(G.desc_triggers(desc).values()):
                skipped_trigger += 1      # never expected: the generator avoids the known triggers
                continue
            for k, v in mg.features.items():
                features[k] = features.get(k, 0) + v
            profiles[mg.profile] = profiles.get(mg.profile, 0) + 1
            cases.append(Case(idx - 1, desc, "generated"))
            rngs.append(ctx.rng("queries", done))
            programs.add(json.dumps(desc, sort_keys=True))
        if cases:
            tasks.append(("generated", (ctx, cases, rngs, None)))
    results = run_tasks([t for _ph, t in tasks])
    nontrivial = 0
    per_phase = {}
    for (phase, _t), (fails, disagreements, st, smp, nt) in zip(tasks, results):
        out.failures.extend(fails)
        out.disagreements.extend(disagreements)
        for k, v in st.items():
            stats[k] = stats.get(k, 0) + v
        ph = per_phase.setdefault(phase, {"compared": 0, "model_raises": 0})
        ph["compared"] += st.get("compared", 0)
        ph["model_raises"] += st.get("model_raises", 0)
        for x in smp:
            if len(samples) < 6:
                samples.append(x)
        if phase == "generated":
            nontrivial += nt
    motif_compared = per_phase.get("motif", {}).get("compared", 0)
    shrink_failures(ctx, out)
    out.coverage.update({
        "evaluations": stats["compared"],
        "distinct_nontrivial": nontrivial,
        "rule": "evaluations = queries on which the model returned a canonical value and the exported package's "
                "answer was compared with it; a generated model is non-trivial when at least one of its queries "
                "was compared (model did not raise); distinct by description text",
        "samples": samples,
        "programs": len(programs),
        "corpus_cases": len(corpus),
        "motif_models": len(mcases),
        "motif_values_compared": motif_compared,
        "scope_family": {"formulas": scope_formulas,
                         "values_compared": per_phase.get("scope", {}).get("compared", 0),
                         "model_raises_not_compared": per_phase.get("scope", {}).get("model_raises", 0),
                         "templates": len(S.TEMPLATES), "contexts": len(S.CONTEXTS), "name_kinds": S.N_KINDS},
        "objref_family": {"values_compared": per_phase.get("objrefs", {}).get("compared", 0),
                          "model_raises_not_compared": per_phase.get("objrefs", {}).get("model_raises", 0),
                          "targets": len(XR.TARGETS), "modes": list(XR.MODES)},
        "failure_family": {"kinds": XF.KIND_IDS, "queries": fail_queries,
                           "values_compared": per_phase.get("failures", {}).get("compared", 0),
                           "errors_compared": stats.get("compared_errors", 0),
                           "errors_compared_on_a_repeated_read": stats.get("compared_errors_repeat", 0)},
        "worker_processes": min(n_jobs(), len(tasks)),
        "value_kinds": [k.id for k in V.KINDS],
        "input_distribution": {"profiles": profiles, "features": features, "counters": stats,
                               "models_skipped_for_known_trigger": skipped_trigger},
    })
    out.assumptions.append(
        "C15 is claimed at the level of translation validation: equality of values is established per generated "
        "model and query, not for all models; the Lean theorems (Props/C15.lean) cover only the name-rewriting "
        "decision table and the argument/reference precedence of the generated ItemSpace __call__")
    out.assumptions.append(
        "documented exclusions of export_model bound the generator: no relative references inside ItemSpaces, "
        "no IOSpec other than PandasData (none generated), parameterless cells are always called with ()")
    out.assumptions.append(
        "reference values are picklable and their classes importable where the package is imported (the user "
        "library c15_usertypes.py, numpy, pandas and the standard library are on the path of the subprocess)")


def replay(ctx, payload, out):
    out.level = "translation_validation"
    h = payload.get("history") or (payload.get("unexplained") or [{}])[-1].get("detail", {}).get("history")
    if not h or "desc" not in h:
        return
    stats = new_stats()
    desc = dict(h["desc"])
    case = Case(0, desc, "replay")
    qs = h.get("queries") or []
    if not qs:
        # a failure before any query (export raised / import failed): any query will do
        qs = [{"sp": [], "cells": "_name", "args": [], "kw": {}}]
    run_batch(ctx, [case], out, stats, [], fixed=[qs])
