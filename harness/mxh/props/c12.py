"""C12 – names are unique per space and the visible namespace equals the containers.

Oracle (implementation only), after every operation of random histories of member
creation, deletion, renaming and base changes: in every space no name is at once a cells, an
own reference and a child space (pairwise disjoint key sets); the same for the model's
spaces and references; the names visible to formulas (the globals a probe formula sees),
to attribute access and to dir() are exactly cells + references (own, derived, the special
names, model-level ones with space-level ones taking precedence) + child spaces; and the
library's own consistency self-checks (`mx.core.mxsys._check_sanity()`) pass.
Lean (Props/C12.lean): the namespace chain as association-list lookup with the precedence
read from the source by the table translator; lookup theorems (first map wins; a name in no
map is not visible; space-level shadows model-level).
"""
import collections

from .. import core
from .. import structworld as W
from .. import struct_props as S
from .. import struct_api_gen as api
from ..mechworld import MechCorr
from ..impl import mx, close_all, quiet

CFG = {
    "weights": {"new_space": 2.0, "del_space": 0.5, "new_cells": 3.0, "set_formula": 0.6, "del_cells": 1.5,
                "rename_cells": 1.5, "add_bases": 2.5, "remove_bases": 1.2, "set_ref": 2.5, "del_ref": 1.0,
                "set_mref": 0.8, "del_mref": 0.4, "eval": 0.8, "bad": 2.0, "rename_space": 1.6},
    "cross_names": 0.2,
    "nest_names": True,             # trees three deep in which a child may bear the name of an ancestor (`A.A`, `A.X.A`)
    "clash_rename_space": 0.08,     # share of `space.rename(..)` in the name-clash histories (`X.X`, `A.X.A` are common there)
    "enum_always": ("new_cells", "new_space", "set_ref", "rename_cells", "add_bases"),   # every edit that can bring two members of one name together
    "clash_wide": True,     # name-clash histories: several sub spaces per base, re-deriving edits after every request
    "rename_bad": 0.15,     # share of the space renames that offer a name that is no name (`_x`, `1a`, `for`, `a b`, ...)
}
RULE = ("random histories (12-26 ops) of member creation/deletion/renaming and base changes over a small shared "
        "name alphabet (cells names, reference names and child-space names overlap on purpose through the malformed "
        "stream); non-trivial = an operation was rejected because of a name clash and a base change was accepted")

SPECIAL = {"_self", "_space", "_model", "__builtins__"}


def sanity_worklist_key(m, err):
    """finding C12-check-sanity-same-short-name: `SpaceManager._check_sanity` keeps its work list in a dict keyed by
    the short name of the space, so of two pending spaces of one name (B.X and B.r.X) one is never visited and the
    final `assert not nodes` fails on a sound model.  Recognised exactly: the failing assertion is that one, and the
    same walk with a list as work list satisfies every assertion of the method."""
    try:
        tb = err.__traceback__
        while tb.tb_next is not None:
            tb = tb.tb_next
        code = tb.tb_frame.f_code
        if code.co_name != "_check_sanity" or not code.co_filename.endswith("model.py"):
            return None
        import linecache
        if "assert not nodes" not in linecache.getline(code.co_filename, tb.tb_lineno):
            return None
        mgr = m._impl.spmgr
        nodes = set(mgr._graph.nodes)
        todo = list(m._impl._all_spaces.items())
        while todo:
            k, v = todo.pop()
            if not (k == v.name and v.idstr in nodes and v is mgr._graph.nodes[v.idstr]["space"]):
                return None
            nodes.remove(v.idstr)
            todo.extend(v.named_spaces.items())
        return "C12-check-sanity-same-short-name" if not nodes else None
    except Exception:   # noqa
        return None


def graph_vs_containers(m, op, out, hist):
    """the spaces as the containers give them (model.spaces, then space.spaces, recursively) and the nodes of the
    inheritance graph are the same thing under the same names: every space's name is its key in the parent, its
    dotted id is the path of keys, it is the node of that id, and the graph has no other node.  (The library's own
    self-check asserts the same; this walk does not depend on it.)"""
    graph = m._impl.spmgr._graph
    ids = {}
    todo = [("", m._impl, k_, v) for k_, v in m._impl.named_spaces.items()]
    while todo:
        prefix, parent, key, sp = todo.pop()
        path = prefix + key
        ids[path] = sp
        if sp.name != key or sp.parent is not parent:
            out.fail("after %s the space under the key %s has the name %r and the parent %r" % (
                op[0], path, sp.name, getattr(sp.parent, "idstr", None)), hist)
            return
        if sp.idstr != path:
            out.fail("after %s the space reached through the containers as %s calls itself %s" % (op[0], path, sp.idstr), hist)
            return
        todo += [(path + ".", sp, k_, v) for k_, v in sp.named_spaces.items()]
    nodes = set(graph.nodes)
    if nodes != set(ids):
        out.fail("after %s the inheritance graph has the nodes %s, the containers hold the spaces %s" % (
            op[0], sorted(nodes - set(ids)) or "(none extra)", sorted(set(ids) - nodes) or "(none missing)"), hist)
        return
    for path, sp in ids.items():
        if graph.nodes[path].get("space") is not sp:
            out.fail("after %s the node %s of the inheritance graph does not hold the space of that path" % (op[0], path), hist)
            return


def same_as_rebuilt(live, ops, out, stats):
    """derivation from scratch: the model equals, member by member, a model built directly from its definitions
    (spaces under the names they have now, own cells and references, direct bases)"""
    defs = W.definitions(live.m)
    mine = W.describe(live.m, with_values=False)
    reb, problems = S.rebuild(defs)
    try:
        if problems:
            stats["rebuild_problems"] += 1
            return
        theirs = W.describe(reb.m, with_values=False)
    finally:
        reb.close()
    stats["compared_with_rebuilt"] += 1
    if mine != theirs:
        diff = sorted(p for p in set(mine["spaces"]) | set(theirs["spaces"]) if mine["spaces"].get(p) != theirs["spaces"].get(p))
        out.fail("the model differs from a model built from its current definitions in %s" % (diff or "the model-level references"),
                 S.hist_json(ops), detail={"live": {p: mine["spaces"].get(p) for p in diff[:3]},
                                           "rebuilt": {p: theirs["spaces"].get(p) for p in diff[:3]}})


class H(S.Hooks):
    def start(self, live, stats):
        self.clash = False
        self.basechange = False
        # the mechanism model (driver layer `smech`), edit by edit - `space.rename` included
        self.mech = MechCorr()

    def before(self, live, ops, k, op, stats):
        self.mech.before(live, k, op)

    def after(self, live, ops, k, op, result, out, stats):
        hist = S.hist_json(ops, k)
        if op[0] != "evalall":
            self.mech.after(live, k, op, result)
        if result.startswith("err") and op[0] in ("new_cells", "set_ref", "new_space", "rename_cells", "add_bases"):
            self.clash = True
        if result == "ok" and op[0] in ("add_bases", "remove_bases"):
            self.basechange = True
        self.nontrivial = self.clash and self.basechange
        if op[0] in ("eval", "evalall"):
            return
        m = live.m
        for n in sorted(m.spaces, key=repr):
            if not api.valid_name(n):
                out.fail("the space name %r is not a valid identifier" % (n,), hist)
        if set(m.spaces) & {k_ for k_ in m.refs if not k_.startswith("__")}:
            out.fail("a name denotes both a space and a reference of the model: %s" % (
                set(m.spaces) & set(m.refs)), hist)
        for path, s in W.all_spaces(m):
            cells, own, ch = set(s.cells), set(s._own_refs), set(s.spaces)
            # every member name is a name: what the containers hold can be written in a formula and reached by
            # attribute access only if it is a valid identifier (not a keyword, no leading underscore)
            # (cells and child spaces: the clause of C11 the property text gives; reference names are not judged)
            for n in sorted(cells | ch, key=repr):
                if not api.valid_name(n):
                    out.fail("in %s the %s name %r is not a valid identifier" % (
                        path, "cells" if n in cells else "child space", n), hist)
            for a, b, what in ((cells, own, "a cells and a reference"), (cells, ch, "a cells and a child space"),
                               (own, ch, "a reference and a child space")):
                if a & b:
                    out.fail("in %s the name(s) %s denote %s" % (path, sorted(a & b), what), hist)
            stats["spaces_checked"] += 1
            # the three views
            mrefs = {k_ for k_ in m.refs}
            expect = cells | own | ch | SPECIAL | mrefs
            ns = set(s._impl.namespace)
            if ns != expect:
                out.fail("namespace of %s differs from its containers: extra %s missing %s" % (
                    path, sorted(ns - expect), sorted(expect - ns)), hist)
            visible = {n for n in expect if not n.startswith("_")}
            d = {n for n in dir(s) if n in visible or n in ns}
            if not visible <= set(dir(s)):
                out.fail("dir(%s) lacks %s" % (path, sorted(visible - set(dir(s)))), hist)
            for n in sorted(visible):
                try:
                    v = getattr(s, n)
                except Exception as e:
                    out.fail("attribute access %s.%s raised %r although the name is in the namespace" % (path, n, e), hist)
                    continue
                # precedence: cells > own refs > model-level refs ... > child spaces
                if n in cells:
                    want = s.cells[n]
                    ok = v is want
                elif n in own:
                    ok = W.val_repr(v) == W.val_repr(s._impl.own_refs[n].interface)
                elif n in mrefs:
                    ok = W.val_repr(v) == W.val_repr(m.refs[n])
                else:
                    ok = v is s.spaces[n]
                if not ok:
                    out.fail("%s.%s resolves to %r, not to the member the containers give precedence" % (path, n, v), hist)
        graph_vs_containers(m, op, out, hist)
        try:
            with quiet():
                mx.core.mxsys._check_sanity()
        except AssertionError as e:
            out.fail("the library's own consistency check fails after %s: %r" % (op[0], e), hist,
                     key=sanity_worklist_key(live.m, e))
        except Exception as e:
            out.fail("the library's own consistency check raised %r after %s" % (e, op[0]), hist)

    def end(self, live, ops, out, stats):
        self.mech.finish(out, lambda kk: S.hist_json(ops, kk), stats)
        # what formulas see: a probe cells returning the names it can resolve
        for path, s in W.all_spaces(live.m):
            if "zprobe" in s.cells or len(s.cells) >= 6:
                continue
            names = sorted(set(s.cells) | set(s._own_refs) | set(s.spaces) | {k for k in live.m.refs if not k.startswith("__")})
            src = "def zprobe():\n    out = []\n" + "".join(
                "    try:\n        %s\n        out.append('%s')\n    except NameError:\n        pass\n" % (n, n)
                for n in names + ["zz_absent"]) + "    return tuple(out)\n"
            try:
                with quiet():
                    c = s.new_cells("zprobe", formula=src)
                    got = set(c())
                    del s.cells["zprobe"]
            except Exception as e:
                continue
            stats["formula_views_checked"] += 1
            if got != set(names):
                out.fail("formulas in %s see %s but the containers hold %s" % (path, sorted(got), names),
                         S.hist_json(ops))


# ----------------------------------------------------------------------------- scenario family: clashes below the edited space
#
# A name clash need not arise in the space an edit is applied to: members travel down the whole
# inheritance graph, so every edit that gives a space a new member (or a new base) can bring two kinds of
# member together in a sub space, or a sub space of a sub space, of the edited space.  The family
# enumerates (kind the lower space uses the name for) x (kind that arrives from above) x (how it
# arrives) x (how far below the clash is) x (a model-level reference of that name exists or not).
# The oracle is the property itself (class H): after every operation the containers of every space
# are pairwise disjoint and the three views of the namespace agree - so the arriving edit has to be
# refused, or at least must not leave a name in two containers.

KINDS = ("cells", "ref", "space")


def _member(kind, space, name, k=1):
    if kind == "cells":
        return ["new_cells", space, name, S.F(0, k)]
    if kind == "ref":
        return ["set_ref", space, name, 3 + k]
    return ["new_space", space, name, []]


def clash_family():
    """[(label, ops)]: A is the space that gets the new member/base, B derives from A, C from B"""
    out = []
    x = "x"
    for target in ("B", "C"):
        for k1 in KINDS:
            for k2 in KINDS:
                if k1 == k2:
                    continue
                for glob in (0, 1):
                    pre = [["set_mref", x, 10]] if glob else []
                    chain = [["new_space", "-", "A", []], ["new_space", "-", "B", ["A"]], ["new_space", "-", "C", ["B"]]]
                    have = chain + [_member(k1, target, x)]
                    arrivals = {
                        # a base that defines the name is added to the top of the chain
                        "add_bases": [["new_space", "-", "D", []], _member(k2, "D", x, 2), ["add_bases", "A", ["D"]]],
                        # ... a base that only derives it
                        "add_bases-derived": [["new_space", "-", "E", []], _member(k2, "E", x, 2),
                                              ["new_space", "-", "D", ["E"]], ["add_bases", "A", ["D"]]],
                        # ... two bases at once, the second one has it
                        "add_bases-two": [["new_space", "-", "E", []], ["new_space", "-", "D", []],
                                          _member(k2, "D", x, 2), ["add_bases", "A", ["E", "D"]]],
                        # the base is added in the middle of the chain
                        "add_bases-mid": [["new_space", "-", "D", []], _member(k2, "D", x, 2), ["add_bases", "B", ["D"]]],
                        # the member is created in the top space
                        "create": [_member(k2, "A", x, 2)],
                        # ... in a base the top space already has
                        "create-in-base": [["new_space", "-", "D", []], ["add_bases", "A", ["D"]], _member(k2, "D", x, 2)],
                        # a new space would derive the name from two of its bases as two kinds
                        "new_space-bases": [["new_space", "-", "D", []], _member(k2, "D", x, 2),
                                            ["new_space", "-", "N", [target, "D"]], ["new_space", "-", "N2", ["D", target]]],
                    }
                    if k2 == "cells":
                        arrivals["rename"] = [["new_cells", "A", "q", S.F(0, 2)], ["rename_cells", "A", "q", x]]
                        arrivals["rename-in-base"] = [["new_space", "-", "D", []], ["new_cells", "D", "q", S.F(0, 2)],
                                                      ["add_bases", "A", ["D"]], ["rename_cells", "D", "q", x]]
                    for how, ops in arrivals.items():
                        out.append(("%s in %s, %s arrives by %s%s" % (k1, target, k2, how, ", model-level too" if glob else ""),
                                    [list(o) for o in pre + have + ops]))
    return out


def run(ctx, out):
    stats = S.run_struct(ctx, out, "C12", CFG, H, 80, 1500, RULE + (
        "; plus name-clash histories (struct_props.gen_clash): cells, references, child spaces, model-level references "
        "and top-level spaces all named from one alphabet of four names"), clash=(40, 800))
    fam = clash_family()
    refused = 0
    for label, ops in fam:
        sub = core.Outcome()
        st = collections.Counter()
        S.run_one(ops, sub, st, H(), CFG)
        S.merge(out, sub)
        refused += bool(sum(v for k, v in st.items() if k.startswith("rejected:")))
        stats["clash_family_scenarios"] += 1
        if len([f for f in out.failures if not f.get("key")]) >= 6:
            break
    stats["clash_family_refused"] = refused
    api.run_struct(ctx, out, stats, H, CFG, S.run_one)
    out.coverage["evaluations"] += len(fam)
    fam3 = S.rename_family()
    renamed3 = S.run_family(out, stats, fam3, HR, CFG, "rename_family")
    out.coverage["evaluations"] += len(fam3)
    fam2 = S.refusal_family()
    refused2 = S.run_family(out, stats, fam2, H, CFG, "refusal_family")
    out.coverage["evaluations"] += len(fam2)
    fam4 = S.naming_family()
    S.run_family(out, stats, fam4, H, CFG, "naming_family")
    out.coverage["evaluations"] += len(fam4)
    out.coverage["rule"] += ("; plus the naming family (struct_props.naming_family): %d programs offering each of %d names "
                             "that are no names to every entry point that gives or changes a name (spaces, cells, "
                             "references, imports, copy); every member name in every container is a valid identifier "
                             "after every operation" % (len(fam4), len(S.BAD_NAMES)))
    out.coverage["input_distribution"] = dict(stats)
    out.coverage["rule"] += ("; plus the clash family: %d programs = (kind a sub space / sub-sub space uses a name for) x "
                             "(other kind arriving from above) x (add_bases of a definer / of a deriver / of two bases / "
                             "in mid-chain, creation in the top space / in an existing base, rename, new_space with both as "
                             "bases) x (model-level reference of the name or not); %d of them contain a refused edit"
                             % (len(fam), refused))
    out.coverage["rule"] += ("; plus the rename family (struct_props.rename_family): %d programs = (path of the renamed "
                             "space: its name also borne by the parent / the grandparent / both / a child / none) x (new name: "
                             "fresh / that of another top-level space under which a tree of the same shape exists / that of "
                             "the parent) x (the renamed space or its child is a base, has a base, the tree of the same shape "
                             "is a base of a space using a cells name for a reference), each rename followed by edits of the "
                             "renamed space, of the spaces below it, of their sub spaces and bases, and a rename back; graph "
                             "node ids = container paths after every operation, derivation from scratch at the end"
                             % len(fam3))
    out.coverage["rule"] += ("; plus the refusal family (struct_props.refusal_family): %d programs = (a base with two or "
                             "three sibling sub spaces / a chain / a diamond) x (which sub space uses the name, as cells / "
                             "child space / reference) x (model-level reference of the name: none / created before / "
                             "created AFTER the member) x (an earlier sub space overrides the name or not) x (other kind "
                             "arriving in the base by creation or rename), each followed by edits of the base that only "
                             "re-derive its sub spaces, the request again and more re-derivation; %d contain a refused edit"
                             % (len(fam2), refused2))


class HR(H):
    """the hooks of the rename family: at the end, derivation from scratch too"""
    def after(self, live, ops, k, op, result, out, stats):
        H.after(self, live, ops, k, op, result, out, stats)
        if not out.failures and (op[0] == "rename_space" or (op[0] == "new_space" and op[2] == "Z")):
            same_as_rebuilt(live, ops[:k + 1], out, stats)


def replay(ctx, payload, out):
    S.replay_struct(payload, out, H, CFG)
