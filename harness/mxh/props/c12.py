"""C12 – names are unique per space and the visible namespace equals the containers.

Oracle (implementation only), after every operation of random histories of member
creation, deletion, renaming and base changes: in every space no name is at once a cells, an
own reference and a child space (pairwise disjoint key sets); the same for the model's
spaces and references; the names visible to formulas (the globals a probe formula sees),
to attribute access and to dir() are exactly cells + references (own, derived, the special
names, model-level ones with space-level ones taking precedence) + child spaces; and the
library's own consistency self-checks (`mx.core.mxsys._check_sanity()`) pass.
Lean (Props/C12.lean): the namespace chain as association-list lookup with the precedence
read from the source by the table translator; lookup theorems (first map wins; a name in no
map is not visible; space-level shadows model-level).
"""
import collections

from .. import core
from .. import structworld as W
from .. import struct_props as S
from ..impl import mx, close_all, quiet

CFG = {
    "weights": {"new_space": 2.0, "del_space": 0.5, "new_cells": 3.0, "set_formula": 0.6, "del_cells": 1.5,
                "rename_cells": 1.5, "add_bases": 2.5, "remove_bases": 1.2, "set_ref": 2.5, "del_ref": 1.0,
                "set_mref": 0.8, "del_mref": 0.4, "eval": 0.8, "bad": 2.0, "rename_space": 0.0},
    "cross_names": 0.2,
    "enum_always": ("new_cells", "new_space", "set_ref", "rename_cells", "add_bases"),   # every edit that can bring two members of one name together
}
RULE = ("random histories (12-26 ops) of member creation/deletion/renaming and base changes over a small shared "
        "name alphabet (cells names, reference names and child-space names overlap on purpose through the malformed "
        "stream); non-trivial = an operation was rejected because of a name clash and a base change was accepted")

SPECIAL = {"_self", "_space", "_model", "__builtins__"}


def sanity_worklist_key(m, err):
    """finding C12-check-sanity-same-short-name: `SpaceManager._check_sanity` keeps its work list in a dict keyed by
    the short name of the space, so of two pending spaces of one name (B.X and B.r.X) one is never visited and the
    final `assert not nodes` fails on a sound model.  Recognised exactly: the failing assertion is that one, and the
    same walk with a list as work list satisfies every assertion of the method."""
    try:
        tb = err.__traceback__
        while tb.tb_next is not None:
            tb = tb.tb_next
        code = tb.tb_frame.f_code
        if code.co_name != "_check_sanity" or not code.co_filename.endswith("model.py"):
            return None
        import linecache
        if "assert not nodes" not in linecache.getline(code.co_filename, tb.tb_lineno):
            return None
        mgr = m._impl.spmgr
        nodes = set(mgr._graph.nodes)
        todo = list(m._impl._all_spaces.items())
        while todo:
            k, v = todo.pop()
            if not (k == v.name and v.idstr in nodes and v is mgr._graph.nodes[v.idstr]["space"]):
                return None
            nodes.remove(v.idstr)
            todo.extend(v.named_spaces.items())
        return "C12-check-sanity-same-short-name" if not nodes else None
    except Exception:   # noqa
        return None


class H(S.Hooks):
    def start(self, live, stats):
        self.clash = False
        self.basechange = False

    def after(self, live, ops, k, op, result, out, stats):
        hist = S.hist_json(ops, k)
        if result.startswith("err") and op[0] in ("new_cells", "set_ref", "new_space", "rename_cells", "add_bases"):
            self.clash = True
        if result == "ok" and op[0] in ("add_bases", "remove_bases"):
            self.basechange = True
        self.nontrivial = self.clash and self.basechange
        if op[0] in ("eval", "evalall"):
            return
        m = live.m
        if set(m.spaces) & {k_ for k_ in m.refs if not k_.startswith("__")}:
            out.fail("a name denotes both a space and a reference of the model: %s" % (
                set(m.spaces) & set(m.refs)), hist)
        for path, s in W.all_spaces(m):
            cells, own, ch = set(s.cells), set(s._own_refs), set(s.spaces)
            for a, b, what in ((cells, own, "a cells and a reference"), (cells, ch, "a cells and a child space"),
                               (own, ch, "a reference and a child space")):
                if a & b:
                    out.fail("in %s the name(s) %s denote %s" % (path, sorted(a & b), what), hist)
            stats["spaces_checked"] += 1
            # the three views
            mrefs = {k_ for k_ in m.refs}
            expect = cells | own | ch | SPECIAL | mrefs
            ns = set(s._impl.namespace)
            if ns != expect:
                out.fail("namespace of %s differs from its containers: extra %s missing %s" % (
                    path, sorted(ns - expect), sorted(expect - ns)), hist)
            visible = {n for n in expect if not n.startswith("_")}
            d = {n for n in dir(s) if n in visible or n in ns}
            if not visible <= set(dir(s)):
                out.fail("dir(%s) lacks %s" % (path, sorted(visible - set(dir(s)))), hist)
            for n in sorted(visible):
                try:
                    v = getattr(s, n)
                except Exception as e:
                    out.fail("attribute access %s.%s raised %r although the name is in the namespace" % (path, n, e), hist)
                    continue
                # precedence: cells > own refs > model-level refs ... > child spaces
                if n in cells:
                    want = s.cells[n]
                    ok = v is want
                elif n in own:
                    ok = W.val_repr(v) == W.val_repr(s._impl.own_refs[n].interface)
                elif n in mrefs:
                    ok = W.val_repr(v) == W.val_repr(m.refs[n])
                else:
                    ok = v is s.spaces[n]
                if not ok:
                    out.fail("%s.%s resolves to %r, not to the member the containers give precedence" % (path, n, v), hist)
        try:
            with quiet():
                mx.core.mxsys._check_sanity()
        except AssertionError as e:
            out.fail("the library's own consistency check fails after %s: %r" % (op[0], e), hist,
                     key=sanity_worklist_key(live.m, e))
        except Exception as e:
            out.fail("the library's own consistency check raised %r after %s" % (e, op[0]), hist)

    def end(self, live, ops, out, stats):
        # what formulas see: a probe cells returning the names it can resolve
        for path, s in W.all_spaces(live.m):
            if "zprobe" in s.cells or len(s.cells) >= 6:
                continue
            names = sorted(set(s.cells) | set(s._own_refs) | set(s.spaces) | {k for k in live.m.refs if not k.startswith("__")})
            src = "def zprobe():\n    out = []\n" + "".join(
                "    try:\n        %s\n        out.append('%s')\n    except NameError:\n        pass\n" % (n, n)
                for n in names + ["zz_absent"]) + "    return tuple(out)\n"
            try:
                with quiet():
                    c = s.new_cells("zprobe", formula=src)
                    got = set(c())
                    del s.cells["zprobe"]
            except Exception as e:
                continue
            stats["formula_views_checked"] += 1
            if got != set(names):
                out.fail("formulas in %s see %s but the containers hold %s" % (path, sorted(got), names),
                         S.hist_json(ops))


def run(ctx, out):
    S.run_struct(ctx, out, "C12", CFG, H, 80, 1500, RULE + (
        "; plus name-clash histories (struct_props.gen_clash): cells, references, child spaces, model-level references "
        "and top-level spaces all named from one alphabet of four names"), clash=(40, 800))


def replay(ctx, payload, out):
    S.replay_struct(payload, out, H, CFG)
