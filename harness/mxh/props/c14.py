"""C14 – saving never loses the last good save; failed saves and loads leave no residue.

Implementation side: a model is saved repeatedly (directory and zip format, backups on) to one
path.  The models (`MODEL_KINDS`) include ones that own IO data files with relative paths - module
sources (`new_module`), csv and Excel files written by pandas (`new_pandas`), a workbook kept by
openpyxl (`new_excel_range`) - so that `IOManager.write_ios`, the work directory of a zip save,
`ziputil.archive_dir` / `copy_file` (file -> archive, with its GH82 retry loop) and, on load,
`copy_file` (archive -> file) run.  With `mxh.faults.Injector` every primitive file operation of a
save (the unlink/rmdir calls of the rmtree of the oldest generation, the renames of the rotation,
mkdir, every open for writing, the pickle dump, every ZipFile write/close, the final move, the
clean-up of the temporary directory) is taken in turn as the point of failure, under fault *policies*:
the error is an OSError, a PermissionError or a FileNotFoundError, and it is transient (that one
operation fails) or persistent (every further attempt at the same operation on the same file fails
too) - so the retry loops and `except` clauses see both an error they absorb and one they must give
up on.  After each attempt the slots `path, path_BAK1 .. path_BAK4` are classified as absent /
good <format> <generation> / partial <format>: a slot is *good g* iff its file tree (names and
contents, IO data files included; members for an archive; a workbook member by member without its
time stamp) is equal to a reference save of generation g made with no fault.

Correspondence: the same sequence (format, the writer's operation kinds read off the implementation's
own operation trace, fault index, fault policy) is given to the Lean model (`mxdriver backup`,
theorems in Props/C14.lean); the outcome (raised or not), the rotation/writer plan (which slot is
removed, which renames in which order, where the move happens, which operations sit under a handler)
and all slots are compared.

Oracle (implementation only): the statement – after any save, interrupted or not, the most
recent complete copy is intact (and loadable, with the right values, module functions and pandas /
Excel data included) at the path or at the first backup and no complete copy that existed was lost; a
save that reports success has put the complete new generation at the path; generations are in order,
nothing beyond _BAK3; no slot ever holds a partial file; the registry and the `serializing` flags are
as before, no temporary directory is left; a failed load (damaged saves of both formats, every file
missing / garbage / truncated; faults at every read operation, under the same policies) leaves the
registry as it was; a later save and load work.
"""
import hashlib
import io
import os
import shutil
import tempfile
import zipfile

from .. import core, iosession
from ..faults import Injector, InjectedFault
from ..impl import mx, close_all, quiet, err_kind

KEY_TWO_FAILED = "C14-failed-dir-save-then-save"
KEY_LOAD_RENAME = "C14-failed-load-renames-existing"
KEY_ZIP_TRUNC = "C14-zip-reopen-error-truncates-archive"
NSLOTS = 5          # path, _BAK1 .. _BAK4 (the last one must never exist)

_sys = mx.core.mxsys


# ----------------------------------------------------------------------------- programs

MODEL_KINDS = ["flat", "nested", "pandas", "module", "excel", "mixed"]
# load families only: a model that also keeps a csv OUTSIDE its folder (absolute path; `extdir` of build_model).
# Its file object is filed session-wide (group None): a failed load must take it out again, or every later load of
# the intact copy fails (the second face of the repaired C14-failed-load-leaks-io)
EXTERNAL = "external"
IO_KINDS = ("pandas", "module", "excel", "mixed")      # models that own IO data files

_MODULE_SRC = "def twice(x):\n    return 2 * x\n\n\ndef shift(x):\n    return x + %d\n"
_SRC_DIR = None


def _sources():
    """files the IO data of the models is created from (outside every save location)"""
    global _SRC_DIR
    if _SRC_DIR is None or not os.path.isdir(_SRC_DIR):
        _SRC_DIR = tempfile.mkdtemp(prefix="mxh_c14_src_", dir=_SRC_ROOT or None)
        for i in (1, 2):
            with open(os.path.join(_SRC_DIR, "helper%d.py" % i), "w") as f:
                f.write(_MODULE_SRC % i)
        import openpyxl
        wb = openpyxl.Workbook()
        ws = wb.active
        ws.title = "Sheet1"
        for r, row in enumerate([["k", "v"], ["a", 1], ["b", 2], ["c", 3]], start=1):
            for c, v in enumerate(row, start=1):
                ws.cell(row=r, column=c, value=v)
        wb.save(os.path.join(_SRC_DIR, "book.xlsx"))
    return _SRC_DIR


_SRC_ROOT = None


def build_model(kind, name="Saved", extdir=None):
    """a model of one of MODEL_KINDS.  The IO kinds own data files with paths relative to the
    model (module sources, csv and Excel files written by pandas, an Excel workbook read by
    openpyxl): a directory save writes them below the path, a zip save writes them into a work
    directory and copies them into the archive (ziputil.archive_dir / copy_file); a load from an
    archive extracts them again (copy_file, archive -> file)."""
    with quiet():
        m = mx.new_model(name)
        s = m.new_space("S")
        s.new_cells("f", formula="lambda x: x * gen")
        s.gen = 0
        s.f[7] = 70                       # input value -> S/_data/f (and a non-empty _input_log.txt)
        if kind != "flat":
            c = s.new_space("Child")
            c.new_cells("g", formula="lambda: 5")
            s.lst = [1, 2, 3]             # pickled -> _data/data.pickle
            m.top = "abc"
        if kind in ("pandas", "mixed", EXTERNAL):
            import pandas as pd
            df = pd.DataFrame({"a": [1, 2], "b": [3, 4]})
            m.new_pandas("df", "files/df.csv", df, file_type="csv")
        if kind == EXTERNAL:
            s.new_pandas("xdf", os.path.join(extdir, "xdf.csv"), pd.DataFrame({"c": [5, 6]}), file_type="csv")
        if kind in ("module", "mixed"):
            src = _sources()
            m.new_module("helper", "lib/helper.py", os.path.join(src, "helper1.py"))
            s.new_module("helper2", "lib/sub/helper2.py", os.path.join(src, "helper2.py"))
            s.new_cells("h", formula="lambda x: helper2.shift(x)")
        if kind in ("excel", "mixed"):
            import pandas as pd
            src = _sources()
            # two specs in one workbook written by pandas, one range of a workbook kept by openpyxl
            m.new_pandas("xa", "files/book.xlsx", pd.DataFrame({"p": [1, 2, 3]}), file_type="excel", sheet="A")
            s.new_pandas("xb", "files/book.xlsx", pd.Series([4, 5], name="xb"), file_type="excel", sheet="B")
            s.new_excel_range("rng", "files/range.xlsx", "A2:B4", sheet="Sheet1", keyids=["c0"],
                              loadpath=os.path.join(src, "book.xlsx"))
    return m


def set_gen(m, g):
    m.S.gen = g


def _describe_value(v):
    """a reference's value, independent of addresses and of where the model was loaded from"""
    import types
    if isinstance(v, types.ModuleType):
        return ("module", sorted((n, repr(f(3))) for n, f in vars(v).items()
                                 if callable(f) and not n.startswith("_")))
    if hasattr(v, "to_dict") and hasattr(v, "index"):          # DataFrame / Series
        return ("pandas", type(v).__name__, repr(sorted((repr(k), repr(x)) for k, x in v.to_dict().items())),
                repr(list(v.index)))
    if type(v).__name__ == "ExcelRange":
        return ("xlrange", sorted((repr(k), repr(x)) for k, x in dict(v).items()))
    return repr(v)


def describe(m):
    """what a loaded copy must contain (name-independent)"""
    d = {}
    for sn, s in m.spaces.items():
        d[sn] = _describe_space(s)
    d["#refs"] = {k: _describe_value(v) for k, v in m.refs.items() if not k.startswith("_")}
    d["#iospecs"] = sorted((type(sp).__name__, sp.path.as_posix()) for sp in m.iospecs)
    return d


def _file_backed(v):
    import types
    return (isinstance(v, types.ModuleType) or (hasattr(v, "to_dict") and hasattr(v, "index"))
            or type(v).__name__ == "ExcelRange")


def describe_io(m):
    """what the model keeps in files, reference by reference: `get_spec` of every file-backed value under every
    name (kind and path), and `iospecs`"""
    d = {"iospecs": sorted((type(sp).__name__, sp.path.as_posix()) for sp in m.iospecs), "spec_of": {}}
    named = [("", k, v) for k, v in m.refs.items() if not k.startswith("_")]

    def walk(prefix, s):
        named.extend((prefix, k, v) for k, v in s.refs.items() if not k.startswith("_"))
        for n, c in s.named_spaces.items():
            walk(prefix + "." + n, c)
    for sn, s in m.spaces.items():
        walk(sn, s)
    for sn, k, v in named:
        if _file_backed(v):
            try:
                sp = m.get_spec(v)
                d["spec_of"]["%s.%s" % (sn, k)] = (type(sp).__name__, sp.path.as_posix())
            except Exception as e:
                d["spec_of"]["%s.%s" % (sn, k)] = "ERROR: %s" % e
    return d


def give_io(m, extdir):
    """an open model that keeps data in files: inside its folder (relative paths) and EXTERNAL ones (absolute
    paths below `extdir`, private to the model) - pandas csv, a workbook sheet, a module"""
    import pandas as pd
    s = m.Mine
    src = os.path.join(os.path.dirname(extdir), "src")      # (not _sources(): that lands in the current tempdir)
    if not os.path.isdir(src):
        os.makedirs(src)
        for i in (1, 2):
            with open(os.path.join(src, "helper%d.py" % i), "w") as f:
                f.write(_MODULE_SRC % i)
    s.new_pandas("rel", "files/rel.csv", pd.DataFrame({"a": [1, 2]}), file_type="csv")
    m.new_module("relmod", "lib/relmod.py", os.path.join(src, "helper2.py"))
    s.new_pandas("ext", os.path.join(extdir, "ext.csv"), pd.DataFrame({"b": [3, 4]}), file_type="csv")
    m.new_pandas("extbook", os.path.join(extdir, "book.xlsx"), pd.Series([4, 5], name="s"), file_type="excel",
                 sheet="A")
    m.new_module("extmod", os.path.join(extdir, "extmod.py"), os.path.join(src, "helper1.py"))


def bystander_round_trip(m, desc, desc_io, tmp, fail):
    """a model that was open during somebody else's load still saves everything it keeps in files (the external
    files at their absolute paths too) and reads back as it was.  The model is closed before the read (a file
    under an absolute path is one object per session: C18-absolute-io-shared)."""
    target = os.path.join(tmp, "bystander_rt")
    shutil.rmtree(target, ignore_errors=True)
    want = []
    for sp in m.iospecs:
        p = os.fspath(sp.path)
        want.append(p if os.path.isabs(p) else os.path.join(target, p))
    for p in want:
        if os.path.exists(p):
            os.unlink(p)
    try:
        with quiet():
            m.write(target, backup=False)
            missing = sorted(os.path.basename(p) for p in want if not os.path.exists(p))
            m.close()
            m2 = mx.read_model(target, name="BystanderBack")
            d2, dio2 = describe(m2), describe_io(m2)
            m2.close()
    except Exception as e:
        fail("does not save and read back: %s" % err_kind(e))
        return
    finally:
        shutil.rmtree(target, ignore_errors=True)
    if missing:
        fail("its save did not write the files of its IOSpecs: %s" % missing)
    if d2 != desc or dio2 != desc_io:
        fail("reads back different from what it was before the load")


def _describe_space(s):
    return {
        "cells": {cn: (c.formula.source if c.formula else None,
                       sorted((repr(k), repr(v)) for k, v in dict(c).items()))
                  for cn, c in s.cells.items()},
        "refs": {k: _describe_value(v) for k, v in s.refs.items() if not k.startswith("_")},
        "spaces": {n: _describe_space(c) for n, c in s.named_spaces.items()},
    }


# ----------------------------------------------------------------------------- the file system

def slot_path(base, i):
    return base if i == 0 else "%s_BAK%d" % (base, i)


def slot_name(i):
    return "P" if i == 0 else "B%d" % i


def _content_sig(name, data):
    """sha1 of a member's content; a workbook (itself an archive whose `docProps/core.xml` carries
    the time of writing) is compared member by member without that file"""
    if name.endswith(".xlsx"):
        try:
            with zipfile.ZipFile(io.BytesIO(data)) as z:
                if z.testzip() is not None:
                    return "xlsx:damaged"
                inner = sorted((n, hashlib.sha1(z.read(n)).hexdigest()) for n in z.namelist()
                               if n != "docProps/core.xml")
            return "xlsx:" + hashlib.sha1(repr(inner).encode()).hexdigest()
        except Exception:
            return "xlsx:unreadable:" + hashlib.sha1(data).hexdigest()
    return hashlib.sha1(data).hexdigest()


def signature(path):
    """canonical content of a slot: relative name -> sha1 of the content; None if unreadable"""
    if os.path.isdir(path):
        sig = {}
        for d, dirs, files in os.walk(path):
            dirs.sort()
            rel = os.path.relpath(d, path)
            if not files and not dirs:
                sig[rel + "/"] = "dir"
            for f in sorted(files):
                with open(os.path.join(d, f), "rb") as fh:
                    name = os.path.normpath(os.path.join(rel, f))
                    sig[name] = _content_sig(name, fh.read())
        return sig
    try:
        with zipfile.ZipFile(path) as z:
            if z.testzip() is not None:
                return None
            return {n: _content_sig(n, z.read(n)) for n in sorted(z.namelist())}
    except Exception:
        return None


class World:
    """one model, one save location, reference copies of every generation"""

    def __init__(self, tmp, kind, log_input):
        self.tmp = tmp
        self.kind = kind
        self.log_input = log_input
        self.work = os.path.join(tmp, "w")
        self.base = os.path.join(self.work, "model")
        self.T = os.path.join(tmp, "T")
        self.refdir = os.path.join(tmp, "ref")
        os.makedirs(self.work)
        os.makedirs(self.T)
        self.model = build_model(kind)
        self.refs = {}            # (fmt, g) -> signature
        self.expected = {}        # g -> description
        self.snapn = 0
        self.probed = set()       # (format, generation) of the complete copies already loaded back

    # ---- saving
    def _save(self, fmt, path, backup=True):
        if fmt == "dir":
            self.model.write(path, backup=backup, log_input=self.log_input)
        else:
            self.model.zip(path, backup=backup, log_input=self.log_input)

    def reference(self, fmt, g):
        key = (fmt, g)
        if key not in self.refs:
            set_gen(self.model, g)
            d = os.path.join(self.refdir, "%s_%d" % (fmt, g))
            os.makedirs(d, exist_ok=True)
            p = os.path.join(d, "model")
            with quiet():
                self._save(fmt, p)
            self.refs[key] = signature(p)
            self.expected[g] = describe(self.model)
            shutil.rmtree(d, ignore_errors=True)
        return self.refs[key]

    def label(self, p):
        s = os.fspath(p) if not isinstance(p, str) else p
        pre = ""
        if s.startswith("zip:"):
            pre, s = "zip:", s[4:]
        if s.startswith("<fd>"):
            return s
        s = os.path.realpath(s)
        for i in range(NSLOTS - 1, 0, -1):
            bp = slot_path(self.base, i)
            if s == bp or s.startswith(bp + os.sep):
                return pre + "B%d" % i + s[len(bp):]
        if s == self.base or s.startswith(self.base + os.sep):
            return pre + "P" + s[len(self.base):]
        if s == self.T or s.startswith(self.T + os.sep):
            return pre + "T" + s[len(self.T):]
        return pre + "?" + s

    def attempt(self, fmt, g, fault_at=None, variant="before", backup=True, policy="once", exc="os"):
        """one save; -> (raised kind or None, injector)"""
        set_gen(self.model, g)
        inj = Injector([self.work, self.T], fault_at=fault_at, variant=variant, label=self.label,
                       reads=True, policy=policy, exc=exc)
        raised = None
        with quiet():
            with inj:
                try:
                    self._save(fmt, self.base, backup=backup)
                except InjectedFault:
                    raised = "Injected"
                except BaseException as e:       # noqa: the save failed for another reason
                    raised = err_kind(e) if inj.fired is None else "Injected+" + err_kind(e)
        return raised, inj

    # ---- classification
    def classify(self, gens):
        """-> list of slot states; `gens`: {generation: format} of the saves attempted so far"""
        out = []
        for i in range(NSLOTS):
            p = slot_path(self.base, i)
            if not os.path.lexists(p):
                out.append("-")
                continue
            kind = "dir" if os.path.isdir(p) else "zip"
            sig = signature(p)
            state = "part:" + kind
            if sig is not None:
                for g, fmt in gens.items():
                    if fmt == kind and sig == self.reference(fmt, g):
                        state = "good:%s:%d" % (kind, g)
                        break
            out.append(state)
        return out

    # ---- snapshots of the work directory
    def snapshot(self):
        self.snapn += 1
        d = os.path.join(self.tmp, "snap%d" % self.snapn)
        shutil.copytree(self.work, d, symlinks=True)
        return d

    def restore(self, snap):
        shutil.rmtree(self.work)
        shutil.copytree(snap, self.work, symlinks=True)
        self.clean_T()

    def residue(self):
        """what a save or load left in the temporary directory (openpyxl's own temporary files, which
        it does not remove when writing a sheet fails, are not modelx's)"""
        return sorted(n for n in os.listdir(self.T) if not n.startswith("openpyxl."))

    def clean_T(self):
        for n in os.listdir(self.T):
            p = os.path.join(self.T, n)
            shutil.rmtree(p) if os.path.isdir(p) else os.unlink(p)

    def reset(self):
        shutil.rmtree(self.work)
        os.makedirs(self.work)
        self.clean_T()


# ----------------------------------------------------------------------------- traces -> plan tokens

def _is_tmp_archive(a0):
    """`T/<temporary directory>/model`: the archive a zip save builds before it is moved"""
    return a0.startswith("T/") and a0.count("/") == 2 and a0.endswith("/model")


def tokens_of(trace, complete, fmt=None):
    """map the implementation's operation trace to the model's primitives.

    rotation: `rmN` / `rmN!` / `mvN`;  writer, directory format: `mkroot`, `w` (an operation below the
    path; `W` the last one), zip format: `move`;  both: `t` (an operation in the temporary directory),
    `c` / `r` (zipfile.ZipFile opens a new or still empty / an already filled archive for update: an
    OSError of that open is swallowed by zipfile's file-mode retry, which for `r` truncates), `p` (an
    operation under a handler that absorbs one PermissionError and tries again: the unlink/rmdir of
    TemporaryDirectory.cleanup).  ziputil.copy_file's GH82 loop retries the opening of the archive only
    (an `r`; since 14fa119): its ZipFile.write and close are plain `t` - see `hot_indices`."""
    zip_targets = set()
    for ent in trace:
        for a in ent[1:]:
            if isinstance(a, str) and a.startswith("zip:"):
                zip_targets.add(a[4:])
    toks = []
    phase = "rot"
    opens = {}
    moved = False
    for ent in trace:
        name, args = ent[0], ent[1:]
        a0 = args[0] if args else ""
        if phase == "rot":
            if name in ("unlink", "rmdir") and a0.startswith("<fd>"):
                toks.append("rm?")
                continue
            if name in ("unlink", "rmdir") and (a0 == "P" or (a0.startswith("B") and "/" not in a0)):
                n = 0 if a0 == "P" else int(a0[1:])
                toks = [("rm%d" % n if t == "rm?" else t) for t in toks]
                toks.append("rm%d!" % n)
                continue
            if name == "rename" and len(args) == 2 and not a0.startswith("T"):
                src = 0 if a0 == "P" else (int(a0[1:]) if a0[1:].isdigit() else -1)
                dst = int(args[1][1:]) if args[1][1:].isdigit() else -1
                toks.append("mv%d" % src if dst == src + 1 else "mv%d>%s" % (src, args[1]))
                continue
            phase = "write"
        # writer
        in_T = a0 == "T" or a0.startswith("T/") or a0.startswith("zip:T/")
        in_P = a0.startswith("P/") or a0.startswith("zip:P/")
        if name == "mkdir" and a0 == "P":
            toks.append("mkroot")
        elif name == "rename" and len(args) == 2 and a0.startswith("T") and args[1] == "P":
            toks.append("move")
            moved = True
        elif moved:
            # tempdir.cleanup(): rmtree with TemporaryDirectory's PermissionError handler
            toks.append("p" if name in ("unlink", "rmdir") else "?%s:%s" % (name, a0))
        elif name == "open:w+" and a0 in zip_targets:
            # ZipFile(file, "w" | "a"): an OSError here is swallowed by zipfile (retry with the next
            # file mode); for the temporary archive, from the third opening on the retry truncates
            # an archive that has members
            opens[a0] = opens.get(a0, 0) + 1
            toks.append("r" if _is_tmp_archive(a0) and opens[a0] > 2 else "c")
        elif in_P or (name.startswith("pickle") and fmt == "dir"):
            toks.append("w")
        elif in_T or (name.startswith("pickle") and fmt == "zip"):
            toks.append("t")
        else:
            toks.append("?%s:%s" % (name, a0))
    if complete and toks and toks[-1] == "w":
        toks[-1] = "W"
    return toks


def hot_indices(trace):
    """the operations of ziputil.copy_file (file -> archive) on the temporary archive: the opening, the
    ZipFile.write of the IO data file and the close - next to a retry loop for PermissionError, so every
    fault policy is tried at each of them whatever the tier"""
    hot = set()
    last_open = None
    in_copy = False
    for i, ent in enumerate(trace):
        name, a0 = ent[0], (ent[1] if len(ent) > 1 else "")
        if name == "open:w+" and _is_tmp_archive(a0):
            last_open = i
        elif name == "zip.write" and a0.startswith("zip:") and _is_tmp_archive(a0[4:]):
            in_copy = True
            hot.add(i)
            if last_open is not None:
                hot.add(last_open)
        elif name == "zip.close" and in_copy and a0.startswith("zip:") and _is_tmp_archive(a0[4:]):
            in_copy = False
            hot.add(i)
    return hot


def compress(toks):
    out = []
    for t in toks:
        if out and out[-1][0] == t:
            out[-1][1] += 1
        else:
            out.append([t, 1])
    return ",".join(t if n == 1 else "%s*%d" % (t, n) for t, n in out)


def sizes_of(toks):
    """what the environment determines: entries of the tree removed, the writer's operations
    (directory format: those after `make_root` but the last, zip format: those before the move), the
    number of clean-up operations after the move"""
    nrm = sum(1 for t in toks if t.startswith("rm"))
    if "move" in toks:
        k = toks.index("move")
        n1 = "".join(t for t in toks[:k] if t in ("t", "c", "r")) or "-"
        n2 = sum(1 for t in toks[k + 1:] if t == "p")
    else:
        body = [t for t in toks if t in ("w", "W", "t", "c")]
        n1 = "".join(body[:-1]) or "-"
        n2 = 0
    return max(nrm, 1), n1, n2


POLCODE = {("os", "once"): "os1", ("os", "persist"): "osP", ("perm", "once"): "perm1", ("perm", "persist"): "permP",
           # a FileNotFoundError is an OSError that no handler of the save path singles out
           ("notfound", "once"): "os1", ("notfound", "persist"): "osP"}
SENSITIVE = ("c", "r", "p", "move")      # tokens at which the outcome depends on the policy


def policy_allowed(entry, tok, exc, policy):
    """CPython's TemporaryDirectory._rmtree calls itself without bound when the `rmdir` of a directory
    keeps raising PermissionError (tempfile.py, `except IsADirectoryError: cls._rmtree(path, ...)`):
    standard-library behaviour, nothing of modelx runs - not injected"""
    return not (entry[0] == "rmdir" and exc == "perm" and policy == "persist")


def trunc_key_of(tok, exc, policy):
    """the recognised trigger of the archive finding: a transient error at a re-opening of the
    temporary archive (swallowed by zipfile, whose next file mode truncates)"""
    if policy == "once" and tok == "r":
        return KEY_ZIP_TRUNC
    return None


def strip_part(state):
    """model slots carry the generation of a partial copy; the implementation cannot see it"""
    return ":".join(state.split(":")[:2]) if state.startswith("part") else state


# ----------------------------------------------------------------------------- oracle for one save

def world_fmt_of(hist, g):
    """format of the g-th save of a replayable history (its first element is the spec)"""
    return hist[0]["hist"][g - 1]["fmt"]


def world_fmt_of_slot(state):
    return state.split(":")[1]


def gen_of(state):
    return int(state.split(":")[2]) if state.startswith("good") else None


def check_save(world, out, hist_txt, pre, post, raised, fmt, g, backup, fired_after_move, stats, probe,
               trunc_key=None, all_ok_so_far=False, zcause=None):
    """the statement, on what the implementation left on disk"""
    m = world.model

    def fail(what, key=None, detail=None):
        out.fail(what, hist_txt, detail={"pre": pre, "post": post, "raised": raised, **(detail or {})}, key=key)

    # the session
    reg = dict(_sys.models)
    if list(reg) != ["Saved"] or reg["Saved"] is not m._impl:
        fail("a save changed the registered models: %s" % sorted(reg))
    if _sys.serializing is not None or _sys.iomanager.serializing is not None:
        fail("serializing flag still set after a %s save" % ("failed" if raised else "successful"))
    if world.residue() and not fired_after_move:
        fail("temporary directory left behind after a %s save" % ("failed" if raised else "successful"),
             detail={"left": world.residue()})
    world.clean_T()
    if not backup:
        return
    # the recognised triggers: the save starts from a path that holds a partial copy - a directory
    # tree left by a failed directory save, or an archive truncated by zipfile's retry
    trigger = pre[0].startswith("part")
    key = {"part:dir": KEY_TWO_FAILED, "part:zip": zcause or KEY_ZIP_TRUNC}.get(pre[0])
    if trigger:
        stats["trigger_states"] += 1
    # no partial archive, nothing beyond _BAK3
    # the recognised trigger of the zipfile finding: the OSError hit a re-opening of the temporary
    # archive and the save went on to report success
    zkey = trunc_key if (raised is None and fmt == "zip") else None
    for i, s in enumerate(post):
        if s == "part:zip":
            fail("%s holds a partially written archive" % slot_name(i),
                 key=zkey if (i == 0 and pre[0] != "part:zip") else
                 ((zcause or KEY_ZIP_TRUNC) if s in pre else None))
    if post[NSLOTS - 1] != "-":
        fail("a fourth backup exists")
    # success puts the new generation at the path and the old content at _BAK1
    if raised is None:
        if post[0] != "good:%s:%d" % (fmt, g):
            fail("the save reported success but the path holds %s" % post[0], key=zkey)
        if pre[0] != "-" and post[1] != pre[0]:
            fail("after a successful save _BAK1 is %s, the path held %s" % (post[1], pre[0]))
    # after n successful saves: the new generation and the three before it, in order
    if all_ok_so_far and raised is None:
        want = ["good:%s:%d" % (world_fmt_of(hist_txt, g - i), g - i) if g - i >= 1 and i <= 3 else "-"
                for i in range(NSLOTS)]
        if post != want:
            fail("after %d successful saves the slots are %s, expected %s" % (g, post, want))
    # the most recent complete copy
    pre_gi = [(gen_of(s), i) for i, s in enumerate(pre) if gen_of(s) is not None]
    pre_g = [x[0] for x in pre_gi]
    post_g = [(gen_of(s), i) for i, s in enumerate(post) if gen_of(s) is not None]
    if pre_g and (not post_g or max(post_g)[0] < max(pre_g)):
        fail("the last good save (generation %d) is lost" % max(pre_g), key=key)
    elif post_g and max(post_g)[1] > 1 and pre_gi and max(pre_gi) == max(post_g):
        # the copy was already there before this save: the save that put it there was reported
        # (every save of a history is checked); this one did not make it worse
        stats["inherited_displacement"] += 1
    elif post_g and max(post_g)[1] > 1:
        fail("the most recent complete copy (generation %d) is at %s, not at the path or _BAK1"
             % (max(post_g)[0], slot_name(max(post_g)[1])), key=key)
    # order
    gs = [x[0] for x in sorted(post_g, key=lambda x: x[1])]
    if any(a <= b for a, b in zip(gs, gs[1:])):
        fail("generations out of order: %s" % post)
    # intact = loadable, with the values of that generation
    # (a slot classified complete has the names and contents of the reference save of that generation,
    # so one load per generation and format says what every such copy loads to)
    if post_g and (probe or raised is None) and (world_fmt_of_slot(post[max(post_g)[1]]), max(post_g)[0]) \
            not in world.probed:
        gg, i = max(post_g)
        world.probed.add((world_fmt_of_slot(post[i]), gg))
        desc = None
        try:
            with quiet():
                pm = mx.read_model(slot_path(world.base, i), name="Probe")
                desc = describe(pm)
                pm.close()
        except Exception as e:
            desc = "load failed: " + err_kind(e)
        stats["probes"] += 1
        if desc != world.expected.get(gg):
            fail("the copy classified complete (generation %d at %s) does not load with its values"
                 % (gg, slot_name(i)), detail={"loaded": desc})
        if list(_sys.models) != ["Saved"]:
            fail("probe load changed the registry")
            for k in list(_sys.models):
                if k != "Saved":
                    _sys.models[k].interface.close()


# ----------------------------------------------------------------------------- histories of saves

def choose_indices(ctx, n, toks, rng, hot=()):
    """fault points of the enumerated save: all (thorough) or a spread (quick)"""
    if ctx.tier == "thorough" or n <= 14:
        return list(range(n))
    nrot = sum(1 for t in toks if t.startswith("rm") or t.startswith("mv"))
    keep = set(range(min(nrot + 3, n))) | set(range(n - 4, n)) | set(range(0, n, 3))
    if "move" in toks:
        k = toks.index("move")
        keep |= {k - 1, k, k + 1}
    # the operations under a retry handler / a swallowing caller: the first and the last of each kind,
    # every opening / ZipFile.write / close of copy_file (one triple per IO data file)
    for kind in ("c", "r"):
        idx = [i for i, t in enumerate(toks) if t == kind]
        keep |= set(idx[:1] + idx[-1:])
    keep |= set(hot)
    keep.add(rng.randrange(n))
    return sorted(i for i in keep if 0 <= i < n)


ALL_POLICIES = [("os", "once"), ("os", "persist"), ("perm", "once"), ("perm", "persist")]


def choose_policies(ctx, entry, tok, rng, after_move=False, hot=False):
    """the ways the chosen operation fails: always a transient OSError; where the calling code has a
    handler (zipfile's file-mode retry, copy_file's GH82 loop, shutil.move, TemporaryDirectory) every
    combination of error class and persistence; elsewhere one more combination, drawn (quick: for a third
    of the operations)"""
    if tok in SENSITIVE or hot:
        pols = list(ALL_POLICIES)
        # (a FileNotFoundError in tempdir.cleanup() is ignored by TemporaryDirectory: standard library,
        # not modelled - the class is not injected there)
        if not after_move and rng.random() < (1.0 if ctx.tier == "thorough" else 0.15):
            pols.append(("notfound", "once"))
    else:
        # no handler around the operation: whatever is raised propagates
        pols = [("os", "once")]
        if ctx.tier == "thorough" or rng.random() < 0.35:
            pols.append(rng.choice(ALL_POLICIES[1:] + ([] if after_move else [("notfound", "persist")])))
    return [(e, pl) for e, pl in pols if policy_allowed(entry, tok, e, pl)]


def run_save_history(ctx, world, hist, out, stats, lines, rng):
    """hist: list of dicts {fmt, backup, fault: fraction | at: index | neither, variant, policy, exc,
    enum}; an entry with `enum` is executed once for every fault index and fault policy (it must be
    the last one).  Appends (driver op, implementation observation, replayable history) to `lines`."""
    world.reset()
    lines.append(("reset", "ok", None))
    lines.append(("newmodel Saved", None, None))
    gens = {}
    g = 0
    resolved = []           # the saves executed so far, with absolute fault indices
    txt = []
    zcause = [None]         # which finding produced the partial archive that is in the chain
    pre = world.classify(gens)
    for idx, sv in enumerate(hist):
        g += 1
        fmt, backup = sv["fmt"], sv.get("backup", True)
        gens[g] = fmt
        world.reference(fmt, g)
        snap = world.snapshot()
        # pass 1: no fault, to learn the operation sequence
        raised, inj = world.attempt(fmt, g, None, backup=backup)
        full = list(inj.trace)
        toks = tokens_of(full, complete=raised is None, fmt=fmt)
        n = len(full)
        nrm, n1, n2 = sizes_of(toks)
        b = "B" if backup else "N"
        move_at = toks.index("move") if "move" in toks else None
        post = world.classify(gens)
        base_txt, base_res = list(txt), list(resolved)

        def record(k, variant, raised_k, post_k, fired, exc="os", policy="once", nfired=0):
            entry = {"fmt": fmt, "backup": backup, "at": k, "variant": variant}
            if (exc, policy) != ("os", "once"):
                entry.update(exc=exc, policy=policy)
            spec = {"type": "save", "model": world.kind, "log_input": world.log_input,
                    "hist": base_res + [entry]}
            pol = "" if (exc, policy) == ("os", "once") else ":%s:%s" % (exc, policy)
            t = base_txt + ["save %s %s g=%d fault=%s%s%s" % (b, fmt, g, "-" if k is None else k,
                                                               "" if variant == "before" else ":" + variant, pol)]
            op = "save %s %s %d %d %s %d %s %s" % (b, fmt, g, nrm, n1, n2, "-" if k is None else k,
                                                   POLCODE[(exc, policy)])
            obs = "%s plan=%s | %s" % ("ok" if raised_k is None else "fail", compress(toks),
                                       " ".join("%s=%s" % (slot_name(i), s) for i, s in enumerate(post_k)))
            lines.append((op, obs, [spec] + t))
            # the session: where the interruption is relative to the try/finally of the writer
            nrot = sum(1 for x in toks if x.startswith("rm") or x.startswith("mv"))
            if k is None or raised_k is None:
                phase = "nowhere"
            elif k < nrot:
                phase = "rotation"
            elif move_at is not None and k > move_at:
                phase = "cleanup"
            elif move_at is not None and k < nrot + 2:
                phase = "beforeFlags"
            else:
                phase = "body"
            sobs = "reg " + " ".join("%s:%s:%s" % (kk, 0 if v is world.model._impl else "?", v.name)
                                     for kk, v in _sys.models.items())
            sobs += " | flags=%d,%d" % (_sys.serializing is not None, _sys.iomanager.serializing is not None)
            lines.append(("sess-save " + phase, sobs, [spec] + t))
            stats["save_phase:" + phase] += 1
            stats["saves"] += 1
            stats["fmt:" + fmt] += 1
            stats["pre_path:" + pre[0].split(":")[0]] += 1
            tok = toks[k] if k is not None and k < len(toks) else None
            if k is not None:
                stats["policy:%s:%s" % (exc, policy)] += 1
                stats["fault_token:" + (tok.rstrip("0123456789!") if tok else "-")] += 1
                if raised_k is None:
                    stats["absorbed:%s:%s:%s" % (tok, exc, policy)] += 1
                if nfired > 1:
                    stats["persistent_refired"] += 1
            if raised_k is not None:
                stats["faulted"] += 1
                if fired:
                    stats["fault_op:" + fired[0]] += 1
            fam = move_at is not None and k is not None and k > move_at
            tk = trunc_key_of(tok, exc, policy) if k is not None else None
            check_save(world, out, [spec] + t, pre, post_k, raised_k, fmt, g, backup, fam, stats,
                       probe=(stats["saves"] % ctx.n(3, 1) == 0),
                       trunc_key=tk, zcause=zcause[0],
                       all_ok_so_far=(k is None and backup and all(e["at"] is None and e["backup"] for e in base_res)))
            return t, entry, tk

        if raised is not None:
            # the unfaulted save itself failed: nothing was injected
            t, _, _ = record(None, "before", raised, post, None)
            out.fail("a save with no fault injected raised %s" % raised, lines[-1][2],
                     detail={"pre": pre, "post": post, "trace": [list(e) for e in full]})
            shutil.rmtree(snap, ignore_errors=True)
            return
        bad = [t for t in toks if t.startswith("?")]
        if bad:
            out.fail("operation trace of a save not understood: %s" % bad[:3], [{"type": "save", "model": world.kind,
                     "log_input": world.log_input, "hist": base_res + [{"fmt": fmt, "backup": backup, "at": None,
                                                                         "variant": "before"}]}],
                     detail={"trace": [list(e) for e in full]})
        if not sv.get("enum"):
            k = sv.get("at")
            if k is None and sv.get("fault") is not None:
                k = min(int(sv["fault"] * n), n - 1)
            exc, policy = sv.get("exc", "os"), sv.get("policy", "once")
            if k is not None and k < n and not policy_allowed(full[k], toks[k], exc, policy):
                exc, policy = "os", "once"
            if k is None or k >= n:
                txt, entry, _ = record(None, "before", None, post, None)
                pre = post
            else:
                world.restore(snap)
                raised_k, inj_k = world.attempt(fmt, g, k, sv.get("variant", "before"), backup=backup,
                                                policy=policy, exc=exc)
                post_k = world.classify(gens)
                txt, entry, tk = record(k, sv.get("variant", "before"), raised_k, post_k, inj_k.fired,
                                        exc=exc, policy=policy, nfired=inj_k.nfired)
                if tk and raised_k is None and post_k[0] == "part:zip":
                    zcause[0] = tk
                pre = post_k
            if not any(x.startswith("part:zip") for x in pre):
                zcause[0] = None
            resolved.append(entry)
            shutil.rmtree(snap, ignore_errors=True)
            continue
        # the enumerated save
        record(None, "before", None, post, None)
        lines.append(("back", "ok", None))
        hot = hot_indices(full)
        stats["copy_file_ops"] += len(hot)
        for k in choose_indices(ctx, n, toks, rng, hot):
            combos = [("before", e, pl) for e, pl in choose_policies(
                ctx, full[k], toks[k], rng, after_move=move_at is not None and k > move_at, hot=k in hot)]
            if full[k][0].startswith("open:w") and (ctx.tier == "thorough" or rng.random() < 0.3):
                combos.append(("after", "os", "once"))
            for variant, exc, policy in combos:
                world.restore(snap)
                raised_k, inj_k = world.attempt(fmt, g, k, variant, backup=backup, policy=policy, exc=exc)
                post_k = world.classify(gens)
                t, _, _ = record(k, variant, raised_k, post_k, inj_k.fired, exc=exc, policy=policy,
                                 nfired=inj_k.nfired)
                lines.append(("back", "ok", None))
                stats["enumerated_points"] += 1
                # a load of what the failed save left behind must not leave anything either
                if post_k[0].startswith("part") and stats["enumerated_points"] % ctx.n(4, 1) == 0:
                    check_failed_load(world, out, lines[-2][2] + ["read_model(path)"], stats)
        shutil.rmtree(snap, ignore_errors=True)
        return


def check_failed_load(world, out, txt, stats):
    before = list(_sys.models.items())
    res = None
    try:
        with quiet():
            pm = mx.read_model(world.base, name="Probe")
            res = "loaded"
            pm.close()
    except Exception as e:
        res = "err " + err_kind(e)
    stats["loads_of_partial:" + res.split()[0]] += 1
    after = list(_sys.models.items())
    if [(k, id(v)) for k, v in after] != [(k, id(v)) for k, v in before]:
        out.fail("a load of an interrupted save changed the registered models: %s" % [k for k, _ in after], txt)
        for k, v in after:
            if v is not world.model._impl:
                v.interface.close()
    if _sys.serializing is not None or _sys.iomanager.serializing is not None:
        out.fail("serializing flag still set after a failed load", txt)
        _sys.serializing = None
        _sys.iomanager.serializing = None
    if world.residue():
        out.fail("temporary directory left behind after a load", txt)
    world.clean_T()


def gen_history(rng, length):
    """`length` saves; the last one is enumerated over all fault points"""
    hist = []
    fmt = rng.choice(["dir", "zip"])
    for i in range(length):
        if rng.random() < 0.3:
            fmt = "zip" if fmt == "dir" else "dir"
        sv = {"fmt": fmt}
        if i < length - 1 and rng.random() < 0.35:
            sv["fault"] = rng.random()
            if rng.random() < 0.3:
                sv["variant"] = "after"
            elif rng.random() < 0.5:
                sv["exc"], sv["policy"] = rng.choice(ALL_POLICIES[1:])
        if rng.random() < 0.04:
            sv["backup"] = False
        hist.append(sv)
    hist[-1]["enum"] = True
    return hist


def _h(*svs):
    hist = [dict(sv) for sv in svs]
    hist[-1]["enum"] = True
    return hist


D, Z = {"fmt": "dir"}, {"fmt": "zip"}
CORPUS = [
    # full chain, directory format: the rmtree of _BAK3 and three renames
    _h(D, D, D, D, D, D),
    # full chain, zip format
    _h(Z, Z, Z, Z, Z),
    # the known scenario: a directory save fails while writing, the next save fails too
    _h(D, {"fmt": "dir", "fault": 0.6}, D),
    # mixed formats, a failed zip save in between
    _h(D, Z, D, {"fmt": "zip", "fault": 0.5}, D),
    # a failed directory save followed by a successful one is harmless
    _h(Z, {"fmt": "dir", "fault": 0.9, "variant": "after"}, Z, Z),
]
# for the models that own IO data files: a zip save over a zip save, over a directory save, a directory
# save over a zip save (every operation of the work directory, of archive_dir / copy_file and of the
# clean-up as fault point, under every policy), a persistent failure in between
CORPUS_IO = [
    _h(Z, Z),
    _h(Z, D),
    _h(D, {"fmt": "zip", "fault": 0.85, "exc": "perm", "policy": "persist"}, Z),
]


# ----------------------------------------------------------------------------- loads that fail

class Hooks:
    """observe how far a load got: was `new_model` called, was the parse-time rename reached"""

    def __enter__(self):
        self.new = 0
        self.renamed = False
        self._new, self._ren = _sys.new_model, _sys.rename_model

        def new_model(*a, **kw):
            self.new += 1
            return self._new(*a, **kw)

        def rename_model(new_name, old_name, rename_old=False):
            if rename_old:
                self.renamed = True
            return self._ren(new_name, old_name, rename_old)

        _sys.new_model, _sys.rename_model = new_model, rename_model
        return self

    def __exit__(self, *a):
        del _sys.new_model
        del _sys.rename_model
        return False

    def phase(self, failed):
        if not failed:
            return "nowhere"
        if self.new == 0:
            return "beforeNew"
        return "afterRename" if self.renamed else "rootSource"


def damage(path, fmt, how, member):
    """damage one file of a saved model (a directory tree or an archive)"""
    def new_content(old):
        if how == "garbage":
            return b"def broken(:\n\x00\xff"
        if how == "truncate":
            return old[: len(old) // 2]
        return None           # missing
    if fmt == "dir":
        f = os.path.join(path, member)
        old = open(f, "rb").read()
        new = new_content(old)
        os.unlink(f)
        if new is not None:
            open(f, "wb").write(new)
    else:
        tmpz = path + ".rewrite"
        with zipfile.ZipFile(path) as src, zipfile.ZipFile(tmpz, "w") as dst:
            for info in src.infolist():
                data = src.read(info.filename)
                if info.filename == member:
                    data = new_content(data)
                    if data is None:
                        continue
                dst.writestr(info.filename, data)
        os.replace(tmpz, path)


PRE = ["none", "other", "same", "same+other"]
LOAD_POLICIES = [("os", "once"), ("os", "persist"), ("perm", "once"), ("perm", "persist"),
                 ("notfound", "once"), ("notfound", "persist")]


class LoadWorld:
    def __init__(self, tmp, kind):
        self.tmp = tmp
        self.kind = kind
        self.T = os.path.join(tmp, "T")
        os.makedirs(self.T, exist_ok=True)
        self.good = {}
        self.members = {}
        self.expected = None
        close_all()
        m = build_model(kind, extdir=os.path.join(tmp, "extsaved"))
        set_gen(m, 1)
        self.expected = describe(m)
        for fmt in ("dir", "zip"):
            p = os.path.join(tmp, "good_" + fmt)
            with quiet():
                (m.write if fmt == "dir" else m.zip)(p)
            self.good[fmt] = p
            self.members[fmt] = sorted(signature(p))
        m.close()
        close_all()

    def fresh_copy(self, fmt):
        p = os.path.join(self.tmp, "bad")
        if os.path.isdir(p):
            shutil.rmtree(p)
        elif os.path.exists(p):
            os.unlink(p)
        if fmt == "dir":
            shutil.copytree(self.good[fmt], p)
        else:
            shutil.copyfile(self.good[fmt], p)
        return p

    def label(self, p):
        s = os.fspath(p) if not isinstance(p, str) else p
        return os.path.basename(s.rstrip("/")) if not s.startswith("<fd>") else s


def run_load_case(lw, spec, out, stats, lines):
    """spec: {type: load, model, fmt, how, member, pre, at}: damage one member (how != none) or
    make the `at`-th read operation fail; `pre`: which models exist before"""
    close_all()
    for n in os.listdir(lw.T):
        shutil.rmtree(os.path.join(lw.T, n), ignore_errors=True)
    fmt, how = spec["fmt"], spec["how"]
    ops = ["reset"]
    created = []
    with quiet():
        if "same" in spec["pre"]:
            m0 = mx.new_model("Saved")
            m0.new_space("Mine").x = 1
            created.append(m0)
            ops.append("newmodel Saved")
        if "other" in spec["pre"]:
            m1 = mx.new_model("Other")
            m1.new_space("Mine").x = 2
            created.append(m1)
            ops.append("newmodel Other")
        # the models that are open while the load runs keep data in files of their own, inside their folders
        # and outside (absolute paths): a load - failed or not - is none of their business
        shutil.rmtree(os.path.join(lw.tmp, "ext"), ignore_errors=True)
        for j, m_ in enumerate(created):
            give_io(m_, os.path.join(lw.tmp, "ext", "m%d" % j))
    bystanders = list(created)
    bad = lw.fresh_copy(fmt)
    if how != "none":
        damage(bad, fmt, how, spec["member"])
    before = [(k, id(v)) for k, v in _sys.models.items()]
    desc_before = [describe(m) for m in created]
    io_before = [describe_io(m) for m in created]
    ios_before = {id(io_) for io_ in _sys.iomanager.ios.values()}
    loaded = None
    err = None
    inj = Injector([lw.tmp], fault_at=spec.get("at"), mode="load", label=lw.label,
                   policy=spec.get("policy", "once"), exc=spec.get("exc", "os"))
    with Hooks() as hk:
        with quiet():
            with inj:
                try:
                    loaded = mx.read_model(bad)
                except BaseException as e:      # noqa
                    err = err_kind(e)
    phase = hk.phase(err is not None)
    stats["load:" + phase] += 1
    stats["loads"] += 1
    if err:
        stats["load_err:" + err] += 1
    if loaded is not None:
        created.append(loaded)
    hist = [spec, "pre=%s read_model(%s %s %s at=%s%s) -> %s" % (
        spec["pre"], fmt, how, spec.get("member"), spec.get("at"),
        ":%s:%s" % (spec["exc"], spec["policy"]) if spec.get("exc") else "", err or "ok")]
    if spec.get("at") is not None and err is None:
        stats["load_absorbed:%s" % (inj.fired[0] if inj.fired else "-")] += 1

    def idx(impl):
        for i, m in enumerate(created):
            if m._impl is impl:
                return i
        return "?"

    obs = "reg " + " ".join("%s:%s:%s" % (k, idx(v), v.name) for k, v in _sys.models.items())
    obs = obs + " | flags=%d,%d" % (_sys.serializing is not None,
                                            _sys.iomanager.serializing is not None)
    for o in ops:
        lines.append((o, None, None))
    lines.append(("load Saved " + phase, obs, hist))

    # ---- oracle
    after = [(k, id(v)) for k, v in _sys.models.items()]
    if _sys.serializing is not None or _sys.iomanager.serializing is not None:
        out.fail("serializing flag still set after a %s load" % ("failed" if err else "successful"), hist)
    left = sorted(n for n in os.listdir(lw.T) if not n.startswith("openpyxl."))
    if left and not (inj.fired and inj.fired[0] in ("rmdir", "unlink")):
        out.fail("temporary directory left behind after a load", hist, detail={"left": left})
    if err is not None:
        if sorted(i for _, i in after) != sorted(i for _, i in before):
            out.fail("a failed load changed the set of registered models: %s -> %s" % (
                [k for k, _ in before], [k for k, _ in after]), hist,
                detail={"phase": phase, "error": err})
        elif after != before:
            renamed = [(kb, ka) for (kb, ib) in before for (ka, ia) in after if ib == ia and ka != kb]
            key = KEY_LOAD_RENAME if ("same" in spec["pre"] and phase == "afterRename"
                                      and renamed == [("Saved", "Saved_BAK1")]) else None
            out.fail("a failed load left an existing model renamed: %s" % renamed, hist,
                     detail={"phase": phase, "error": err}, key=key)
        for m, d in zip(created, desc_before):
            if describe(m) != d:
                out.fail("a failed load changed an existing model", hist)
        # no residue in the session's registry of file objects: what the load registered is gone again
        stray = [(g, p) for (g, p), io_ in _sys.iomanager.ios.items() if id(io_) not in ios_before]
        if stray:
            # (relative paths: filed under the closed half-read model; an external file: filed session-wide.  Both
            # were the finding C14-failed-load-leaks-io, repaired by 37aa747 / f95f7ad)
            out.fail("a failed load left file objects in the IOManager: %s" % sorted(
                ("-" if g is None else "half-read model" if all(g is not m for m in created) else "open model",
                 p.as_posix() if not p.is_absolute() else "<abs>/" + p.name)
                for g, p in stray), hist, detail={"phase": phase, "error": err})
            for key in stray:
                del _sys.iomanager.ios[key]
    else:
        if describe(loaded) != lw.expected and how == "none":
            out.fail("a load reported success but the model differs from what was saved", hist)
    # a load, failed or not, leaves what the OTHER open models keep in files alone
    for j, (m, d, dio) in enumerate(zip(bystanders, desc_before, io_before)):
        now = describe_io(m)
        if now != dio or (err is None and describe(m) != d):
            out.fail("a %s load changed the IOSpecs of another open model" % ("failed" if err else "successful"),
                     hist, detail={"before": dio, "after": now})
            break
        stats["bystanders_with_iospecs"] += 1
    else:
        # ... and they still save every file and read back as they were (one of them per case, in turn)
        if bystanders:
            j = stats["load_cases"] % len(bystanders)
            after = [(k, i) for k, i in after if i != id(bystanders[j]._impl)]      # it is closed on the way
            bystander_round_trip(
                bystanders[j], desc_before[j], io_before[j], lw.tmp,
                lambda what: out.fail("after a %s load another open model %s" % (
                    "failed" if err else "successful", what), hist))
            stats["bystander_round_trips"] += 1
    # later saves and loads behave normally
    stats["load_cases"] += 1
    if not spec.get("later", True):
        close_all()
        return list(inj.trace)
    stats["later_checked"] += 1
    later = None
    # a file under an absolute path is ONE object per session (C18-absolute-io-shared): the copies of the model
    # that keeps an external file are open one at a time
    one_at_a_time = lw.kind == EXTERNAL
    if one_at_a_time and loaded is not None:
        after = [(k, i) for k, i in after if i != id(loaded._impl)]
        with quiet():
            loaded.close()
    try:
        with quiet():
            m2 = mx.read_model(lw.good[fmt], name="Again")
            ok = describe(m2) == lw.expected
            p2 = os.path.join(lw.tmp, "again")
            (m2.write if fmt == "dir" else m2.zip)(p2, backup=False)
            if one_at_a_time:
                m2.close()
            m3 = mx.read_model(p2, name="Again2")
            ok = ok and describe(m3) == lw.expected
            m3.close()
            m2.close()
            shutil.rmtree(p2) if os.path.isdir(p2) else os.unlink(p2)
            later = "ok" if ok else "differs"
    except Exception as e:
        later = "err " + err_kind(e)
    if later != "ok":
        out.fail("after a %s load a later load/save/load does not behave normally: %s" % (
            "failed" if err else "successful", later), hist)
    if sorted(id(v) for v in _sys.models.values()) != sorted(i for _, i in after):
        out.fail("later load/save/close left other models registered", hist)
    close_all()
    return list(inj.trace)


def load_specs(ctx, lw, rng):
    specs = []
    n = 0
    for fmt in ("dir", "zip"):
        for member in lw.members[fmt]:
            if lw.kind == EXTERNAL and ctx.tier != "thorough" and not (
                    member.startswith("_data/") or member.endswith(".csv") or member == "S/__init__.py"):
                continue        # the other members are damaged in the models without an external file
            for how in ("missing", "garbage", "truncate"):
                pres = PRE if ctx.tier == "thorough" else [PRE[n % len(PRE)]]
                n += 1
                for pre in pres:
                    specs.append({"type": "load", "model": lw.kind, "fmt": fmt, "how": how,
                                  "member": member, "pre": pre, "at": None})
    return specs


# ----------------------------------------------------------------------------- entry points

def _new_stats():
    import collections
    return collections.Counter()


def _compare(out, lines):
    """run the model on the recorded operations and compare"""
    ops = [l[0] for l in lines]
    model = core.run_driver("backup", ops)
    n = 0
    for (op, obs, hist), mline in zip(lines, model):
        if obs is None or op in ("reset", "back"):
            continue
        if op.startswith("save"):
            head, slots = mline.split(" | ")
            parts = head.split()
            mobs = "%s %s | %s" % (parts[0], parts[2], " ".join(
                "%s=%s" % (kv.split("=")[0], strip_part(kv.split("=")[1])) for kv in slots.split()))
        else:
            mobs = mline
        n += 1
        if mobs.strip() != obs.strip():
            out.disagree(hist, op, obs, mobs, layer="backup")
    return n


def _run_spec(ctx, spec, out, stats, lines, tmp, worlds, lworlds, rng, nth=[0]):
    if spec["type"] == "save":
        key = (spec["model"], spec["log_input"])
        if key not in worlds:
            close_all()
            worlds.clear()
            d = tempfile.mkdtemp(prefix="w_", dir=tmp)
            worlds[key] = World(d, *key)
            tempfile.tempdir = worlds[key].T
        w = worlds[key]
        tempfile.tempdir = w.T
        run_save_history(ctx, w, spec["hist"], out, stats, lines, rng)
    else:
        worlds.clear()
        key = spec["model"]
        if key not in lworlds:
            d = tempfile.mkdtemp(prefix="l_", dir=tmp)
            lworlds.clear()
            lworlds[key] = LoadWorld(d, key)
        lw = lworlds[key]
        tempfile.tempdir = lw.T
        # quick tier: the load / save / load that follows is made after every third case
        nth[0] += 1
        if ctx.tier != "thorough" and "later" not in spec and nth[0] % 3 != 0 and key != EXTERNAL:
            spec = dict(spec, later=False)
        return run_load_case(lw, spec, out, stats, lines)


def _corpus_specs():
    import json
    d = os.path.join(core.CORPUS_DIR, "C14")
    res = []
    if os.path.isdir(d):
        for f in sorted(os.listdir(d)):
            if f.endswith(".json"):
                res.append(json.load(open(os.path.join(d, f)))["spec"])
    return res


def run(ctx, out):
    stats = _new_stats()
    lines = []
    samples = []
    programs = set()
    old_tempdir = tempfile.tempdir
    tmp = tempfile.mkdtemp(prefix="mxh_c14_")
    worlds, lworlds = {}, {}
    try:
        rng = ctx.rng("faults")
        # 0. corpus files (witnesses of the known findings) first
        for spec in _corpus_specs():
            _run_spec(ctx, spec, out, stats, lines, tmp, worlds, lworlds, rng)
            stats["corpus_cases"] += 1
        # 1. saves: for each program the corpus histories, then generated ones
        if ctx.tier == "thorough":
            progs = [("nested", False), ("flat", True), ("mixed", False), ("pandas", True), ("module", False),
                     ("excel", True), ("nested", True), ("flat", False)]
        else:
            # one plain model each way, the model with every kind of IO data, one of the single-kind ones
            progs = [("nested", False), ("flat", True), ("mixed", False),
                     (ctx.rng("iokind").choice(["pandas", "module", "excel"]), True)]
        n_random = ctx.n(2, 36)
        for pi, (kind, log_input) in enumerate(progs):
            if kind in IO_KINDS:
                hists = [h for i, h in enumerate(CORPUS_IO) if ctx.tier == "thorough" or kind == "mixed" or i == 0]
                if ctx.tier == "thorough":
                    hists += CORPUS[1:2] + CORPUS[3:4]
            else:
                hists = [h for i, h in enumerate(CORPUS) if ctx.tier == "thorough" or (i + pi) % 3 == 0 or
                         (pi == 0 and i in (0, 2))]
            for i in range(n_random if kind not in IO_KINDS else ctx.n(2, 4)):
                r = ctx.rng("hist", kind, log_input, i)
                hists.append(gen_history(r, r.randrange(1, 7)))
            for h in hists:
                spec = {"type": "save", "model": kind, "log_input": log_input, "hist": h}
                _run_spec(ctx, spec, out, stats, lines, tmp, worlds, lworlds, rng)
                stats["save_histories:" + kind] += 1
                programs.add(repr((kind, log_input, h)))
                stats["save_histories"] += 1
                stats["hist_len:%d" % len(h)] += 1
                if len(samples) < 3:
                    samples.append({"model": kind, "log_input": log_input, "saves": h})
        # 2. loads that fail
        for kind in (MODEL_KINDS + [EXTERNAL] if ctx.tier == "thorough" else
                     ["nested", ctx.rng("loadkind").choice(["pandas", "module"]), EXTERNAL]):
            spec0 = {"type": "load", "model": kind, "fmt": "dir", "how": "none", "member": None,
                     "pre": "none", "at": None}
            _run_spec(ctx, spec0, out, stats, lines, tmp, worlds, lworlds, rng)
            lw = lworlds[kind]
            for spec in load_specs(ctx, lw, rng):
                _run_spec(ctx, spec, out, stats, lines, tmp, worlds, lworlds, rng)
                programs.add(repr(sorted(spec.items(), key=str)))
            # every read operation as the point of failure
            for fmt in ("dir", "zip"):
                base = {"type": "load", "model": kind, "fmt": fmt, "how": "none", "member": None,
                        "pre": "same", "at": None}
                ltrace = _run_spec(ctx, base, out, stats, lines, tmp, worlds, lworlds, rng)
                nops = len(ltrace)
                ks = list(range(nops))
                if ctx.tier != "thorough" and nops > 12:
                    ks = sorted(set(list(range(6)) + list(range(6, nops, 4)) + [nops - 2, nops - 1]))
                for j, k in enumerate(ks):
                    # a transient OSError at every chosen operation; the other error classes / a
                    # persistent error in turn (thorough: every combination at every operation)
                    pols = [("os", "once")] + (LOAD_POLICIES[1:] if ctx.tier == "thorough"
                                                else [LOAD_POLICIES[1 + j % (len(LOAD_POLICIES) - 1)]])
                    for pj, (exc, policy) in enumerate(pols):
                        if not policy_allowed(ltrace[k], None, exc, policy):
                            continue
                        spec = dict(base, at=k, pre=PRE[(j + pj) % len(PRE)])
                        if (exc, policy) != ("os", "once"):
                            spec.update(exc=exc, policy=policy)
                        _run_spec(ctx, spec, out, stats, lines, tmp, worlds, lworlds, rng)
                        stats["load_fault_points"] += 1
                        stats["load_policy:%s:%s" % (exc, policy)] += 1
            if len(samples) < 5:
                samples.append(spec)
        compared = _compare(out, lines)
    finally:
        tempfile.tempdir = old_tempdir
        close_all()
        shutil.rmtree(tmp, ignore_errors=True)
    # the session-wide IOManager (group None of external files) next to the Lean kernel IOSession: loads that fail
    # after the IOSpecs were read, beside open models that keep data in external files (mxh/iosession.py)
    if not iosession.self_test():
        raise core.Infra("iosession tie: the driver's seeded variants are not told apart")
    iosession.failed_load_family(ctx, out, stats)
    nontrivial = stats["faulted"] + sum(v for k, v in stats.items() if k.startswith("load:") and k != "load:nowhere")
    out.coverage.update({
        "evaluations": stats["saves"] + stats["loads"],
        "distinct_nontrivial": nontrivial,
        "rule": "one evaluation = one save attempt (with its classification of path,_BAK1.._BAK4 and the oracle) "
                "or one load; non-trivial = the save or load was made to fail (a fault fired / a member was damaged)",
        "samples": samples,
        "programs": len(programs),
        "observations_compared_with_model": compared,
        "input_distribution": dict(sorted(stats.items())),
    })
    out.assumptions.append(
        "faults are exceptions raised at a primitive file operation (os.rename/replace/unlink/rmdir/mkdir, open for "
        "writing, ZipFile.writestr/write/close, pickler dump; for loads also open for reading and unpickler load), "
        "of class OSError / PermissionError / FileNotFoundError, once or persistently (every further operation of "
        "the same kind on the same file fails too); a failing ZipFile.close releases the file without writing the "
        "central directory; torn writes, power loss and a non-atomic cross-device shutil.move are outside the model; "
        "a persistent PermissionError of an rmdir is not injected (CPython's TemporaryDirectory._rmtree recurses "
        "without bound on it)")


def replay(ctx, payload, out):
    h = payload.get("history")
    if not h and payload.get("unexplained"):
        h = (payload["unexplained"][-1].get("detail") or {}).get("history")
    if not h and payload.get("spec"):
        h = [payload["spec"]]
    if not h or not isinstance(h[0], dict):
        return
    stats = _new_stats()
    if "bystanders" in h[0]:            # a session of mxh/iosession.py
        iosession.run_load_session(h[0], out, stats)
        return
    lines = []
    old_tempdir = tempfile.tempdir
    tmp = tempfile.mkdtemp(prefix="mxh_c14_")
    try:
        _run_spec(ctx, h[0], out, stats, lines, tmp, {}, {}, ctx.rng("faults"))
        _compare(out, lines)
    finally:
        tempfile.tempdir = old_tempdir
        close_all()
        shutil.rmtree(tmp, ignore_errors=True)
