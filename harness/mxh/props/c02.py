"""C02 – no stale value survives any edit.

Oracle (implementation only, the statement itself): random interleavings of every kind of
edit with evaluations; every value the live model returns is compared with the value
returned by a second modelx model to which only the edits were applied, with no evaluation
in between – after every evaluation, and for every cells of every space at the end.
The Lean side (Props/C02.lean) carries the theorem about the value layer's mechanism: the
clearing modelx performs for an edit keeps every surviving value equal to the uncached
denotation under the new definitions (see the property module for what is proved).

Correspondence of the mechanism model (value layer): generated programs (cached and uncached cells in two
spaces; references read by name and through attribute paths, from the reference's own space and from the other
one) with histories mixing evaluations, value edits, reference edits (change, delete, create) and formula /
cache-flag edits run on modelx and on the Lean driver (`St.setRef`, `St.delRef`, `St.setFormula` of
Exec/Mech.lean); held values, trace graph and reference graph are compared after every operation.  The same
histories are also judged by the oracle on the implementation alone.
"""
import collections

from .. import core
from .. import structworld as W
from .. import struct_props as S
from .. import editworld
from ..impl import mx, close_all, quiet
from ..execworld import deep_counter

CFG = {
    "weights": {"new_space": 1.2, "del_space": 0.5, "new_cells": 2.5, "set_formula": 2.2, "set_cached": 0.5,
                "del_cells": 1.0, "rename_cells": 0.4, "add_bases": 1.2, "remove_bases": 0.8, "set_ref": 3.0,
                "del_ref": 1.0, "set_mref": 1.0, "del_mref": 0.3, "set_value": 1.0, "clear": 0.4,
                "eval": 6.0, "evalall": 0.8, "bad": 0.2, "set_param": 0.5, "eval_item": 1.0},
    # extended vocabulary (struct_props / structworld): formulas that call AND read, space formulas that read
    # references (parent's by attribute path, by name, ...), extended motif programs, the structured families
    # of edit sequences, more ways to clear one element
    "ext": True,
    # the enumeration also starts from the programs in which a cells' VALUE depends on the NAME of its space (all
    # cached / the name-reading cells uncached), and renames every space that holds cells after every motif program
    "enum_motifs": S.MOTIFS_NAME, "space_renames": True,
}

RULE = ("random interleavings (14-30 ops) of edits (value assignment/clearing; references created, changed, shadowed, "
        "deleted in spaces and in the model, read by name and by attribute path; formula changes; cells and spaces "
        "created, deleted, renamed; bases added and removed) with evaluations; non-trivial = an evaluation after an "
        "edit returned a value different from the one the same query returned before the edit")


KNOWN_DEEP = "C02-caught-deep"
KNOWN_CAUGHT = "C02-caught-failure-untracked"


KNOWN_DELETED = "C02-deleted-object-in-formula-globals"


KNOWN_DELSPACE = "C02-deleted-space-uncached-cells"


KNOWN_NAMEREAD = "C02-space-name-read-through-reference"


def classify(deep_hit, live=None, query=None, result=None, want=None, ops=None):
    """known findings are recognised by their specific trigger"""
    if (live is not None and ops is not None and result and want and result.startswith("ok")
            and (want.startswith("ok") or want.startswith("err Formula Deleted"))
            and any(o and o[0] in ("rename_space", "del_space", "del_mref", "del_ref") for o in ops)
            and S.reads_space_name_through_reference(live)):
        # a space was renamed (or deleted) in a model one of whose formulas reads the NAME of a space through an
        # object-valued reference to it (`X.fullname`): no dependency is recorded for a read of an attribute of the
        # space object itself; `on_rename` / `on_delete` clear the cells of the spaces concerned only, the reader
        # elsewhere (and what was computed from it) keeps the value computed from the old name / the deleted space
        return KNOWN_NAMEREAD
    if (want is not None and want.startswith("err Formula Deleted") and result and result.startswith("ok")
            and ops is not None and S.deleted_space_held_uncached(ops)):
        # a space holding an uncached cells was deleted: on_delete clears the values the cells of the space
        # hold; an uncached cells holds none, and its object node - with what cached callers elsewhere computed
        # through it - stays in the trace graph
        return KNOWN_DELSPACE
    if want is not None and want.startswith("err Formula Deleted") and result and result.startswith("ok"):
        # a formula calls a cells (or reads a space) through a reference whose target has been deleted:
        # the globals of the formula still hold the bound method of the deleted implementation
        # (its space's namespace did not change), so it keeps acting on the orphaned object, while
        # a model that only saw the edits raises the deleted-object error
        return KNOWN_DELETED
    # (no formula of this vocabulary can catch the recursion-limit error; that finding is C01's)
    if live is not None and result is not None and result.startswith("ok"):
        # the held value is the value of the `except` branch of a formula that caught the failure
        # of a callee: modelx records no dependency on a callee that failed (the failed element
        # has no node), so a later edit that makes the callee succeed does not clear it
        try:
            src = live.space(query[0]).cells[query[1]].formula.source
        except Exception:
            return None
        import re
        m = re.search(r"except \(NameError, AttributeError, TypeError\):\s+return (-\d+)", src)
        if m and result == "ok " + m.group(1):
            return KNOWN_CAUGHT
    return None


class H(S.Hooks):
    def start(self, live, stats):
        self.last = {}
        deep_counter.install()
        self.deep_before = deep_counter.count

    def before(self, live, ops, k, op, stats):
        if op[0] in ("eval", "eval_item"):
            self.deep_before = deep_counter.count

    def after(self, live, ops, k, op, result, out, stats):
        if op[0] not in ("eval", "eval_item"):
            return
        q = tuple(op)
        cell = (op[1], op[2]) if op[0] == "eval" else (op[1], op[3])
        if q in self.last and self.last[q] != result and result.startswith("ok"):
            self.nontrivial = True
        self.last[q] = result
        deep0 = self.deep_before
        fresh = S.fresh_replay(ops, k)
        try:
            want = fresh.apply(op)
        finally:
            fresh.close()
        deep_hit = deep_counter.count > deep0
        stats["oracle_fresh_queries"] += 1
        if want != result and not ("Deep" in want or "Deep" in result):
            what = "%s.%s(%s)" % (op[1], op[2], op[3]) if op[0] == "eval" else "%s[%s].%s(%s)" % tuple(op[1:5])
            out.fail("%s returns %s but a model to which only the edits were applied returns %s" % (
                what, result, want), S.hist_json(ops, k), key=classify(deep_hit, live, cell, result, want, ops))

    def end(self, live, ops, out, stats):
        deep0 = deep_counter.count
        mine = S.eval_everything(live)
        fresh = S.fresh_replay(ops, len(ops))
        try:
            theirs = S.eval_everything(fresh)
        finally:
            fresh.close()
        stats["oracle_final_queries"] += len(mine)
        first = None
        for q, v in mine.items():
            w = theirs.get(q)
            if w is not None and w != v and not ("Deep" in w or "Deep" in v):
                p, rest = q.rsplit(".", 1)
                cn, arg = rest.split("(")[0], int(rest.split("(")[1][:-1])
                if p.endswith("]"):         # "S[key].c(x)": a cells of an ItemSpace
                    p, key = p[:-1].split("[")
                    last = ["eval_item", p, int(key), cn, arg]
                else:
                    last = ["eval", p, cn, arg]
                f = ("%s returns %s but a model to which only the edits were applied returns %s" % (q, v, w),
                     S.hist_json(ops + [last]), classify(deep_counter.count > deep0, live, (p, cn), v, w, ops))
                # one report per history: the first difference that is not a known finding, else the first one
                # (a known finding in front must not hide another difference of the same history)
                if first is None:
                    first = f
                if f[2] is None:
                    first = f
                    break
        if first is not None:
            out.fail(first[0], first[1], key=first[2])


editworld.hook(H)      # every struct history also runs on the combined machine (driver layer `edit`), as far as it is covered


# ----------------------------------------------------------------------------- value layer (mechanism model)

XCFG = {
    "weights": {"eval": 7, "reeval": 2, "set": 1, "clearat": 0.5, "clear": 0.3, "setref": 3, "delref": 0.6,
                "setformula": 1.5, "setcached": 0.5, "delcell": 1.6, "newcell": 1.6},
    "compare": ["values", "graph", "refgraph"],
    "space_p": 0.4, "no_try_p": 0.6, "maxdepths": [None], "raise_p": 0.03, "none_p": 0.02, "catch_all_p": 0.1,
    "min_ops": 10, "max_ops": 24, "min_cells": 3, "max_cells": 6, "absent_p": 0.15,
    "rule": "value layer: random programs (3-6 cells, cached and uncached, in two spaces; references read by name and "
            "through attribute paths from either space; cells called by name and through attribute paths) with "
            "histories of 10-24 evaluations, value edits, reference edits (change / delete / create), formula / "
            "cache-flag edits and cells deleted / created in either space; non-trivial = an evaluation after an "
            "edit returned a value different from the one the same query returned before",
}

X_EDITS = ("set", "clearat", "clearall", "setref", "delref", "setformula", "setcached", "delcell", "newcell",
           "shadow", "unshadow", "copycell", "copyspace")


def _short(res):
    """result without the traceback (a property of the path taken, not of the answer)"""
    return res.split(" tb=")[0]


def _has_try(case, upto):
    from ..expr import subexprs, parse_sexp
    bodies = [c["body"] for c in case["cells"]]
    bodies += [parse_sexp(" ".join(op[2:])) for op in case["ops"][:upto] if op[0] == "setformula"]
    bodies += [parse_sexp(" ".join(op[5:])) for op in case["ops"][:upto] if op[0] == "newcell"]
    return any(e[0] in ("try", "trx") for b in bodies for e in subexprs(b))


def xoracle(case, recs, out, stats):
    """every answer of the live model = the answer of a model to which only the edits were applied"""
    from .. import exec_props as X
    from ..execworld import ExecImpl
    last, nontrivial, edited = {}, False, False
    for k, rec in enumerate(recs):
        op = rec["op"]
        if op[0] in X_EDITS:
            edited = True
        if op[0] != "eval":
            continue
        q = tuple(op)
        got = _short(rec["impl"])
        if edited and q in last and last[q] != got and got.startswith("ok"):
            nontrivial = True
        last[q] = got
        fresh = ExecImpl(case["cells"], case["refs"], case["n_rn"], case["maxdepth"], log=False)
        try:
            for o in case["ops"][:k]:
                if o[0] in X_EDITS:
                    fresh.apply(o)
            want = _short(fresh.apply(op))
        finally:
            fresh.close()
        stats["oracle_fresh_queries"] += 1
        if want != got:
            # a formula that handles a failure (of a callee, of a read) keeps no record of what it depended on
            key = KNOWN_CAUGHT if _has_try(case, k) else None
            out.fail("%s returns %s but a model to which only the edits were applied returns %s" % (
                " ".join(op), got, want), X.case_json(dict(case, ops=case["ops"][:k + 1])), key=key)
            break
    return nontrivial


def scenario_cases(ctx):
    """Scenario family of the value layer: several readers of ONE reference (by name, by attribute path from the
    reference's own space and from the other one, directly and through an uncached cells), all evaluated; one reader
    is discarded by some edit (clear_at, clear, assignment, new formula, flag change); the reference is edited
    (changed, deleted, deleted and created again); everything is evaluated again.  Quick: a seeded sample."""
    cases = []
    for R in (0, 2):                      # reference of space 0 / of space 1
        rsp = 0 if R < 2 else 1
        for via_uncached in (False, True):
            for hit in ("clearat", "clear", "set", "setformula", "setcached"):
                for victim in (0, 1):
                    for edit in ("change", "delete", "recreate"):
                        cells = [
                            {"id": 0, "nparams": 0, "cached": True, "allow_none": False, "space": 0,
                             "body": ("add", ("ra", R), ("lit", 10))},
                            {"id": 1, "nparams": 0, "cached": not via_uncached, "allow_none": False, "space": 1 - rsp,
                             "body": ("add", ("ra", R), ("lit", 20))},
                            {"id": 2, "nparams": 0, "cached": True, "allow_none": False, "space": 0,
                             "body": ("add", ("call", 1, []), ("lit", 1))},
                            {"id": 3, "nparams": 0, "cached": True, "allow_none": False, "space": rsp,
                             "body": ("add", ("rn", R), ("call", 0, []))},
                        ]
                        ev = [["eval", "0"], ["eval", "2"], ["eval", "3"], ["eval", "1"]]
                        v = str(victim if not (via_uncached and victim == 1) else 2)
                        h = {"clearat": ["clearat", v], "clear": ["clear", v], "set": ["set", v, "=", "7"],
                             "setformula": ["setformula", v, "(add (ra %d) (lit 30))" % R],
                             "setcached": ["setcached", v, "0"]}[hit]
                        e = {"change": [["setref", str(R), "5"]], "delete": [["delref", str(R)]],
                             "recreate": [["delref", str(R)], ["setref", str(R), "6"]]}[edit]
                        cases.append({"cells": cells, "refs": {0: 1, 1: 2, 2: 3, 3: 4}, "n_rn": 2, "maxdepth": None,
                                      "ops": ev + [h] + e + ev,
                                      "label": "readers-of-one-reference/%s/%s/%s" % (hit, edit, "uncached" if via_uncached else "cached")})
    if ctx.tier != "thorough":
        cases = ctx.rng("scenarios").sample(cases, 36)
    cells_cases = cell_scenarios()
    if ctx.tier != "thorough":
        cells_cases = ctx.rng("scenarios-cells").sample(cells_cases, 20)
    from . import c09
    # a cached top above two / three uncached cells in a row, the leaf reading a reference of the OTHER space by
    # attribute path (the only record of the read is the reference graph), and the model-level forms
    chains = [c09.chain_case(n, form, ls, fl, flip) for n, form, ls, fl, flip in (
        (3, "ra-other", 0, (False, False, True), False), (4, "ra-other", 0, (False, False, False, True), True),
        (4, "ra-other", 0, (False, False, True, True), False), (3, "rg2", 0, (False, False, True), False))]
    from . import c08
    # a model-level reference read by name and through every attribute path, then changed / shadowed in the space the
    # read went through / deleted (implementation-only vocabulary: judged by the edits-only replay)
    names = [c for c in c08.visible_name_cases() if not c["label"].endswith("form 3")]
    return cases + cells_cases + input_then_redefined_cases() + chains + names      # 12 + 4 + 8 small cases


def cell_scenarios():
    """Scenario family: several callers of ONE cells `c0` (by name from its own space - cached, and through an
    uncached cells -, through an attribute path from the other space), cells of its space that do not depend on it
    (one with an assigned value), a cells of the other space that does not depend on it; everything evaluated;
    `c0` is deleted / deleted and created again with another formula / (absent at first) created; everything
    evaluated again.  The held values (with input marks), the trace graph and the reference graph are compared with
    the model after every step: what a deletion / creation clears is the closure of `c0`'s nodes AND every computed
    value of its space (namespace notification), nothing else."""
    cases = []
    for sp in (0, 1):                          # the space of c0
        for c0_cached in (True, False):
            for with_input in (False, True):   # an assigned value on c0 itself (must go with the cells)
                for edit in ("delete", "recreate", "create"):
                    for catching in (False, True):
                        if catching and edit != "create":
                            continue
                        if with_input and (not c0_cached or edit == "create"):
                            continue
                        call0 = ("call", 0, [])
                        cells = [
                            {"id": 0, "nparams": 0, "cached": c0_cached, "allow_none": False, "space": sp,
                             "body": ("add", ("lit", 10), ("ra", 0)), "absent": edit == "create"},
                            {"id": 1, "nparams": 0, "cached": True, "allow_none": False, "space": sp,
                             "body": ("add", ("try", call0, "k4", ("lit", -1)) if catching else call0, ("lit", 1))},
                            {"id": 2, "nparams": 0, "cached": True, "allow_none": False, "space": 1 - sp,
                             "body": ("add", ("try", call0, "k5", ("lit", -2)) if catching else call0, ("lit", 2))},
                            {"id": 3, "nparams": 0, "cached": False, "allow_none": False, "space": sp,
                             "body": ("add", call0, ("lit", 3))},
                            {"id": 4, "nparams": 0, "cached": True, "allow_none": False, "space": 1 - sp,
                             "body": ("add", ("call", 3, []), ("lit", 4))},
                            {"id": 5, "nparams": 1, "cached": True, "allow_none": False, "space": sp,
                             "body": ("add", ("p", 0), ("lit", 5))},
                            {"id": 6, "nparams": 0, "cached": True, "allow_none": False, "space": 1 - sp,
                             "body": ("lit", 6)},
                        ]
                        ev = [["eval", "1"], ["eval", "2"], ["eval", "4"], ["eval", "5", "2"], ["eval", "6"],
                              ["eval", "0"], ["eval", "3"]]
                        pre = [["set", "5", "1", "=", "77"]] + ([["set", "0", "=", "50"]] if with_input else [])
                        new = ["newcell", "0", str(int(c0_cached)), "0", "0", "(add (lit 20) (ra 0))"]
                        e = {"delete": [["delcell", "0"]], "recreate": [["delcell", "0"], ["eval", "1"], new],
                             "create": [new]}[edit]
                        cases.append({"cells": cells, "refs": {0: 1, 1: 2, 2: 3, 3: 4}, "n_rn": 2, "maxdepth": None,
                                      "ops": pre + ev + e + ev + [["delcell", "0"]] + ev,
                                      "label": "callers-of-one-cells/%s/%s/%s%s%s" % (
                                          edit, "space%d" % sp, "cached" if c0_cached else "uncached",
                                          "/input" if with_input else "", "/catching" if catching else "")})
    return cases


def input_then_redefined_cases():
    """exec_props.input_then_redefined_cases with an edit of the reference the recomputed element read by name as
    the last step (changed, deleted, deleted and created again)"""
    from .. import exec_props as X
    return X.input_then_redefined_cases({
        "change": lambda R: [["setref", str(R), "5"]], "delete": lambda R: [["delref", str(R)]],
        "recreate": lambda R: [["delref", str(R)], ["setref", str(R), "6"]]})


def run(ctx, out):
    from .. import exec_props as X
    sub = core.Outcome()
    xstats = X.run_family(ctx, sub, XCFG, xoracle, 70, 1500, corpus_name="C02exec", structured=scenario_cases(ctx))
    S.merge(out, sub)
    # thorough tier: also the program whose formulas read the NAME of another space through a reference (known finding
    # C02-space-name-read-through-reference; the quick tier has its two corpus witnesses - the check is at its time limit)
    cfg = dict(CFG, enum_motifs=S.MOTIFS_NAME + S.MOTIFS_NAME_REF) if ctx.tier == "thorough" else CFG
    S.run_struct(ctx, out, "C02", cfg, H, 60, 1200, RULE, ops_range=(14, 30))
    # histories inside the vocabulary of the combined machine (Edit/Machine.lean): compared to the end
    out.coverage["combined_machine"] = dict(editworld.run_family(ctx, out))
    out.coverage["value_layer_mechanism"] = sub.coverage
    out.coverage["evaluations"] = out.coverage.get("evaluations", 0) + sub.coverage.get("evaluations", 0)


SEARCH_CFG = dict(XCFG, weights={"eval": 6, "reeval": 5, "set": 2, "clearat": 3, "clear": 1, "setref": 5, "delref": 0.5,
                                  "setformula": 1, "setcached": 0.3},
                  no_try_p=1.0, min_ops=14, max_ops=26, min_cells=3, max_cells=6)


def search(ctx, out, extra):
    """the theorem or the correspondence no longer stands: look for a history on which the implementation itself
    breaks the property (value layer: try-free programs, many attribute-path reads, value edits followed by
    reference edits and re-evaluations), judged by the fresh-model oracle alone"""
    from .. import exec_props as X
    from ..execworld import ExecImpl
    stats = collections.Counter()
    # a disagreement with the combined machine (layer `edit`): the history on which modelx held more / less than the
    # machine, continued by evaluating everything, judged by the fresh-model oracle
    for d in out.disagreements:
        h = d.get("history")
        if isinstance(h, dict) and "ops" in h and str(d.get("layer", "")).startswith("edit:"):
            S.run_one(S.ops_from_json(h) + [["evalall"]], extra, stats, H(), CFG)
            if any(f.get("key") is None for f in extra.failures):
                return
    for i in range(ctx.n(120, 1500)):
        case = X.gen_case(ctx.rng("search", i), SEARCH_CFG)
        impl = ExecImpl(case["cells"], case["refs"], case["n_rn"], case["maxdepth"], log=False)
        try:
            recs = [{"op": op, "impl": impl.apply(op)} for op in case["ops"]]
        finally:
            impl.close()
        xoracle(case, recs, extra, stats)
        if any(f.get("key") is None for f in extra.failures):
            return


def replay(ctx, payload, out):
    h = payload.get("history")
    if isinstance(h, dict) and "cells_raw" in h:
        from .. import exec_props as X
        X.replay_family(ctx, payload, out, XCFG, xoracle)
        return
    S.replay_struct(payload, out, H, CFG)
