"""C02 – no stale value survives any edit.

Oracle (implementation only, the statement itself): random interleavings of every kind of
edit with evaluations; every value the live model returns is compared with the value
returned by a second modelx model to which only the edits were applied, with no evaluation
in between – after every evaluation, and for every cells of every space at the end.
The Lean side (Props/C02.lean) carries the theorem about the value layer's mechanism: the
clearing modelx performs for an edit keeps every surviving value equal to the uncached
denotation under the new definitions (see the property module for what is proved).
"""
import collections

from .. import core
from .. import structworld as W
from .. import struct_props as S
from ..impl import mx, close_all, quiet
from ..execworld import deep_counter

CFG = {
    "weights": {"new_space": 1.2, "del_space": 0.5, "new_cells": 2.5, "set_formula": 2.2, "set_cached": 0.5,
                "del_cells": 1.0, "rename_cells": 0.4, "add_bases": 1.2, "remove_bases": 0.8, "set_ref": 3.0,
                "del_ref": 1.0, "set_mref": 1.0, "del_mref": 0.3, "set_value": 1.0, "clear": 0.4,
                "eval": 6.0, "evalall": 0.8, "bad": 0.2, "set_param": 0.5, "eval_item": 1.0},
    # extended vocabulary (struct_props / structworld): formulas that call AND read, space formulas that read
    # references (parent's by attribute path, by name, ...), extended motif programs, the structured families
    # of edit sequences, more ways to clear one element
    "ext": True,
}

RULE = ("random interleavings (14-30 ops) of edits (value assignment/clearing; references created, changed, shadowed, "
        "deleted in spaces and in the model, read by name and by attribute path; formula changes; cells and spaces "
        "created, deleted, renamed; bases added and removed) with evaluations; non-trivial = an evaluation after an "
        "edit returned a value different from the one the same query returned before the edit")


KNOWN_DEEP = "C02-caught-deep"
KNOWN_CAUGHT = "C02-caught-failure-untracked"


KNOWN_DELETED = "C02-deleted-object-in-formula-globals"


KNOWN_DELSPACE = "C02-deleted-space-uncached-cells"


def classify(deep_hit, live=None, query=None, result=None, want=None, ops=None):
    """known findings are recognised by their specific trigger"""
    if (want is not None and want.startswith("err Formula Deleted") and result and result.startswith("ok")
            and ops is not None and S.deleted_space_held_uncached(ops)):
        # a space holding an uncached cells was deleted: on_delete clears the values the cells of the space
        # hold; an uncached cells holds none, and its object node - with what cached callers elsewhere computed
        # through it - stays in the trace graph
        return KNOWN_DELSPACE
    if want is not None and want.startswith("err Formula Deleted") and result and result.startswith("ok"):
        # a formula calls a cells (or reads a space) through a reference whose target has been deleted:
        # the globals of the formula still hold the bound method of the deleted implementation
        # (its space's namespace did not change), so it keeps acting on the orphaned object, while
        # a model that only saw the edits raises the deleted-object error
        return KNOWN_DELETED
    # (no formula of this vocabulary can catch the recursion-limit error; that finding is C01's)
    if live is not None and result is not None and result.startswith("ok"):
        # the held value is the value of the `except` branch of a formula that caught the failure
        # of a callee: modelx records no dependency on a callee that failed (the failed element
        # has no node), so a later edit that makes the callee succeed does not clear it
        try:
            src = live.space(query[0]).cells[query[1]].formula.source
        except Exception:
            return None
        import re
        m = re.search(r"except \(NameError, AttributeError, TypeError\):\s+return (-\d+)", src)
        if m and result == "ok " + m.group(1):
            return KNOWN_CAUGHT
    return None


class H(S.Hooks):
    def start(self, live, stats):
        self.last = {}
        deep_counter.install()
        self.deep_before = deep_counter.count

    def before(self, live, ops, k, op, stats):
        if op[0] in ("eval", "eval_item"):
            self.deep_before = deep_counter.count

    def after(self, live, ops, k, op, result, out, stats):
        if op[0] not in ("eval", "eval_item"):
            return
        q = tuple(op)
        cell = (op[1], op[2]) if op[0] == "eval" else (op[1], op[3])
        if q in self.last and self.last[q] != result and result.startswith("ok"):
            self.nontrivial = True
        self.last[q] = result
        deep0 = self.deep_before
        fresh = S.fresh_replay(ops, k)
        try:
            want = fresh.apply(op)
        finally:
            fresh.close()
        deep_hit = deep_counter.count > deep0
        stats["oracle_fresh_queries"] += 1
        if want != result and not ("Deep" in want or "Deep" in result):
            what = "%s.%s(%s)" % (op[1], op[2], op[3]) if op[0] == "eval" else "%s[%s].%s(%s)" % tuple(op[1:5])
            out.fail("%s returns %s but a model to which only the edits were applied returns %s" % (
                what, result, want), S.hist_json(ops, k), key=classify(deep_hit, live, cell, result, want, ops))

    def end(self, live, ops, out, stats):
        deep0 = deep_counter.count
        mine = S.eval_everything(live)
        fresh = S.fresh_replay(ops, len(ops))
        try:
            theirs = S.eval_everything(fresh)
        finally:
            fresh.close()
        stats["oracle_final_queries"] += len(mine)
        for q, v in mine.items():
            w = theirs.get(q)
            if w is not None and w != v and not ("Deep" in w or "Deep" in v):
                p, rest = q.rsplit(".", 1)
                cn, arg = rest.split("(")[0], int(rest.split("(")[1][:-1])
                if p.endswith("]"):         # "S[key].c(x)": a cells of an ItemSpace
                    p, key = p[:-1].split("[")
                    last = ["eval_item", p, int(key), cn, arg]
                else:
                    last = ["eval", p, cn, arg]
                out.fail("%s returns %s but a model to which only the edits were applied returns %s" % (q, v, w),
                         S.hist_json(ops + [last]),
                         key=classify(deep_counter.count > deep0, live, (p, cn), v, w, ops))
                break


def run(ctx, out):
    S.run_struct(ctx, out, "C02", CFG, H, 60, 1200, RULE, ops_range=(14, 30))


def replay(ctx, payload, out):
    S.replay_struct(payload, out, H, CFG)
