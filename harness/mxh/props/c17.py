"""C17 – the error traceback is exactly the chain that was executing.

Correspondence: `get_traceback()` node list and `get_error()` kind against the Lean model's
`lastTb`/`lastErr` after every op.
Oracle (implementation only): the chain of formula frames in the Python traceback of the
original exception (cells, arguments, line) – independent of modelx's `rolledback`
bookkeeping – must equal `get_traceback()` element by element, line by line.
"""
from .. import exec_props as X
from ..execworld import ExecImpl, node_s
from ..impl import mx, quiet, err_kind
from ..shadow import real_chain
from modelx.core.errors import FormulaError, NoneReturnedError

CFG = {
    "weights": {"eval": 10, "reeval": 2, "clearat": 0.5, "clear": 0.3},
    "compare": ["tb"],
    "maxdepths": [None, None, 5, 9],
    "raise_p": 0.12, "none_p": 0.06, "catch_all_p": 0.35,
    "rule": "random programs whose formulas fail at every position of chains through cached and uncached "
            "cells, with try/except around failing callees (handled failures) before and after the escaping "
            "one; non-trivial = an escaping failure of chain length >= 2 in a history that also had a handled failure",
}

KNOWN_LEAK = "C17-rolledback-leak"


def oracle(case, recs, out, stats):
    impl = ExecImpl(case["cells"], case["refs"], case["n_rn"], case["maxdepth"], log=False)
    nontrivial = False
    try:
        for k, op in enumerate(case["ops"]):
            if op[0] != "eval":
                impl.apply(op)
                continue
            c = impl.cells[int(op[1])]
            args = [None if a == "N" else int(a) for a in op[2:]]
            hist = X.case_json(dict(case, ops=case["ops"][:k + 1]))
            with quiet():
                try:
                    c(*args)
                    continue
                except FormulaError:
                    orig = mx.get_error()
                    tb = mx.get_traceback()
                except BaseException:
                    continue
            stats["oracle_tracebacks_examined"] += 1
            got = [(impl.cid_of(n.obj._impl), tuple(n.args), ln) for n, ln in tb]
            want = real_chain(orig)
            if isinstance(orig, NoneReturnedError):
                # raised by modelx after the formula returned: the last element has no frame
                want_nodes = [(c_, k_) for c_, k_, _ in want]
                if [(c_, k_) for c_, k_, _ in got[:len(want)]] != want_nodes or len(got) != len(want) + 1:
                    _report(out, got, want, hist, case, "NoneReturned")
                continue
            if len(want) >= 2 and X.has_catch_all(case):
                nontrivial = True
            if got != want:
                _report(out, got, want, hist, case, err_kind(orig))
    finally:
        impl.close()
    return nontrivial


def _report(out, got, want, hist, case, kind):
    gn = [(c, k) for c, k, _ in got]
    wn = [(c, k) for c, k, _ in want]
    key = None
    if gn[:len(wn)] == wn and len(gn) > len(wn) and all(ln == 0 for _, _, ln in got[len(wn):]) \
            and [ln for _, _, ln in got[:len(wn)]] == [ln for _, _, ln in want]:
        # the right chain followed by extra line-0 entries: nodes rolled back by failures that a
        # formula caught earlier (known finding unless repaired)
        key = KNOWN_LEAK
    out.fail("get_traceback() = %s but the executing chain of the %s was %s" % (
        [(node_s(c, k), ln) for c, k, ln in got], kind, [(node_s(c, k), ln) for c, k, ln in want]),
        hist, key=key)


def run(ctx, out):
    X.run_family(ctx, out, CFG, oracle, 200, 3000)
    out.assumptions.append("line numbers are CPython's; they are checked against the interpreter's own traceback of "
                           "the original exception by the oracle, not modelled in Lean")


def replay(ctx, payload, out):
    X.replay_family(ctx, payload, out, CFG, oracle)
