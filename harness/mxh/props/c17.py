"""C17 – the error traceback is exactly the chain that was executing.

Correspondence: `get_traceback()` node list and `get_error()` kind against the Lean model's
`lastTb`/`lastErr` after every op.
Oracle (implementation only): the chain of formula frames in the Python traceback of the
original exception (cells, arguments, line) – independent of modelx's `rolledback`
bookkeeping – must equal `get_traceback()` element by element, line by line.

Scenario families (enumerated on every run, before the random programs; same correspondence and oracle):
what the property says about *exceptions that formulas caught and handled themselves* – one top-level
evaluation in which formulas handle k failures of their callees and which then fails for good.  Varied:
k; the kinds of the handled and of the escaping exception (same kind / different kinds, NoneReturnedError,
DeepReferenceError, KeyboardInterrupt); `except Exception` or `except <kind>`; where the handling formula
sits (top of the escaping chain, inside it, beside it in a callee that completes, inside the chain of a
failure that is itself handled); raising in the handler, in the handling formula itself, through an
`except` that does not match; the shapes of the handled and of the escaping chain (length, cached /
uncached cells, formulas given as lambdas, recursion); earlier top-level failures and retries.
Family `blocks`: formulas that evaluate cells while an exception is passing through them – the block of
`except <kind>: audit(x); raise` and of `try: … finally: audit(x)` – so that elements complete normally between the
roll-back of the inner and of the outer part of the escaping chain.  Varied: the block kind and its `except`
clause (matching / catch-all / not matching), where it sits (top of the chain, inside it, at two levels, after
handled failures, inside the handler of another `try`, on the way out of a value), the audit (cached / uncached /
lambda / a chain / two calls / already held / handling a failure of its own inside / failing itself), the kind and
shape of the escaping chain, the history.
"""
import itertools

from .. import exec_props as X
from ..expr import lambda_ok
from ..execworld import ExecImpl, node_s
from ..impl import mx, quiet, err_kind
from ..shadow import real_chain
from .. import c05_argfail
from modelx.core.errors import FormulaError, NoneReturnedError

CFG = {
    "weights": {"eval": 10, "reeval": 2, "clearat": 0.5, "clear": 0.3},
    "compare": ["tb"],
    "model_obs": ["handled"],
    "maxdepths": [None, None, 5, 9],
    "raise_p": 0.12, "none_p": 0.06, "catch_all_p": 0.35,
    "fail_cell_p": 0.2, "handled_seq_p": 0.3, "lam_p": 0.25, "block_p": 0.07, "via_p": 0.12,
    "rule": "scenario families (k handled failures, then an escaping one, in ONE top-level evaluation: kinds, "
            "catch clauses, position of the handler, chain shapes through cached/uncached/lambda/recursive cells, "
            "earlier failures and retries; family `blocks`: a cells evaluated WHILE the exception passes through a "
            "formula - `except K: audit(x); raise` and `try … finally: audit(x)` at the top of / inside / at two "
            "levels of the escaping chain, audits that are cached, uncached, lambdas, chains, already held, that "
            "handle failures of their own, that fail) and random programs whose formulas fail at every position of chains "
            "through cached, uncached and lambda cells, with try/except around failing callees before and after "
            "the escaping failure; non-trivial = a program with an escaping failure of chain length >= 2 in a "
            "top-level evaluation in which formulas had handled at least one failure themselves (measured on the "
            "model's roll-back list, whose result agreed with the implementation)",
}

KNOWN_LEAK = "C17-rolledback-leak"


# ------------------------------------------------------------------------------ scenario families

P0 = ("p", 0)


def _lit(i):
    return ("lit", i)


def _call(c, arg):
    return ("call", c, [arg])


def _seq(first, rest):
    """evaluate the expressions of `first` in order, then `rest` (operands are evaluated left to right)"""
    for e in reversed(first):
        rest = ("add", e, rest)
    return rest


class _Prog:
    """program under construction; callees are defined before their callers (flavours: c = cached def,
    u = uncached def, l = cached lambda, v = uncached lambda – a lambda only when the body is an expression)"""

    def __init__(self):
        self.cells = []

    def cell(self, body, flav="c"):
        cid = len(self.cells)
        c = {"id": cid, "nparams": 1, "cached": flav in "cl", "allow_none": False, "body": body}
        if flav in "lv" and lambda_ok(body):
            c["lam"] = True
        self.cells.append(c)
        return cid

    def chain(self, flavs, kind):
        """A chain of cells that always fails, one letter of `flavs` per cells, outermost first; returns its head.
        kind: 0..6 = the innermost raises that exception; "noneret" = it returns None where that is not allowed;
        "deep" = it recurses beyond the recursion limit.  Flavour r (innermost only) = the innermost calls itself
        three more times before it fails."""
        inner = flavs[-1]
        if kind == "noneret":
            nxt, arg = self.cell(("none",), "l" if inner in "lv" else "c"), ("add", P0, _lit(1))
        elif kind == "deep":
            cid = len(self.cells)
            nxt = self.cell(("if", ("lt", _lit(0), P0), ("add", _call(cid, ("sub", P0, _lit(1))), _lit(1)), _lit(0)),
                            "c" if inner == "r" else inner)
            arg = _lit(40)
        elif inner == "r":
            cid = len(self.cells)
            nxt = self.cell(("if", ("lt", _lit(0), P0), _call(cid, ("sub", P0, _lit(1))), ("raise", kind)), "c")
            arg = _lit(3)
        else:
            nxt, arg = self.cell(("raise", kind), inner), ("add", P0, _lit(1))
        if len(flavs) == 1:
            if kind == "deep" or inner == "r":
                # give the recursion its start value
                return self.cell(_call(nxt, arg), "c")
            return nxt
        for f in reversed(flavs[:-1]):
            nxt, arg = self.cell(_call(nxt, arg), f), ("add", P0, _lit(1))
        return nxt


def _catch(kind, mode, i):
    if mode == "all" or (mode == "mix" and i % 2 == 0):
        return "all"
    return {"noneret": "noneret", "deep": "deep"}.get(kind) or "k%d" % kind


def scenario(label, khs, hflav, ke, eflav, pos, mode="mix", hist="full"):
    """khs: kinds of the failures that are handled, in order; ke: kind of the failure that escapes;
    hflav/eflav: shapes of the handled chains and of the escaping chain; pos: where the handling formula is"""
    P = _Prog()
    heads = {}
    for kh in khs:
        if kh not in heads:
            heads[kh] = P.chain(hflav, kh)
    E = P.chain(eflav, ke)
    tries = [("try", _call(heads[kh], ("add", P0, _lit(i))), _catch(kh, mode, i), _lit(i)) for i, kh in enumerate(khs)]
    esc = _call(E, P0)
    probe = [E, heads[khs[0]]]
    if pos == "top":            # the formula that was called handles, then calls the chain that fails
        top = P.cell(_seq(tries, esc))
    elif pos == "mid":          # the handling formula is inside the escaping chain
        mid = P.cell(_seq(tries, esc), "u" if len(khs) % 2 == 0 else "c")
        top = P.cell(_call(mid, P0), "l" if mode == "all" else "c")
    elif pos == "sib":          # the handling formula completes (its value is kept); its caller fails afterwards
        sib = P.cell(_seq(tries, _lit(7)), "u" if len(khs) % 2 == 0 else "c")
        top = P.cell(("add", _call(sib, P0), esc), "l" if mode == "all" else "c")
    elif pos == "afterok":      # a successful call between the handled failures and the escaping one
        okc = P.cell(("add", P0, _lit(1)), "l")
        top = P.cell(_seq(tries + [_call(okc, P0)], esc))
    elif pos == "self":         # the handling formula raises itself
        top = P.cell(_seq(tries, ("raise", ke) if isinstance(ke, int) else esc))
    elif pos == "inhandler":    # the escaping failure happens while the first handled exception is being handled
        t0 = tries[0]
        top = P.cell(("try", t0[1], t0[2], _seq(tries[1:], esc)))
    elif pos == "nested":       # the chain of a handled failure handled failures itself
        k0 = khs[0] if isinstance(khs[0], int) else 0
        inner = P.cell(_seq(tries, ("raise", k0)))
        top = P.cell(_seq([("try", _call(inner, P0), "all", _lit(0))], esc))
    elif pos == "nomatch":      # the escaping exception passes an `except` that does not match it
        other = "k%d" % ((ke + 1) % 4 if isinstance(ke, int) else 0)
        top = P.cell(_seq(tries, ("try", esc, other, _lit(0))))
    elif pos == "walk":         # a recursion that handles a failure on every level and fails at the bottom
        cid = len(P.cells)
        top = P.cell(("if", ("lt", _lit(0), P0), _seq(tries, _call(cid, ("sub", P0, _lit(1)))), esc),
                     "u" if mode == "all" else "c")
    else:
        raise ValueError(pos)
    t = str(top)
    if hist == "fresh":
        ops = [["eval", t, "1"]]
    else:
        # earlier top-level failures of both chains, the evaluation, the same again (nothing of a failed evaluation
        # is kept, so it fails the same way), another argument, and again after clearing
        ops = [["eval", str(probe[0]), "2"], ["eval", str(probe[1]), "1"], ["eval", t, "1"], ["eval", t, "1"],
               ["eval", t, "3" if pos == "walk" else "2"], ["clear", t], ["eval", t, "1"]]
    return {"cells": P.cells, "refs": {0: 1, 1: 2, 2: 3, 3: 4}, "n_rn": 2,
            "maxdepth": 12 if ("deep" in khs or ke == "deep") else None, "ops": ops, "label": label}


AUDITS = ["c", "u", "l", "v", "cc", "uc", "2", "h", "hu", "held", "f", "fu"]
WHERES = ["top", "mid", "midu", "both", "afterhandled", "inhandler", "value"]
BLOCKS = ["re-all", "re-kind", "re-nomatch", "fin"]


def block_scenario(label, ke, eflav, where, block, audit, hist="full"):
    """One evaluation whose escaping chain passes through a formula that evaluates cells in an except-reraise /
    finally block.  ke/eflav: kind and shape of the escaping chain; where: position of the block; block: its kind;
    audit: what the block evaluates."""
    P = _Prog()
    E = P.chain(eflav, ke)
    H = P.chain("c", 1)                       # a failing cells for audits that handle a failure themselves
    body = ("add", P0, _lit(100))
    if audit in ("c", "u", "l", "v"):
        A = P.cell(body, audit)
    elif audit in ("cc", "uc"):
        A = P.cell(("add", _call(P.cell(body, "c"), P0), _lit(1)), audit[0])
    elif audit in ("h", "hu"):
        A = P.cell(_seq([("try", _call(H, P0), "all", _lit(0)), ("try", _call(H, ("add", P0, _lit(1))), "k1", _lit(0))],
                        body), "c" if audit == "h" else "u")
    elif audit in ("f", "fu"):
        A = P.chain("cc" if audit == "f" else "uc", 2)
    else:           # "2", "held"
        A = P.cell(body, "c")
    bexpr = _call(A, ("add", P0, _lit(2)))
    if audit == "2":
        bexpr = ("add", bexpr, _call(P.cell(("mul", P0, _lit(3)), "u"), P0))

    def blk(x):
        if block == "fin":
            return ("tryfin", x, bexpr)
        if block == "re-all":
            c = "all"
        elif block == "re-nomatch":
            c = "k%d" % ((ke + 1) % 4 if isinstance(ke, int) else 0)
        else:
            c = {"noneret": "noneret", "deep": "deep"}.get(ke) or ("k%d" % ke if ke != 6 else "k0")
        return ("tryre", x, c, bexpr)

    esc = _call(E, P0)
    tries = [("try", _call(H, ("add", P0, _lit(5 + i))), ("all", "k1")[i % 2], _lit(i)) for i in range(2)]
    if where == "top":
        top = P.cell(blk(esc))
    elif where in ("mid", "midu"):
        mid = P.cell(("add", blk(esc), _lit(1)), "u" if where == "midu" else "c")
        top = P.cell(_call(mid, P0))
    elif where == "both":
        mid = P.cell(blk(esc), "c")
        top = P.cell(blk(_call(mid, P0)))
    elif where == "afterhandled":
        top = P.cell(_seq(tries, blk(esc)))
    elif where == "inhandler":
        top = P.cell(("try", _call(H, P0), "all", blk(esc)))
    elif where == "value":      # the block on the way out of a VALUE, the failure afterwards
        okc = P.cell(("add", P0, _lit(1)), "c")
        top = P.cell(_seq([blk(_call(okc, P0))], esc))
    else:
        raise ValueError(where)
    t = str(top)
    pre = [["eval", str(A), "3"]] if audit == "held" else []
    if hist == "fresh":
        ops = pre + [["eval", t, "1"]]
    else:
        ops = [["eval", str(E), "2"]] + pre + [["eval", t, "1"], ["eval", t, "1"], ["eval", t, "2"], ["clear", str(A)],
                                             ["eval", t, "1"], ["eval", str(H), "1"], ["eval", t, "4"]]
    return {"cells": P.cells, "refs": {0: 1, 1: 2, 2: 3, 3: 4}, "n_rn": 2,
            "maxdepth": 14 if ke == "deep" else None, "ops": ops, "label": label}


def block_scenarios(rng, n_random):
    out = []

    def add(ke, ef, where, block, audit, hist="full"):
        out.append(block_scenario("blocks/esc=%s e=%s %s %s audit=%s %s" % (ke, ef, where, block, audit, hist),
                                  ke, ef, where, block, audit, hist))
    # position x block kind (plain cached audit), audits x block kind (inside the chain)
    for where, block in itertools.product(WHERES, BLOCKS):
        add(0, "cc", where, block, "c")
    for audit, block in itertools.product(AUDITS, ("re-all", "fin", "re-kind")):
        add(1, "uc", "mid", block, audit)
    # kinds and shapes of the escaping chain
    for i, ke in enumerate([0, 1, 2, 3, 6, "noneret", "deep"]):
        for j, block in enumerate(("re-all", "re-kind", "fin")):
            add(ke, SHAPES[(i + j) % len(SHAPES)], ("mid", "top", "both")[(i + j) % 3], block, AUDITS[(2 * i + j) % 6])
    for where in ("top", "mid"):
        for block in ("re-kind", "fin"):
            add(0, "c", where, block, "u", "fresh")
    kinds_e = [0, 1, 2, 3, 6, "noneret", "deep"]
    for _ in range(n_random):
        add(rng.choice(kinds_e), rng.choice(ALL_SHAPES), rng.choice(WHERES), rng.choice(BLOCKS), rng.choice(AUDITS),
            rng.choice(["full", "full", "fresh"]))
    return out


def _via(kind, e):
    return e if kind is None else ("via", kind, e)


def frame_scenario(label, links, ke, shape="chain", hist="full"):
    """The escaping chain passes through extra plain Python frames that belong to the formulas.
    links: outermost first, one (flavour, via kind or None) per cells of the chain; the via of the innermost cells
    wraps what fails, every other one wraps the call of the next cells (kind "def+gen": a generator expression inside
    a nested def).  ke: kind of the failure (0..6, "noneret", "deep").
    shape: "chain"; "resumed" = every caller first makes a call that succeeds inside a frame of the same kind;
    "shared" = the succeeding and the failing call share ONE extra frame; "handled" = every caller first handles a
    failure that reached it through such a frame; "inblock" = the frame sits in the body and in the block of an
    except-reraise."""
    P = _Prog()
    okc = P.cell(("add", P0, _lit(1)), "c")
    H = P.chain("c", 1)

    def wrap(kind, e):
        if kind is not None and not lambda_ok(e):
            return ("via", "def", e)        # statements (raise KeyboardInterrupt, try) need a def
        if kind == "def+gen":
            return ("via", "def", ("add", ("via", "gen", e), _lit(0)))
        return _via(kind, e)

    flav, kind = links[-1]
    lam = flav in "lv"
    if ke == "noneret":
        inner = P.cell(("none",), "l" if lam else "c")
        nxt = P.cell(wrap(kind, _call(inner, P0)), flav)
    elif ke == "deep":
        cid = len(P.cells)
        nxt = P.cell(("if", ("lt", _lit(0), P0), ("add", wrap(kind, _call(cid, ("sub", P0, _lit(1)))), _lit(1)), _lit(0)),
                     flav)
        nxt = P.cell(_call(nxt, _lit(40)), "c")
    else:
        nxt = P.cell(wrap(kind, ("raise", ke)), flav)
    for i, (flav, kind) in enumerate(reversed(links[:-1])):
        call = wrap(kind, _call(nxt, ("add", P0, _lit(1))))
        if shape == "resumed":
            body = ("add", wrap(kind, _call(okc, P0)), call)
        elif shape == "shared" and kind is not None:
            body = wrap(kind, ("add", _call(okc, P0), _call(nxt, ("add", P0, _lit(1)))))
        elif shape == "handled":
            body = _seq([("try", wrap(kind, _call(H, ("add", P0, _lit(i)))), ("all", "k1")[i % 2], _lit(i))], call)
        elif shape == "inblock" and kind != "def+gen":
            body = ("tryre", call, "all", wrap(kind, _call(okc, ("add", P0, _lit(7)))))
        else:
            body = ("add", call, _lit(1))
        nxt = P.cell(body, flav)
    t = str(nxt)
    if hist == "fresh":
        ops = [["eval", t, "1"]]
    else:
        ops = [["eval", str(H), "1"], ["eval", t, "1"], ["eval", t, "1"], ["eval", t, "2"], ["clear", str(okc)],
               ["eval", t, "1"]]
    return {"cells": P.cells, "refs": {0: 1, 1: 2, 2: 3, 3: 4}, "n_rn": 2,
            "maxdepth": 12 if ke == "deep" else None, "ops": ops, "label": label}


FRAME_KINDS = ["gen", "comp", "lam", "map", "sorted", "def"]


def frame_scenarios(rng, n_random):
    out = []

    def add(links, ke, shape="chain", hist="full"):
        out.append(frame_scenario("frames/%s esc=%s %s %s" % (
            " ".join("%s:%s" % (f, k or "-") for f, k in links), ke, shape, hist), links, ke, shape, hist))
    # every kind of frame x where it sits in a chain of three x cached / uncached
    for K in FRAME_KINDS + ["def+gen"]:
        for where in ("top", "mid", "leaf", "all"):
            for f in "cu":
                add([(f, K if where in ("top", "all") else None), (f, K if where in ("mid", "all") else None),
                     ("c", K if where in ("leaf", "all") else None)], 0 if f == "c" else 1)
    # two different kinds in consecutive links, longer chains
    for i, K1 in enumerate(FRAME_KINDS):
        for j in (1, 3):
            K2 = FRAME_KINDS[(i + j) % len(FRAME_KINDS)]
            add([("c", K1), ("u" if j == 1 else "c", K2), ("c", None), ("c", K1 if j == 3 else None)], (i + j) % 4)
    # the frame is left and entered again / shared / follows handled failures / sits around and in a reraise block
    for i, K in enumerate(FRAME_KINDS + ["def+gen"]):
        for shape in ("resumed", "shared", "handled", "inblock"):
            add([("c", K), ("cu"[i % 2], K), ("c", None)], i % 4, shape)
    # kinds of the failure; formulas given as lambdas (expression frames only)
    for i, K in enumerate(FRAME_KINDS):
        add([("c", K), ("c", K), ("c", K)], "noneret")
        add([("c", None), ("c", K)], "deep")
        add([("c", K), ("c", None), ("c", None)], 6)
    for K in ("gen", "comp", "lam", "map"):
        add([("l", K), ("v", K), ("l", K)], 2)
        add([("c", K), ("l", None), ("c", None)], 0, "chain", "fresh")
    shapes = ["chain", "chain", "resumed", "shared", "handled", "inblock"]
    for _ in range(n_random):
        n = rng.choice([2, 3, 3, 4, 5])
        links = [(rng.choice("ccu"), rng.choice(FRAME_KINDS + ["def+gen", None])) for _ in range(n)]
        add(links, rng.choice([0, 1, 2, 3, 6, "noneret", "deep"]), rng.choice(shapes), rng.choice(["full", "full", "fresh"]))
    return out


def _khs(kh, ke, k):
    """k handled kinds: the first of kind kh, then alternating with the kind that will escape (when a formula can
    handle it) – both `same kind as the escaping one` and `another kind` occur among the handled ones"""
    alt = ke if (ke in (0, 1, 2, 3, "noneret") and ke != kh) else (kh if not isinstance(kh, int) else (kh + 1) % 4)
    return [kh if i % 2 == 0 else alt for i in range(k)]


CORE_PAIRS = [(0, 0), (1, 1), (0, 1), (1, 0)]
MORE_PAIRS = [(2, 2), (3, 3), (2, 1), (3, 0), (0, 6), (1, "noneret"), ("noneret", 0), ("noneret", "noneret"),
              ("deep", 0), (0, "deep"), ("deep", "deep")]
SHAPES = ["c", "u", "l", "cu", "lc", "uv", "r", "ccc"]
ALL_SHAPES = SHAPES + ["v", "uc", "cl", "ur", "lr", "culc", "vvv"]
POSITIONS = ["top", "mid", "sib", "afterok", "self", "inhandler", "nested", "nomatch", "walk"]


def scenarios(rng, n_random):
    out = []

    def add(family, khs, hf, ke, ef, pos, mode="mix", hist="full"):
        out.append(scenario("%s/k=%s esc=%s h=%s e=%s %s %s" % (family, khs, ke, hf, ef, pos, mode),
                            khs, hf, ke, ef, pos, mode, hist))
    # kinds x number of handled failures x position of the handler
    for (kh, ke), k, pos in itertools.product(CORE_PAIRS, (1, 2, 3), ("top", "mid", "sib")):
        add("kinds", _khs(kh, ke, k), "cc", ke, "cc", pos, ("all", "kind", "mix")[k - 1])
    for i, (kh, ke) in enumerate(MORE_PAIRS):
        for k in (1, 2):
            add("kinds", _khs(kh, ke, k), "cc", ke, "cc", ("top", "mid", "sib")[(i + k) % 3], ("kind", "all")[k - 1])
    # shapes of the handled chain x shapes of the escaping chain
    for (i, hf), (j, ef) in itertools.product(enumerate(SHAPES), enumerate(SHAPES)):
        kh, ke = CORE_PAIRS[(i + j) % 2]
        add("shapes", _khs(kh, ke, 1 + (i + j) % 2), hf, ke, ef, ("top", "mid")[(i // 2 + j) % 2], ("all", "kind")[j % 2])
    # other places where the escaping failure can arise
    for pos, (kh, ke), k in itertools.product(("afterok", "self", "inhandler", "nested", "nomatch", "walk"),
                                              ((0, 0), (1, 1), (0, 1)), (1, 2)):
        add("places", _khs(kh, ke, k), "cu", ke, "uc", pos, ("kind", "all")[k - 1])
    # many handled failures
    for kh, ke in ((0, 0), (1, 1), (2, 0)):
        add("many", _khs(kh, ke, 7), "cr", ke, "cc", "top", "all")
    # a fresh model with nothing before the evaluation
    for (kh, ke), pos in itertools.product(CORE_PAIRS, ("top", "mid")):
        add("fresh", _khs(kh, ke, 1), "c", ke, "cc", pos, "all", "fresh")
    # this run's draws from the full product
    kinds_h = [0, 1, 2, 3, "noneret", "deep"]
    kinds_e = [0, 1, 2, 3, 6, "noneret", "deep"]
    for _ in range(n_random):
        kh, ke = rng.choice(kinds_h), rng.choice(kinds_e)
        if rng.random() < 0.5 and ke in kinds_h:
            kh = ke
        add("drawn", _khs(kh, ke, rng.choice([1, 1, 2, 3, 4])), rng.choice(ALL_SHAPES), ke, rng.choice(ALL_SHAPES),
            rng.choice(POSITIONS), rng.choice(["all", "kind", "mix"]), rng.choice(["full", "full", "fresh"]))
    return out


# ------------------------------------------------------------------------------ histories with shared exception objects

EXC_HOLDERS = {
    # how a formula gets at the exception object it raises: (expression, exception class); "fresh" creates one per raise
    "name": ("E0", ValueError), "path": ("P.E1", KeyError), "model": ("E2", ValueError), "cells": ("held()", KeyError),
    "global-path": ("_model.E3", ZeroDivisionError), "fresh": ("ValueError(x)", ValueError),
}


def gen_shared_program(rng, holders=None):
    """cells (dependency order): raisers `rK` (raise an exception object held by a reference / a cached value, or a fresh
    one), callers `mK` (call a lower cells, cached or not), handlers `sK` (try a lower cells, on failure return -1 or
    call ANOTHER lower cells, whose failure escapes), one value cells"""
    hs = holders or [rng.choice(sorted(EXC_HOLDERS)) for _ in range(3)]
    cells = [{"name": "v", "kind": "value", "cached": True}]
    for i, h in enumerate(hs):
        cells.append({"name": "r%d" % i, "kind": "raise", "holder": h, "cached": rng.random() < 0.8})
    for i in range(rng.randrange(2, 5)):
        cells.append({"name": "m%d" % i, "kind": "call", "callee": rng.choice(cells[1:])["name"],
                      "cached": rng.random() < 0.7})
    for i in range(rng.randrange(2, 4)):
        failing = [c for c in cells if c["kind"] in ("raise", "call")]
        cells.append({"name": "s%d" % i, "kind": "safe", "callee": rng.choice(failing)["name"],
                      "after": rng.choice([None, None, rng.choice(cells)["name"]]), "cached": rng.random() < 0.7})
        if rng.random() < 0.5:
            cells.append({"name": "t%d" % i, "kind": "call", "callee": cells[-1]["name"], "cached": True})
    return cells


def shared_text(c):
    n = c["name"]
    if c["kind"] == "value":
        return "def %s(x):\n    return x\n" % n
    if c["kind"] == "raise":
        return "def %s(x):\n    y = x + 1\n    raise %s\n" % (n, EXC_HOLDERS[c["holder"]][0])
    if c["kind"] == "call":
        return "def %s(x):\n    return %s(x) + 1\n" % (n, c["callee"])
    return "def %s(x):\n    try:\n        return %s(x)\n    except Exception:\n        return %s\n" % (
        n, c["callee"], "%s(x) + 2" % c["after"] if c["after"] else "-1")


def shared_spec(cells, name, x):
    """what the definitions say, by the harness' own reading: ("ok",) or ("err", chain [(cells, (x,), line)] outermost
    first, holder) - independent of any earlier evaluation (held values are never part of a failing chain)"""
    c = next(k for k in cells if k["name"] == name)
    if c["kind"] == "value":
        return ("ok",)
    if c["kind"] == "raise":
        return ("err", [(name, (x,), 3)], c["holder"])
    if c["kind"] == "call":
        r = shared_spec(cells, c["callee"], x)
        return r if r[0] == "ok" else ("err", [(name, (x,), 2)] + r[1], r[2])
    r = shared_spec(cells, c["callee"], x)
    if r[0] == "ok" or not c["after"]:
        return ("ok",)
    r = shared_spec(cells, c["after"], x)
    return r if r[0] == "ok" else ("err", [(name, (x,), 5)] + r[1], r[2])


KNOWN_SHARED_HANDLED = "C17-shared-exception-handled-then-escaping"


def shared_handled(cells, name, x):
    """holders of the failures that formulas HANDLE in the evaluation of name(x) when nothing is held yet (from the
    definitions alone)"""
    c = next(k for k in cells if k["name"] == name)
    if c["kind"] in ("value", "raise"):
        return set()
    if c["kind"] == "call":
        return shared_handled(cells, c["callee"], x)
    r = shared_spec(cells, c["callee"], x)
    res = shared_handled(cells, c["callee"], x)
    if r[0] == "err":
        res = res | {r[2]}
        if c["after"]:
            res |= shared_handled(cells, c["after"], x)
    return res


def run_shared_history(h, out, stats):
    """a HISTORY of top-level evaluations - successful ones (in which formulas handled failures) and failing ones - over
    formulas that raise exception objects shared between evaluations; after every failing evaluation `get_traceback()`
    must be the chain of THIS evaluation (cells, arguments, line), `get_error()` the object raised, and the message of
    the FormulaError must list as many formula frames"""
    import re
    from ..impl import close_all
    cells = h["cells"]
    close_all()
    try:
        with quiet():
            m = mx.new_model("T")
            s = m.new_space("S")
            P = m.new_space("P")
            objs = {"name": ValueError("shared E0"), "path": KeyError("shared E1"), "model": ValueError("shared E2"),
                    "cells": KeyError("shared held"), "global-path": ZeroDivisionError("shared E3")}
            s.E0, P.E1, m.E2, m.E3, s.P = objs["name"], objs["path"], objs["model"], objs["global-path"], P
            s.HELD = objs["cells"]
            s.new_cells("held", formula="def held():\n    return HELD\n")
            for c in cells:
                s.new_cells(c["name"], formula=shared_text(c)).is_cached = c["cached"]
            for k, (name, x) in enumerate(h["evals"]):
                want = shared_spec(cells, name, x)
                hist = dict(h, evals=h["evals"][:k + 1])
                stats["shared_exc_evaluations"] += 1
                try:
                    s.cells[name](x)
                    got = ("ok",)
                except FormulaError as fe:
                    err, tb = mx.get_error(), mx.get_traceback()
                    got = ("err", [(n.obj.name, tuple(n.args), ln) for n, ln in tb])
                    msg_frames = len(re.findall(r"^\d+: ", str(fe), re.M))
                except BaseException as e:      # noqa: BLE001
                    out.fail("%s(%d) ended in %s(%s) instead of a value or FormulaError" % (name, x, type(e).__name__, e), hist)
                    return False
                if want[0] == "ok":
                    if got[0] != "ok":
                        out.fail("%s(%d) failed (traceback %s); its definitions handle every failure" % (name, x, got[1]), hist)
                        return False
                    continue
                stats["shared_exc_failures_examined"] += 1
                if got[0] == "ok":
                    out.fail("%s(%d) returned a value; by its definitions it fails with the chain %s" % (name, x, want[1]), hist)
                    return False
                if got[1] != want[1]:
                    # known finding, recognised from the DEFINITIONS: within this one evaluation a formula handles a
                    # failure carrying the very exception object that escapes later, and the report is the executing
                    # chain followed by extra nodes.  Anything else (extra nodes without such a handler in the
                    # evaluation - left over from EARLIER evaluations -, a wrong prefix, missing nodes) is a violation
                    known = (want[2] != "fresh" and want[2] in shared_handled(cells, name, x)
                             and got[1][:len(want[1])] == want[1] and len(got[1]) > len(want[1]))
                    out.fail("get_traceback() after %s(%d) = %s but the chain executing at the escaping raise of THIS "
                             "evaluation was %s (exception object: %s)" % (name, x, got[1], want[1], want[2]), hist,
                             key=KNOWN_SHARED_HANDLED if known else None)
                    if known:
                        continue
                    return False
                if msg_frames != len(want[1]):
                    out.fail("the FormulaError of %s(%d) lists %d formula frames, the executing chain had %d" % (
                        name, x, msg_frames, len(want[1])), hist)
                    return False
                if (err is not objs[want[2]]) if want[2] != "fresh" else (type(err) is not ValueError or err.args != (x,)):
                    out.fail("get_error() after %s(%d) is %r, not the exception raised (%s)" % (name, x, err, want[2]), hist)
                    return False
    finally:
        close_all()
    return True


def shared_exception_histories(ctx, out, stats):
    import random
    hists = []
    # motifs: every holder x (handled in a successful evaluation | escaped) then the same object escaping again,
    # through the same chain, a longer one, another raiser of the same object
    for holder in sorted(EXC_HOLDERS):
        cells = [{"name": "v", "kind": "value", "cached": True},
                 {"name": "r0", "kind": "raise", "holder": holder, "cached": True},
                 {"name": "r1", "kind": "raise", "holder": holder, "cached": False},
                 {"name": "m0", "kind": "call", "callee": "r0", "cached": True},
                 {"name": "m1", "kind": "call", "callee": "m0", "cached": False},
                 {"name": "s0", "kind": "safe", "callee": "m0", "after": None, "cached": True},
                 {"name": "s1", "kind": "safe", "callee": "m1", "after": "r1", "cached": True},
                 {"name": "s2", "kind": "safe", "callee": "r0", "after": "v", "cached": False}]
        for evals in ([["s0", 1], ["m0", 2]], [["s0", 1], ["r1", 7]], [["s0", 1], ["s2", 2], ["m1", 3], ["m0", 3]],
                      [["m0", 1], ["s0", 2], ["m1", 3]], [["s1", 1], ["s0", 2], ["s1", 3], ["r0", 4]],
                      [["s0", 1], ["s0", 1], ["v", 1], ["m1", 1]]):
            hists.append({"scenario": "shared-exception", "cells": cells, "evals": evals})
    for i in range(ctx.n(60, 1500)):
        rng = ctx.rng("shared-exc", i)
        # two of three programs use ONE holder for all raisers (every failure is the same object)
        cells = gen_shared_program(rng, [rng.choice(sorted(EXC_HOLDERS))] * 3 if rng.random() < 0.66 else None)
        names = [c["name"] for c in cells]
        hists.append({"scenario": "shared-exception", "cells": cells,
                      "evals": [[rng.choice(names), rng.randrange(4)] for _ in range(rng.randrange(4, 11))]})
    for h in hists:
        stats["shared_exc_histories"] += 1
        if not run_shared_history(h, out, stats):
            stats["shared_exc_failed"] += 1
            if stats["shared_exc_failed"] >= 3:
                break
    stats.pop("shared_exc_failed", None)


def oracle(case, recs, out, stats):
    impl = ExecImpl(case["cells"], case["refs"], case["n_rn"], case["maxdepth"], log=False)
    nontrivial = False
    # formula frames are recognised by their code objects (the frames of lambda formulas have no name of their own)
    codes = {id(c._impl.formula.func.__code__): cid for cid, c in impl.cells.items()}
    try:
        for k, op in enumerate(case["ops"]):
            if op[0] != "eval":
                impl.apply(op)
                continue
            c = impl.cells[int(op[1])]
            args = [None if a == "N" else int(a) for a in op[2:]]
            hist = X.case_json(dict(case, ops=case["ops"][:k + 1]))
            with quiet():
                try:
                    c(*args)
                    continue
                except FormulaError:
                    orig = mx.get_error()
                    tb = mx.get_traceback()
                except BaseException as ex:
                    if not _inside_start_exec(ex):
                        continue        # refused before anything ran (wrong arity at top level)
                    # the evaluation ran and failed, but what came out is not the FormulaError
                    stats["oracle_tracebacks_examined"] += 1
                    orig = mx.get_error()
                    chain = real_chain(orig, codes) if orig is not None else []
                    out.fail("the failing evaluation raised %s(%s) instead of FormulaError; get_traceback() = %s, the "
                             "executing chain of the %s was %s" % (
                                 type(ex).__name__, ex, [(node_s(impl.cid_of(n.obj._impl), tuple(n.args)), ln)
                                                         for n, ln in mx.get_traceback()],
                                 err_kind(orig) if orig is not None else "?",
                                 [(node_s(c_, k_), ln) for c_, k_, ln in chain]), hist)
                    continue
            stats["oracle_tracebacks_examined"] += 1
            got = [(impl.cid_of(n.obj._impl), tuple(n.args), ln) for n, ln in tb]
            want = real_chain(orig, codes)
            handled = recs[k]["obs"].get("handled", ["", "handled 0 0 0"])[1].split() if k < len(recs) else []
            after_handled = len(handled) == 4 and int(handled[2]) > 0
            if after_handled:
                stats["oracle_tracebacks_after_handled_failures"] += 1
            if isinstance(orig, NoneReturnedError):
                # raised by modelx after the formula returned: the last element has no frame
                want_nodes = [(c_, k_) for c_, k_, _ in want]
                if [(c_, k_) for c_, k_, _ in got[:len(want)]] != want_nodes or len(got) != len(want) + 1:
                    _report(out, got, want, hist, case, "NoneReturned")
                continue
            if len(want) >= 2 and after_handled:
                nontrivial = True
            if got != want:
                _report(out, got, want, hist, case, err_kind(orig))
    finally:
        impl.close()
    return nontrivial


def _inside_start_exec(ex):
    tb = ex.__traceback__
    while tb is not None:
        if tb.tb_frame.f_code.co_name == "_start_exec":
            return True
        tb = tb.tb_next
    return False


def _report(out, got, want, hist, case, kind):
    gn = [(c, k) for c, k, _ in got]
    wn = [(c, k) for c, k, _ in want]
    key = None
    if gn[:len(wn)] == wn and len(gn) > len(wn) and all(ln == 0 for _, _, ln in got[len(wn):]) \
            and [ln for _, _, ln in got[:len(wn)]] == [ln for _, _, ln in want]:
        # the right chain followed by extra line-0 entries: nodes rolled back by failures that a
        # formula caught earlier (known finding unless repaired)
        key = KNOWN_LEAK
    out.fail("get_traceback() = %s but the executing chain of the %s was %s" % (
        [(node_s(c, k), ln) for c, k, ln in got], kind, [(node_s(c, k), ln) for c, k, ln in want]),
        hist, key=key)


ARGFAIL_ASPECTS = ("carry", "traceback")


def run(ctx, out):
    stats = X.run_family(ctx, out, CFG, oracle, 200, 3000,
                 structured=scenarios(ctx.rng("scenarios"), ctx.n(40, 400)) +
                 block_scenarios(ctx.rng("blocks"), ctx.n(30, 400)) +
                 frame_scenarios(ctx.rng("frames"), ctx.n(30, 400)))
    shared_exception_histories(ctx, out, stats)
    for k in ("shared_exc_histories", "shared_exc_evaluations", "shared_exc_failures_examined"):
        out.coverage["input_distribution"][k] = stats[k]
    # chains through cells called with arguments of every kind (unhashable ones: uncached cells): get_error() is the original
    # exception, get_traceback() is obtainable, printable and lists (element, arguments, line) of the executing chain
    c05_argfail.run_all(ctx, out, stats, "C17", ARGFAIL_ASPECTS, n_random=ctx.n(20, 400), fresh_every=10 ** 9)
    for k in sorted(stats):
        if k.startswith("argfail"):
            out.coverage["input_distribution"][k] = stats[k]
    out.coverage["rule"] += ("; histories of top-level evaluations (successful ones in which formulas handled failures, failing "
                             "ones) over formulas raising exception OBJECTS shared between evaluations (held by a reference "
                             "read by name / path / at model level, by a cached value) - expected chain from the "
                             "definitions alone; family arg-failure (harness/mxh/c05_argfail.py): chains through a cached / "
                             "uncached callee called with an int / str / tuple / list / dict / set, failing itself or 1-3 cells "
                             "below, called directly or by a cached / uncached caller building the argument, eight exception "
                             "kinds, histories with earlier failures and successes - traceback entries compared by (element, "
                             "arguments by equality, line) and repr()'d")
    out.assumptions.append("line numbers are CPython's; they are checked against the interpreter's own traceback of "
                           "the original exception by the oracle, not modelled in Lean")


def replay(ctx, payload, out):
    import collections
    h = payload.get("history") or {}
    if isinstance(h, dict) and h.get("scenario") == "shared-exception":
        run_shared_history(h, out, collections.Counter())
        return
    if isinstance(h, dict) and h.get("scenario") == c05_argfail.SCENARIO:
        c05_argfail.replay(h, out, "C17", ARGFAIL_ASPECTS)
        return
    X.replay_family(ctx, payload, out, CFG, oracle)
