"""C08 – reported dependencies are exactly the calls made; graph and cache agree.

Correspondence: the whole trace graph (element nodes, object nodes of uncached cells, edges)
and the reference graph against the Lean mechanism model after every op, including failed
evaluations and value edits.
Oracle (implementation only, own replay with a call-recording wrapper around every call
the rendered formulas make): for every element holding a computed value, its graph
predecessors equal the calls its formula really made when it was computed (through uncached
cells: the cached elements reached plus the uncached cells); preds()/succs() of the public
API are mutually inverse; element nodes of the graph = elements holding a value; the graph
is acyclic; precedents() contains every reference the formula read by attribute path.
"""
from .. import exec_props as X
from ..execworld import ExecImpl, node_s, parse_val, COPY_BASE
from ..expr import parse_sexp
from ..impl import mx, quiet
from ..shadow import CallRecorder

CFG = {
    "weights": {"eval": 8, "reeval": 2, "set": 1.2, "clearat": 1, "clear": 0.5, "clearall": 0.3,
                "setcached": 0.9, "setformula": 0.5, "setref": 0.5, "delref": 0.15},
    "compare": ["graph", "refgraph", "values"],
    "maxdepths": [None, None, 6, 10],
    "raise_p": 0.07, "none_p": 0.04, "catch_all_p": 0.15, "space_p": 0.3, "same_p": 0.3,
    "rule": "random programs (cached and uncached cells, recursion, references by attribute path, failing and "
            "handled callees) with histories of evaluations, re-evaluations (cache hits), value edits, failed "
            "evaluations, cache-flag flips (both directions), formula edits and reference edits (change, create, "
            "delete); scenario family: a cached cells calculated THROUGH an uncached one x every edit of the cells in "
            "the middle x queries / value edits afterwards; non-trivial = the graph held an edge through an uncached "
            "cells or an edge created on a cache hit",
}


def oracle(case, recs, out, stats):
    rec = CallRecorder()
    impl = ExecImpl(case["cells"], case["refs"], case["n_rn"], case["maxdepth"], recorder=rec)
    # the definitions as the history has made them (flag flips and formula edits are ops of the history)
    cached = {c["id"]: c["cached"] for c in case["cells"]}
    bodies = {c["id"]: c["body"] for c in case["cells"]}
    nontrivial = False
    copied = False
    shadowed = set()        # (space, reference id): a space-level reference of the name of a model-level one exists
    try:
        g = impl.m._impl.tracegraph
        for k, op in enumerate(case["ops"]):
            hist = X.case_json(dict(case, ops=case["ops"][:k + 1]))
            rec.reset_top()
            r = impl.apply(op)
            if op[0] == "eval":
                rec.top_done(r.startswith("ok"))
                if r.split()[:2] in (["err", "Assertion"], ["err", "Index"]):
                    # neither a value nor a FormulaError: one of the library's own consistency assertions about its
                    # stacks and graphs tripped
                    out.fail("%s ended in %s out of the library's own bookkeeping" % (" ".join(op), r.split()[1]), hist)
            elif op[0] == "setcached" and r == "ok":
                cached[int(op[1])] = op[2] == "1"
                stats["oracle_flag_flips"] += 1
            elif op[0] == "setformula" and r == "ok":
                bodies[int(op[1])] = parse_sexp(" ".join(op[2:]))
            elif op[0] == "shadow" and r == "ok":
                shadowed.add((int(op[2]), int(op[1])))
            elif op[0] == "unshadow" and r == "ok":
                shadowed.discard((int(op[2]), int(op[1])))
            elif op[0] == "copycell" and r == "ok":
                cached[int(op[3])] = cached[int(op[1])]
                bodies[int(op[3])] = bodies[int(op[1])]
            elif op[0] == "copyspace" and r == "ok":
                for cid in list(impl.cells):
                    if cid >= COPY_BASE:
                        cached[cid] = cached[cid - COPY_BASE]
                        bodies[cid] = bodies[cid - COPY_BASE]
            # the only nodes without a key are the object nodes of cells that are uncached NOW
            for n in g.nodes:
                if len(n) == 1:
                    cid = impl.cid_of(n[0])
                    if cached.get(cid, True):
                        out.fail("the graph holds the object node of c%s, which is a cached cells" % cid, hist)
            # nodes = held
            held = set()
            for cid, c in impl.cells.items():
                for key in c._impl.data:
                    held.add((cid, key))
            gnodes = {(impl.cid_of(n[0]), n[1]) for n in g.nodes if len(n) == 2}
            if held != gnodes:
                out.fail("graph element nodes differ from elements holding a value: only in graph %s, only held %s" % (
                    sorted(map(str, gnodes - held))[:3], sorted(map(str, held - gnodes))[:3]), hist)
            # acyclic
            if not _acyclic(g):
                out.fail("dependency graph has a cycle", hist, key="C08-cycle-after-caught-deep"
                         if (case["maxdepth"] and X.has_catch_all(case)) else None)
            if op[0] in ("copycell", "copyspace") and r == "ok":
                # the formulas of a copy log their executions under the id of the cells they were rendered for: from
                # here on the record of calls cannot tell copy and original apart; the clauses above (nodes = held,
                # object nodes, acyclic) are checked to the end of the history
                copied = True
            if copied:
                for cid, c in impl.cells.items():
                    for key in c._impl.data:
                        if key in c._impl.input_keys and (c._impl, key) in g and list(g.predecessors((c._impl, key))):
                            out.fail("input element %s has predecessors" % node_s(cid, key), hist)
                        if key in c._impl.input_keys and cached.get(cid, True):
                            _input_answers(c, cid, key, out, stats, hist)
                continue
            # preds exact for computed elements
            for cid, c in impl.cells.items():
                if not cached[cid]:
                    if len(c._impl.data):
                        out.fail("uncached cells c%d holds values" % cid, hist)
                    continue
                for key in c._impl.data:
                    if key in c._impl.input_keys:
                        if (c._impl, key) in g and list(g.predecessors((c._impl, key))):
                            out.fail("input element %s has predecessors" % node_s(cid, key), hist)
                        _input_answers(c, cid, key, out, stats, hist)
                        continue
                    want = rec.expected_preds((cid, key), lambda x: cached[x])
                    if want is None or (c._impl, key) not in g:
                        continue     # a held element missing from the graph was reported above
                    got = set()
                    for p in g.predecessors((c._impl, key)):
                        got.add(("obj", impl.cid_of(p[0])) if len(p) == 1 else ("elem", (impl.cid_of(p[0]), p[1])))
                    stats["oracle_preds_checked"] += 1
                    if any(t == "obj" for t, _ in got):
                        nontrivial = True
                    if got != want:
                        out.fail("preds of %s are %s but its formula called %s" % (
                            node_s(cid, key), sorted(map(str, got)), sorted(map(str, want))), hist)
                    # public API: succs is the inverse of preds
                    with quiet():
                        for p in c.preds(*key):
                            if hasattr(p, "args") and p.args is not None:
                                back = [(s.obj._impl, s.args) for s in p.obj.succs(*p.args)]
                                if (c._impl, key) not in back:
                                    out.fail("succs() of a pred of %s does not list it" % node_s(cid, key), hist)
                        # precedents(): every reference the element's own formula read, by name or by attribute path
                        # (the harness' own record of the reads: shadow.CallRecorder.zr)
                        _check_precedents(impl, rec, case, cid, c, key, shadowed, out, stats, hist)
    finally:
        impl.close()
    return nontrivial or any(">" in r["obs"]["graph"][0] and r["obs"]["log"][0] == "log " and
                             r["impl"].startswith("ok") for r in recs)


KNOWN_MODEL_ATTR = "C08-model-attribute-read-untracked"
KNOWN_NEVER_RUN = "C08-precedents-before-first-evaluation"


def _input_answers(c, cid, key, out, stats, hist):
    """an element holding an assigned value can be asked for its dependencies like any other (it has none)"""
    stats["oracle_input_queries"] += 1
    with quiet():
        for what in ("preds", "succs", "precedents"):
            try:
                got = getattr(c, what)(*key)
            except BaseException as e:      # noqa: BLE001
                known = what == "precedents" and isinstance(e, AttributeError) and "_is_names_updated" in str(e)
                out.fail("%s() of the input element %s raised %s" % (what, node_s(cid, key), type(e).__name__), hist,
                         key=KNOWN_NEVER_RUN if known else None)
                return
            if what == "preds" and got:
                out.fail("preds() of the input element %s reports %d nodes" % (node_s(cid, key), len(got)), hist)
            if what == "precedents":
                # an assigned value was calculated from nothing: no cells, and no reference but those the formula text
                # names (listed for every element of the cells, read or not); a reference recorded from an EXECUTION
                # (a read through an attribute path) belongs to the calculation the assignment replaced
                named = {_ref_id(p) for p in c._impl.get_valuerefs()}
                extra = sorted(_ref_id(p) for p in got if type(p).__name__ == "ReferenceNode" and _ref_id(p) not in named)
                other = [p for p in got if type(p).__name__ != "ReferenceNode"]
                stats["oracle_input_precedents"] += 1
                if extra or other:
                    out.fail("precedents() of the input element %s lists %s, recorded from a calculation the assignment "
                             "replaced" % (node_s(cid, key), ", ".join(["%s of %s" % x for x in extra] + [repr(p) for p in other])),
                             hist)


def _ref_id(p):
    ri = p._impl
    return (ri[0].name, ri[0].parent.get_fullname() if hasattr(ri[0].parent, "get_fullname") else repr(ri[0].parent))


def _check_precedents(impl, rec, case, cid, c, key, shadowed, out, stats, hist):
    reads = rec.own_reads((cid, key))
    if not reads:
        return
    here = impl.cell_space.get(cid, 0)
    if here not in (0, 1):
        return      # a cells of the copied space: which reference a name denotes there is not tracked by this oracle
    glob = impl.glob

    def owner(kind, r, form):
        if kind == "rn" and r not in glob:
            return impl.ref_space(r)
        if kind == "ra" and r not in glob:
            return impl.ref_space(r)
        if kind in ("rn", "ra"):
            form = 0 if kind == "rn" else 1
        if form == 3:
            return 2
        k = here if form in (0, 1) else (1 - here) if form == 2 else 1
        return k if (k, r) in shadowed else 2
    want = {}
    for kind, r, form in reads:
        want.setdefault(("r%d" % r, owner(kind, r, form)), []).append((kind, form))
    parents = {id(impl.S._impl): 0, id(impl.Ch._impl): 1, id(impl.m._impl): 2}
    got = set()
    for p in c.precedents(*key):
        ri = getattr(p, "_impl", None)
        if type(p).__name__ == "ReferenceNode" and ri is not None:
            got.add((ri[0].name, parents.get(id(ri[0].parent), "?")))
    stats["oracle_precedent_refs_checked"] += len(want)
    missing = sorted(w for w in want if w not in got)
    if missing:
        where = {0: "S", 1: "S.Ch", 2: "the model"}
        how = {"rn": "by name", "ra": "by attribute path", "rg": "model-level"}
        FORMS = {0: "by name", 1: "as _space.r", 2: "through the other space", 3: "as _model.r", 4: "as _space.Ch.r / _space.parent.Ch.r"}
        txt = ["%s of %s (read %s)" % (n, where[k], ", ".join(sorted({FORMS[f] if kd == "rg" else how[kd] for kd, f in want[(n, k)]})))
               for n, k in missing]
        only_model_attr = all(kd == "rg" and f == 3 for w in missing for kd, f in want[w])
        out.fail("precedents() of %s lacks references its formula read: %s" % (node_s(cid, key), "; ".join(txt)), hist,
                 key=KNOWN_MODEL_ATTR if only_model_attr else None)


def _reads(e):
    for x in X.subexprs(e):
        if x[0] in ("ra", "rn"):
            yield x


def _reads_executed(body, candidates):
    """references surely read by the element: those read unconditionally at the top of the
    body (a conservative subset, so the check never demands too much)"""
    res = set()

    def walk(e):
        t = e[0]
        if t == "ra":
            res.add(e[1])
        elif t in ("add", "sub", "mul", "lt"):
            walk(e[1])
            # the right operand runs only if the left did not raise: stop at anything that can fail
            if _pure(e[1]):
                walk(e[2])
        elif t == "if":
            walk(e[1])
    walk(body)
    return res & candidates


def _pure(e):
    return all(x[0] in ("lit", "p", "ra", "rn") for x in X.subexprs(e))


def _acyclic(g):
    color = {}
    for start in g.nodes:
        if start in color:
            continue
        stack = [(start, iter(g.successors(start)))]
        color[start] = 1
        while stack:
            node, it = stack[-1]
            for nxt in it:
                if color.get(nxt) == 1:
                    return False
                if nxt not in color:
                    color[nxt] = 1
                    stack.append((nxt, iter(g.successors(nxt))))
                    break
            else:
                color[node] = 2
                stack.pop()
    return True


def scenario_cases():
    """an input does not outlive the redefinition of its cells (exec_props.input_then_redefined_cases): the element
    recomputed after the redefinition is an ordinary computed element - its predecessors are the calls it made, and
    it is not an input (an input has no predecessors)"""
    return X.input_then_redefined_cases({"reeval": lambda R: [], "clear": lambda R: [["clear", "0"]]})


def scenarios():
    """A cached cells calculated through a chain base -> mid -> top (every cached/uncached assignment of base and
    mid, top reading a reference by attribute path) x every edit of the cells in the middle or at the bottom
    (flag on, flag off, off and on again, the same formula again, another formula, a reference edit) x what is
    asked afterwards (the same query, a value assigned to / cleared at the edited cells, the other elements)."""
    P0 = ("p", 0)
    out = []
    f_mid = ("add", ("call", 0, [P0]), ("lit", 1))
    f_mid2 = ("sub", ("call", 0, [P0]), ("lit", 3))
    edits = {
        "mid-on": [["setcached", "1", "1"]],
        "mid-off": [["setcached", "1", "0"]],
        "mid-on-off": [["setcached", "1", "1"], ["setcached", "1", "0"]],
        "mid-off-on": [["setcached", "1", "0"], ["eval", "2", "1"], ["setcached", "1", "1"]],
        "mid-same-formula": [["setformula", "1", X.sexp(f_mid)]],
        "mid-new-formula": [["setformula", "1", X.sexp(f_mid2)]],
        "base-on": [["setcached", "0", "1"]],
        "base-off": [["setcached", "0", "0"]],
        "base-off-on": [["setcached", "0", "0"], ["eval", "3", "1"], ["setcached", "0", "1"]],
        "top-off-on": [["setcached", "2", "0"], ["eval", "2", "1"], ["setcached", "2", "1"]],
        "ref": [["setref", "2", "5"]],
        "delref": [["delref", "2"], ["eval", "2", "1"], ["setref", "2", "1"]],
    }
    for bc in (True, False):
        for mc in (False, True):
            cells = [
                {"id": 0, "nparams": 1, "cached": bc, "allow_none": False, "body": ("mul", P0, ("lit", 10))},
                {"id": 1, "nparams": 1, "cached": mc, "allow_none": False, "body": f_mid},
                {"id": 2, "nparams": 1, "cached": True, "allow_none": False,
                 "body": ("add", ("mul", ("call", 1, [P0]), ("lit", 2)), ("ra", 2))},
                {"id": 3, "nparams": 1, "cached": True, "allow_none": False,
                 "body": ("add", ("call", 1, [P0]), ("call", 0, [("add", P0, ("lit", 1))]))},
            ]
            for name, ed in edits.items():
                ops = [["eval", "2", "1"], ["eval", "3", "1"]] + ed + [
                    ["eval", "2", "1"], ["set", "1", "1", "=", "100"], ["eval", "2", "1"], ["eval", "3", "1"],
                    ["clearat", "1", "1"], ["eval", "2", "1"], ["set", "0", "1", "=", "7"], ["eval", "3", "1"],
                    ["eval", "2", "1"]]
                out.append({"cells": [dict(c) for c in cells], "refs": {0: 1, 1: 2, 2: 3, 3: 4}, "n_rn": 2,
                            "maxdepth": None, "ops": ops,
                            "label": "through/base=%d mid=%d %s" % (bc, mc, name)})
    return out


def handled_read_cases():
    """Scenario family "a handled failure leaves no trace": c0 reads a reference by attribute path and FAILS; the catcher c2
    handles the failure (a default) and then calls an element not computed yet (c1, which reads nothing) / calls nothing /
    reads a reference of its own / calls c1 BEFORE and after; c3 calls the catcher.  The reads of the failed execution
    belong to nobody: not to the sibling computed next, not to the catcher.  c0, c1 cached or uncached; then the
    reference c0 read is changed and everything is asked again (nothing but the catcher's chain may be discarded)."""
    P0, L = ("p", 0), (lambda i: ("lit", i))
    t = ("try", ("call", 0, [P0]), "k0", L(-1))
    after = {
        "sibling": ("add", t, ("call", 1, [P0])),
        "nothing": ("add", t, L(5)),
        "own-read": ("add", t, ("ra", 0)),
        "sibling-before-and-after": ("add", ("add", ("call", 1, [("add", P0, L(1))]), t), ("call", 1, [P0])),
        "read-then-sibling": ("add", ("add", ("ra", 3), t), ("call", 1, [P0])),
    }
    cases = []
    for name, body in after.items():
        for c0c in (True, False):
            for c1c in (True, False):
                cells = [
                    {"id": 0, "nparams": 1, "cached": c0c, "body": ("add", ("add", ("ra", 2), ("ra", 3)), ("raise", 0))},
                    {"id": 1, "nparams": 1, "cached": c1c, "body": ("mul", P0, L(2))},
                    {"id": 2, "nparams": 1, "cached": True, "body": body},
                    {"id": 3, "nparams": 1, "cached": True, "body": ("add", ("call", 2, [P0]), ("call", 1, [P0]))},
                ]
                for c in cells:
                    c["allow_none"] = False
                ev = [["eval", "2", "1"], ["eval", "3", "1"], ["eval", "1", "1"], ["eval", "3", "2"]]
                ops = ev + [["setref", "2", "9"]] + ev + [["setref", "3", "8"]] + ev + [["eval", "0", "1"]] + ev[:2]
                cases.append({"cells": cells, "refs": {0: 1, 1: 2, 2: 3, 3: 4}, "n_rn": 2, "maxdepth": None, "ops": ops,
                              "label": "handled-read/%s/c0 %s c1 %s" % (name, "cached" if c0c else "uncached",
                                                                         "cached" if c1c else "uncached")})
    return cases


def visible_name_cases():
    """Scenario family "every way a name can be visible in a space": a MODEL-LEVEL reference (resolved by every space,
    owned by none) read by name and through every attribute path that resolves it (`_space.r`, through the other space,
    through a longer path, `_model.r`), from either space, directly by a cached cells (with a dependent) and by an
    uncached one below a cached caller; evaluated, asked again (cache hit), the reference changed, a reference of the
    same name defined in the space the read went through (it shadows the model-level one), deleted again, the model-level
    one deleted and re-created.  precedents() must list the reference the formula read at every step."""
    cases = []
    for here in (0, 1):
        for form in (0, 1, 2, 4, 3):
            k = here if form in (0, 1) else (1 - here) if form == 2 else 1      # the space the name is resolved in
            cells = [
                {"id": 0, "nparams": 0, "cached": True, "allow_none": False, "space": here, "glob": [4, 5],
                 "body": ("add", ("rg", 4, form), ("lit", 10))},
                {"id": 1, "nparams": 0, "cached": False, "allow_none": False, "space": here,
                 "body": ("add", ("rg", 5, form), ("ra", 0 if here == 0 else 2))},
                {"id": 2, "nparams": 0, "cached": True, "allow_none": False, "space": 1 - here,
                 "body": ("add", ("call", 0, []), ("call", 1, []))},
                {"id": 3, "nparams": 0, "cached": True, "allow_none": False, "space": here,
                 "body": ("add", ("rg", 5, form), ("rg", 4, 0))},
            ]
            ev = [["eval", "0"], ["eval", "2"], ["eval", "3"]]
            ops = (ev + ev[:1] + [["setref", "4", "9"]] + ev + [["shadow", "4", str(k), "7"]] + ev
                   + [["shadow", "5", str(k), "8"]] + ev + [["unshadow", "4", str(k)]] + ev + [["delref", "4"]] + ev
                   + [["setref", "4", "3"]] + ev)
            cases.append({"cells": cells, "refs": {0: 1, 1: 2, 2: 3, 3: 4, 4: 5, 5: 6}, "n_rn": 2, "maxdepth": None,
                          "ops": ops, "label": "visible-names/reader in space %d form %d" % (here, form)})
    return cases


# random programs in the implementation-only vocabulary: model-level references read by name and by path, references
# of the same name defined in / deleted from the spaces, copies of cells and of the child space
CFG_GLOB = dict(CFG, space_p=0.5, glob_p=0.45,
                weights=dict(CFG["weights"], setref=0.9, delref=0.2, shadow=0.9, unshadow=0.4, copycell=0.35,
                             copyspace=0.15))


def run(ctx, out):
    from .. import dagenum
    extra = [X.gen_case(ctx.rng("glob", i), CFG_GLOB) for i in range(ctx.n(40, 600))]
    for i, c in enumerate(extra):
        c["label"] = "impl-only-vocabulary/%d" % i
    from . import c09
    # chains with two and three uncached cells in a row below a cached top, the leaf reading by attribute path
    chains = [c09.chain_case(n, form, ls, fl, flip) for n, form, ls, fl, flip in (
        (3, "ra-other", 0, (False, False, True), False), (3, "ra-own", 1, (False, False, True), True),
        (4, "ra-other", 0, (False, False, False, True), False), (4, "ra-other", 1, (True, False, False, True), True),
        (4, "rg2", 0, (False, False, True, True), False), (3, "rg1", 1, (False, False, True), False))]
    stats = X.run_family(ctx, out, CFG, oracle, 150, 2500,
                         structured=scenarios() + scenario_cases() + handled_read_cases() + visible_name_cases() + X.copy_cases()
                         + chains + extra
                         + dagenum.sample_cases(ctx, 4, ctx.n(12, 200)))
    item_space_names(out, stats)
    dag_enumeration(ctx, out, stats)
    for k in ("dag_shapes", "dag_orders", "dag_scenarios", "item_space_name_scenarios"):
        out.coverage["input_distribution"][k] = stats[k]
    out.assumptions.append("get_valuerefs (by-name references from bytecode) is exercised through precedents() only "
                           "for attribute-path reads; by-name value references are not compared")


def item_space_names(out, stats):
    """Names a space resolves without owning them, outside the two-space exec world: a parametrised space `P` with the
    items `P[t]` (the argument `t`, a reference of `P`, a model-level reference and a reference returned by `P`'s formula
    read through the item; a reference of a child space of the item), a space `D` with the base `B` (a derived reference
    read through `D`), plain own / nested references as controls.  Which references each formula reads is known by
    construction, every reference has its own value: precedents() must report a reference node of that name and value
    for each of them - at the first evaluation, on cache hits and after every edit of the history - and the value
    returned must be what plain evaluation of the formula gives."""
    from ..impl import close_all
    hist = {"scenario": "item-space-names"}
    close_all()
    with quiet():
        m = mx.new_model("V")
        m.g = 5
        A = m.new_space("A")
        A.own = 11
        A.new_space("Sub").deep = 13
        B = m.new_space("B")
        B.bref = 17
        D = m.new_space("D", bases=B)
        P = m.new_space("P", formula="lambda t: {'refs': {'made': t * 100}}")
        P.pref = 19
        P.new_space("PC").pcref = 23
        R = m.new_space("R")
        R.A, R.D, R.P = A, D, P
        vals = {"g": 5, "own": 11, "deep": 13, "bref": 17, "pref": 19, "pcref": 23}
        readers = {        # name -> (formula, references read by path: name -> value(t, vals), plain value(t, vals))
            "own": ("lambda t: A.own + t", lambda t, v: {"own": v["own"]}, lambda t, v: v["own"] + t),
            "deep": ("lambda t: A.Sub.deep + t", lambda t, v: {"deep": v["deep"]}, lambda t, v: v["deep"] + t),
            "glob": ("lambda t: A.g + t", lambda t, v: {"g": v.get("Ag", v["g"])}, lambda t, v: v.get("Ag", v["g"]) + t),
            "derived": ("lambda t: D.bref + t", lambda t, v: {"bref": v["bref"]}, lambda t, v: v["bref"] + t),
            "arg": ("lambda t: P[t].t * 2", lambda t, v: {"t": t}, lambda t, v: t * 2),
            "ofbase": ("lambda t: P[t].pref + t", lambda t, v: {"pref": v["pref"]}, lambda t, v: v["pref"] + t),
            "made": ("lambda t: P[t].made + 1", lambda t, v: {"made": t * 100}, lambda t, v: t * 100 + 1),
            "itemglob": ("lambda t: P[t].g + t", lambda t, v: {"g": v["g"]}, lambda t, v: v["g"] + t),
            "itemchild": ("lambda t: P[t].PC.pcref + t", lambda t, v: {"pcref": v["pcref"]}, lambda t, v: v["pcref"] + t),
            "two": ("lambda t: P[t].pref + P[t + 1].t + A.g", lambda t, v: {"pref": v["pref"], "t": t + 1, "g": v.get("Ag", v["g"])},
                    lambda t, v: v["pref"] + t + 1 + v.get("Ag", v["g"])),
        }
        for nm, (src, _, _) in readers.items():
            R.new_cells(nm, formula=src)

        def check(when):
            for nm, (_, reads, plain) in readers.items():
                c = R.cells[nm]
                for t in (3, 4):
                    stats["item_space_name_scenarios"] += 1
                    try:
                        got = c(t)
                    except BaseException as e:      # noqa: BLE001
                        out.fail("%s: R.%s(%d) raised %r" % (when, nm, t, e), hist)
                        return False
                    if got != plain(t, vals):
                        out.fail("%s: R.%s(%d) returns %r, plain evaluation of its formula gives %r" % (
                            when, nm, t, got, plain(t, vals)), hist)
                        return False
                    rep = set()
                    for p in c.precedents(t):
                        if type(p).__name__ == "ReferenceNode":
                            rep.add((p._impl[0].name, p.value if isinstance(p.value, int) else None))
                    want = set(reads(t, vals).items())
                    if not want <= rep:
                        out.fail("%s: the formula of R.%s(%d) read the references %s by attribute path; precedents() reports "
                                 "only %s" % (when, nm, t, sorted(want), sorted(x for x in rep if x[1] is not None)), hist)
                        return False
            return True
        steps = [
            ("first evaluation", lambda: None),
            ("cache hits", lambda: None),
            ("after m.g = 6", lambda: (setattr(m, "g", 6), vals.update(g=6))),
            ("after P.pref = 20", lambda: (setattr(P, "pref", 20), vals.update(pref=20))),
            ("after P.clear_items()", lambda: P.clear_items()),
            ("after A.g = 7 (shadows the model-level g in A)", lambda: (setattr(A, "g", 7), vals.update(Ag=7))),
            ("after B.bref = 18", lambda: (setattr(B, "bref", 18), vals.update(bref=18))),
            ("after del A.g", lambda: (delattr(A, "g"), vals.pop("Ag"))),
            ("after P.PC.pcref = 24", lambda: (setattr(P.PC, "pcref", 24), vals.update(pcref=24))),
        ]
        for when, edit in steps:
            try:
                edit()
            except BaseException as e:      # noqa: BLE001
                out.fail("%s: the edit raised %r" % (when, e), hist)
                break
            if not check(when):
                break
    close_all()


def dag_enumeration(ctx, out, stats):
    """every dependency DAG on 4 cells x every order of requests x every value edit (dagenum.py), judged by the graph
    clauses (element nodes = held elements, predecessors = the callees of the shape, successors the converse) after
    every request and after the edit; quick: half of the orders (which half: by the seed)"""
    import collections
    from .. import core, dagenum

    def on_failure(case, texts):
        sub = core.Outcome()
        oracle(case, [], sub, collections.Counter())
        if sub.failures:
            for f in sub.failures[:2]:
                out.fail(f["what"], f["history"], key=f.get("key"))
        else:
            out.fail("%s: %s" % (case["label"], texts[0]), dict(X.case_json(case), scenario="dag-enum"))
    dagenum.enumerate_all(ctx, on_failure, stats, n=4, slice_k=2, graph_checks=True,
                          edits=("set", "clearat", "clearall", "set-recalc"))


def replay(ctx, payload, out):
    import collections
    h = payload.get("history") or {}
    if isinstance(h, dict) and h.get("scenario") == "item-space-names":
        item_space_names(out, collections.Counter())
        return
    X.replay_family(ctx, payload, out, CFG, oracle)
