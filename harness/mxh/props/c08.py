"""C08 – reported dependencies are exactly the calls made; graph and cache agree.

Correspondence: the whole trace graph (element nodes, object nodes of uncached cells, edges)
and the reference graph against the Lean mechanism model after every op, including failed
evaluations and value edits.
Oracle (implementation only, own replay with a call-recording wrapper around every call
the rendered formulas make): for every element holding a computed value, its graph
predecessors equal the calls its formula really made when it was computed (through uncached
cells: the cached elements reached plus the uncached cells); preds()/succs() of the public
API are mutually inverse; element nodes of the graph = elements holding a value; the graph
is acyclic; precedents() contains every reference the formula read by attribute path.
"""
from .. import exec_props as X
from ..execworld import ExecImpl, node_s, parse_val
from ..expr import parse_sexp
from ..impl import mx, quiet
from ..shadow import CallRecorder

CFG = {
    "weights": {"eval": 8, "reeval": 2, "set": 1.2, "clearat": 1, "clear": 0.5, "clearall": 0.3,
                "setcached": 0.9, "setformula": 0.5, "setref": 0.5, "delref": 0.15},
    "compare": ["graph", "refgraph", "values"],
    "maxdepths": [None, None, 6, 10],
    "raise_p": 0.07, "none_p": 0.04, "catch_all_p": 0.15,
    "rule": "random programs (cached and uncached cells, recursion, references by attribute path, failing and "
            "handled callees) with histories of evaluations, re-evaluations (cache hits), value edits, failed "
            "evaluations, cache-flag flips (both directions), formula edits and reference edits (change, create, "
            "delete); scenario family: a cached cells calculated THROUGH an uncached one x every edit of the cells in "
            "the middle x queries / value edits afterwards; non-trivial = the graph held an edge through an uncached "
            "cells or an edge created on a cache hit",
}


def oracle(case, recs, out, stats):
    rec = CallRecorder()
    impl = ExecImpl(case["cells"], case["refs"], case["n_rn"], case["maxdepth"], recorder=rec)
    # the definitions as the history has made them (flag flips and formula edits are ops of the history)
    cached = {c["id"]: c["cached"] for c in case["cells"]}
    bodies = {c["id"]: c["body"] for c in case["cells"]}
    nontrivial = False
    try:
        g = impl.m._impl.tracegraph
        for k, op in enumerate(case["ops"]):
            hist = X.case_json(dict(case, ops=case["ops"][:k + 1]))
            rec.reset_top()
            r = impl.apply(op)
            if op[0] == "eval":
                rec.top_done(r.startswith("ok"))
            elif op[0] == "setcached" and r == "ok":
                cached[int(op[1])] = op[2] == "1"
                stats["oracle_flag_flips"] += 1
            elif op[0] == "setformula" and r == "ok":
                bodies[int(op[1])] = parse_sexp(" ".join(op[2:]))
            # the only nodes without a key are the object nodes of cells that are uncached NOW
            for n in g.nodes:
                if len(n) == 1:
                    cid = impl.cid_of(n[0])
                    if cached.get(cid, True):
                        out.fail("the graph holds the object node of c%s, which is a cached cells" % cid, hist)
            # nodes = held
            held = set()
            for cid, c in impl.cells.items():
                for key in c._impl.data:
                    held.add((cid, key))
            gnodes = {(impl.cid_of(n[0]), n[1]) for n in g.nodes if len(n) == 2}
            if held != gnodes:
                out.fail("graph element nodes differ from elements holding a value: only in graph %s, only held %s" % (
                    sorted(map(str, gnodes - held))[:3], sorted(map(str, held - gnodes))[:3]), hist)
            # acyclic
            if not _acyclic(g):
                out.fail("dependency graph has a cycle", hist, key="C08-cycle-after-caught-deep"
                         if (case["maxdepth"] and X.has_catch_all(case)) else None)
            # preds exact for computed elements
            for cid, c in impl.cells.items():
                if not cached[cid]:
                    if len(c._impl.data):
                        out.fail("uncached cells c%d holds values" % cid, hist)
                    continue
                for key in c._impl.data:
                    if key in c._impl.input_keys:
                        if (c._impl, key) in g and list(g.predecessors((c._impl, key))):
                            out.fail("input element %s has predecessors" % node_s(cid, key), hist)
                        continue
                    want = rec.expected_preds((cid, key), lambda x: cached[x])
                    if want is None or (c._impl, key) not in g:
                        continue     # a held element missing from the graph was reported above
                    got = set()
                    for p in g.predecessors((c._impl, key)):
                        got.add(("obj", impl.cid_of(p[0])) if len(p) == 1 else ("elem", (impl.cid_of(p[0]), p[1])))
                    stats["oracle_preds_checked"] += 1
                    if any(t == "obj" for t, _ in got):
                        nontrivial = True
                    if got != want:
                        out.fail("preds of %s are %s but its formula called %s" % (
                            node_s(cid, key), sorted(map(str, got)), sorted(map(str, want))), hist)
                    # public API: succs is the inverse of preds
                    with quiet():
                        for p in c.preds(*key):
                            if hasattr(p, "args") and p.args is not None:
                                back = [(s.obj._impl, s.args) for s in p.obj.succs(*p.args)]
                                if (c._impl, key) not in back:
                                    out.fail("succs() of a pred of %s does not list it" % node_s(cid, key), hist)
                        # attribute-path reads are in precedents()
                        want_refs = {e[1] for e in _reads(bodies[cid]) if e[0] == "ra"}
                        if want_refs:
                            names = set()
                            for p in c.precedents(*key):
                                nm = getattr(p.obj, "name", None) if hasattr(p, "obj") else None
                                names.add(nm)
                            ran = {"r%d" % r for r in _reads_executed(bodies[cid], want_refs)}
                            if not ran <= names:
                                out.fail("precedents() of %s lacks references read by attribute path: %s" % (
                                    node_s(cid, key), sorted(ran - names)), hist)
    finally:
        impl.close()
    return nontrivial or any(">" in r["obs"]["graph"][0] and r["obs"]["log"][0] == "log " and
                             r["impl"].startswith("ok") for r in recs)


def _reads(e):
    for x in X.subexprs(e):
        if x[0] in ("ra", "rn"):
            yield x


def _reads_executed(body, candidates):
    """references surely read by the element: those read unconditionally at the top of the
    body (a conservative subset, so the check never demands too much)"""
    res = set()

    def walk(e):
        t = e[0]
        if t == "ra":
            res.add(e[1])
        elif t in ("add", "sub", "mul", "lt"):
            walk(e[1])
            # the right operand runs only if the left did not raise: stop at anything that can fail
            if _pure(e[1]):
                walk(e[2])
        elif t == "if":
            walk(e[1])
    walk(body)
    return res & candidates


def _pure(e):
    return all(x[0] in ("lit", "p", "ra", "rn") for x in X.subexprs(e))


def _acyclic(g):
    color = {}
    for start in g.nodes:
        if start in color:
            continue
        stack = [(start, iter(g.successors(start)))]
        color[start] = 1
        while stack:
            node, it = stack[-1]
            for nxt in it:
                if color.get(nxt) == 1:
                    return False
                if nxt not in color:
                    color[nxt] = 1
                    stack.append((nxt, iter(g.successors(nxt))))
                    break
            else:
                color[node] = 2
                stack.pop()
    return True


def scenario_cases():
    """an input does not outlive the redefinition of its cells (exec_props.input_then_redefined_cases): the element
    recomputed after the redefinition is an ordinary computed element - its predecessors are the calls it made, and
    it is not an input (an input has no predecessors)"""
    return X.input_then_redefined_cases({"reeval": lambda R: [], "clear": lambda R: [["clear", "0"]]})


def scenarios():
    """A cached cells calculated through a chain base -> mid -> top (every cached/uncached assignment of base and
    mid, top reading a reference by attribute path) x every edit of the cells in the middle or at the bottom
    (flag on, flag off, off and on again, the same formula again, another formula, a reference edit) x what is
    asked afterwards (the same query, a value assigned to / cleared at the edited cells, the other elements)."""
    P0 = ("p", 0)
    out = []
    f_mid = ("add", ("call", 0, [P0]), ("lit", 1))
    f_mid2 = ("sub", ("call", 0, [P0]), ("lit", 3))
    edits = {
        "mid-on": [["setcached", "1", "1"]],
        "mid-off": [["setcached", "1", "0"]],
        "mid-on-off": [["setcached", "1", "1"], ["setcached", "1", "0"]],
        "mid-off-on": [["setcached", "1", "0"], ["eval", "2", "1"], ["setcached", "1", "1"]],
        "mid-same-formula": [["setformula", "1", X.sexp(f_mid)]],
        "mid-new-formula": [["setformula", "1", X.sexp(f_mid2)]],
        "base-on": [["setcached", "0", "1"]],
        "base-off": [["setcached", "0", "0"]],
        "base-off-on": [["setcached", "0", "0"], ["eval", "3", "1"], ["setcached", "0", "1"]],
        "top-off-on": [["setcached", "2", "0"], ["eval", "2", "1"], ["setcached", "2", "1"]],
        "ref": [["setref", "2", "5"]],
        "delref": [["delref", "2"], ["eval", "2", "1"], ["setref", "2", "1"]],
    }
    for bc in (True, False):
        for mc in (False, True):
            cells = [
                {"id": 0, "nparams": 1, "cached": bc, "allow_none": False, "body": ("mul", P0, ("lit", 10))},
                {"id": 1, "nparams": 1, "cached": mc, "allow_none": False, "body": f_mid},
                {"id": 2, "nparams": 1, "cached": True, "allow_none": False,
                 "body": ("add", ("mul", ("call", 1, [P0]), ("lit", 2)), ("ra", 2))},
                {"id": 3, "nparams": 1, "cached": True, "allow_none": False,
                 "body": ("add", ("call", 1, [P0]), ("call", 0, [("add", P0, ("lit", 1))]))},
            ]
            for name, ed in edits.items():
                ops = [["eval", "2", "1"], ["eval", "3", "1"]] + ed + [
                    ["eval", "2", "1"], ["set", "1", "1", "=", "100"], ["eval", "2", "1"], ["eval", "3", "1"],
                    ["clearat", "1", "1"], ["eval", "2", "1"], ["set", "0", "1", "=", "7"], ["eval", "3", "1"],
                    ["eval", "2", "1"]]
                out.append({"cells": [dict(c) for c in cells], "refs": {0: 1, 1: 2, 2: 3, 3: 4}, "n_rn": 2,
                            "maxdepth": None, "ops": ops,
                            "label": "through/base=%d mid=%d %s" % (bc, mc, name)})
    return out


def run(ctx, out):
    X.run_family(ctx, out, CFG, oracle, 150, 2500, structured=scenarios() + scenario_cases())
    out.assumptions.append("get_valuerefs (by-name references from bytecode) is exercised through precedents() only "
                           "for attribute-path reads; by-name value references are not compared")


def replay(ctx, payload, out):
    X.replay_family(ctx, payload, out, CFG, oracle)
