"""C01 – memoisation is transparent.

Correspondence: eval results, held values and the execution log (which formulas ran, in
which order) against the Lean mechanism model after every op.
Oracle (implementation only): every value the live model returns equals what a fresh
replica with *every* cells uncached returns for the same query (pure recomputation by
modelx itself, default recursion limit); a query for an element that holds a value runs
no formula; all spellings that bind to the same arguments hit the same element.
"""
from .. import exec_props as X
from ..execworld import ExecImpl, deep_counter, parse_val, val_s, node_s
from ..impl import mx, quiet

CFG = {
    "weights": {"eval": 8, "reeval": 3, "set": 0.6, "clearat": 0.5, "clear": 0.3, "clearall": 0.2},
    "compare": ["values", "log"],
    "maxdepths": [None, None, None, None, 7, 12],
    "rule": "random programs (2-6 cells, self-recursion and calls to lower cells, references by name and by "
            "attribute path, try/except, raise, None) and histories of 8-16 queries/value edits; distinct by "
            "program+history text; non-trivial = some query was served from the cache (formula log empty for a "
            "successful eval) and some formula called another cells",
}

KNOWN_DEEP = "C01-caught-deep"


def oracle(case, recs, out, stats):
    hit_cache = False
    called = any(">" in r["obs"]["graph"][0] for r in recs)
    has_input = _has_input(recs)
    pure = None
    if not has_input:
        # no user-assigned value anywhere: compare with pure recomputation (every cells uncached)
        pure = X.replica_values(case, [r["op"] for r in recs])
    for k, rec in enumerate(recs):
        if rec["op"][0] != "eval":
            continue
        a = rec["impl"]
        if not a.startswith("ok"):
            continue
        if rec["obs"]["log"][0] == "log ":
            hit_cache = True
        # history independence: a fresh model to which only the value edits were applied
        rv = _fresh_eval(case, k)
        stats["oracle_fresh_queries"] += 1
        refs = [("a fresh model (same edits, no earlier evaluation)", rv)]
        if pure is not None:
            refs.append(("pure recomputation (all cells uncached)", pure[k]))
        for what, r in refs:
            if r == a:
                continue
            key = None
            # a value computed after a formula *caught* the recursion-limit error is depth-dependent
            # (known finding); recognised only when the limit was really hit in this history and
            # some formula can catch it
            if (case["maxdepth"] and X.has_catch_all(case) and rec.get("model") == rec["impl"]
                    and _limit_hit(case, k)):
                # …and only when the (bug-faithful) Lean mechanism model predicts this very answer
                key = KNOWN_DEEP
            elif case["maxdepth"] and r.startswith("err Formula Deep") or (
                    case["maxdepth"] and _limit_hit(case, k) and r.startswith("err")):
                continue   # the reference itself ran into the limit (shorter chains thanks to the cache)
            out.fail("eval %s returned %s but %s gives %s" % (" ".join(rec["op"][1:]), a, what, r),
                     X.case_json(dict(case, ops=case["ops"][:k + 1])), key=key)
    _spellings(case, out, stats)
    return hit_cache and called


def _fresh_eval(case, k):
    impl = ExecImpl(case["cells"], case["refs"], case["n_rn"], case["maxdepth"], log=False)
    try:
        for op in case["ops"][:k]:
            if op[0] != "eval":
                impl.apply(op)
        return impl.apply(case["ops"][k])
    finally:
        impl.close()


def _has_input(recs):
    return any(r["op"][0] == "set" and r["impl"] == "ok" for r in recs)


def _limit_hit(case, upto):
    """re-run the prefix on the implementation and see whether DeepReferenceError was raised"""
    impl = ExecImpl(case["cells"], case["refs"], case["n_rn"], case["maxdepth"], log=False)
    try:
        before = deep_counter.count
        for op in case["ops"][:upto + 1]:
            impl.apply(op)
        return deep_counter.count > before
    finally:
        impl.close()


def _spellings(case, out, stats):
    """positional / keyword (any order) / subscription / .value denote the same element"""
    impl = ExecImpl(case["cells"], case["refs"], case["n_rn"], None, log=True)
    try:
        for c in case["cells"]:
            if not c["cached"]:
                continue
            cells = impl.cells[c["id"]]
            n = c["nparams"]
            args = tuple(range(1, n + 1))
            with quiet():
                try:
                    v0 = cells(*args)
                except BaseException:      # noqa: BLE001 (generated formulas raise KeyboardInterrupt too)
                    continue
                impl.log = []
                keys0 = set(cells._impl.data)
                names = ["a%d" % i for i in range(n)]
                forms = {}
                forms["kw"] = lambda: cells(**dict(zip(names, args)))
                forms["kw_reversed"] = lambda: cells(**dict(reversed(list(zip(names, args)))))
                if n >= 1:
                    forms["mixed"] = lambda: cells(*args[:1], **dict(list(zip(names, args))[1:]))
                    forms["getitem"] = lambda: cells[args if n > 1 else args[0]]
                else:
                    forms["value"] = lambda: cells.value
                    forms["getitem_empty"] = lambda: cells[()]
                for nm, f in forms.items():
                    try:
                        v = f()
                    except BaseException as e:      # noqa: BLE001 (generated formulas raise KeyboardInterrupt too)
                        out.fail("spelling %s of c%d%r raised %r" % (nm, c["id"], args, e), X.case_json(case))
                        continue
                    stats["spellings_checked"] += 1
                    if v != v0 or impl.log:
                        out.fail("spelling %s of c%d%r gave %r (positional %r), formulas re-run: %s" % (
                            nm, c["id"], args, v, v0, impl.log), X.case_json(case))
                    impl.log = []
                if set(cells._impl.data) != keys0:
                    out.fail("spellings of one element created other elements in c%d: %r" % (
                        c["id"], set(cells._impl.data) ^ keys0), X.case_json(case))
                cells.clear_all()
    finally:
        impl.close()


def name_resolution(out, stats):
    """Every name is resolved in the cells' own space: sibling cells and space-level
    references win over model-level references of the same name, which win over built-ins;
    whichever was defined first."""
    from ..impl import close_all
    for order in (0, 1):
        close_all()
        with quiet():
            m = mx.new_model("N")
            other = m.new_space("Other")
            other.new_cells("f", formula="def f(x): return 1000 + x")
            s = m.new_space("S")

            def model_level():
                m.y = 100
                m.z = 5
                m.len = 77

            def space_level():
                s.new_cells("f", formula="def f(x): return 1 + x")
                s.y = 1
                s.len = 7
            if order == 0:
                model_level()
                space_level()
            else:
                space_level()
                model_level()
            # a model-level name equal to a cells name can only be created after the cells
            m.f = other.f
            s.new_cells("g", formula="def g(x): return f(x)")
            s.new_cells("h", formula="def h(): return y")
            s.new_cells("j", formula="def j(): return z")
            s.new_cells("k", formula="def k(): return len")
            s.new_cells("b", formula="def b(): return abs(-3)")
            got = {}
            for nm, call in (("g", lambda: s.g(2)), ("h", lambda: s.h()), ("j", lambda: s.j()),
                             ("k", lambda: s.k()), ("b", lambda: s.b())):
                try:
                    got[nm] = call()
                except BaseException as e:      # noqa: BLE001 (generated formulas raise KeyboardInterrupt too)
                    got[nm] = "error %s" % type(e).__name__
            want = {"g": 3, "h": 1, "j": 5, "k": 7, "b": 3}
            stats["name_resolution_scenarios"] += 1
            if got != want:
                out.fail("names resolved outside the cells' own space (definition order %d): got %r, want %r" % (
                    order, got, want), {"scenario": "name_resolution", "order": order})
        close_all()


def run(ctx, out):
    stats = X.run_family(ctx, out, CFG, oracle, 150, 2500)
    name_resolution(out, stats)
    out.coverage["input_distribution"]["name_resolution_scenarios"] = stats["name_resolution_scenarios"]
    out.assumptions.append("Python's own evaluation of arithmetic and inspect.Signature.bind are exercised, not modelled")


def replay(ctx, payload, out):
    import collections
    h = payload.get("history") or {}
    if isinstance(h, dict) and h.get("scenario") == "name_resolution":
        name_resolution(out, collections.Counter())
        return
    X.replay_family(ctx, payload, out, CFG, oracle)
