"""C01 – memoisation is transparent.

Correspondence: eval results, held values and the execution log (which formulas ran, in
which order) against the Lean mechanism model after every op.
Oracle (implementation only): every value the live model returns equals what a fresh
replica with *every* cells uncached returns for the same query (pure recomputation by
modelx itself, default recursion limit); a query for an element that holds a value runs
no formula; all spellings that bind to the same arguments hit the same element.
"""
from .. import exec_props as X
from ..execworld import ExecImpl, deep_counter, parse_val, val_s, node_s
from ..impl import mx, quiet

CFG = {
    "weights": {"eval": 8, "reeval": 3, "set": 0.6, "clearat": 0.5, "clear": 0.3, "clearall": 0.2},
    "compare": ["values", "log"],
    "maxdepths": [None, None, None, None, 7, 12],
    "default_p": 0.4,
    "rule": "random programs (2-6 cells, self-recursion and calls to lower cells, references by name and by "
            "attribute path, try/except, raise, None) and histories of 8-16 queries/value edits; distinct by "
            "program+history text; non-trivial = some query was served from the cache (formula log empty for a "
            "successful eval) and some formula called another cells",
}

KNOWN_DEEP = "C01-caught-deep"


def oracle(case, recs, out, stats):
    hit_cache = False
    called = any(">" in r["obs"]["graph"][0] for r in recs)
    has_input = _has_input(recs)
    pure = None
    if not has_input:
        # no user-assigned value anywhere: compare with pure recomputation (every cells uncached)
        pure = X.replica_values(case, [r["op"] for r in recs])
    # the formulas as plain Python functions, called by Python (its own argument binding, no cache, no modelx); the
    # value edits the live model accepted are kept in a table the functions consult
    plain = X.plain_world(case)
    for k, rec in enumerate(recs):
        if rec["op"][0] != "eval":
            plain.apply_op(rec["op"], rec["impl"] == "ok")
            if rec["op"][0] in ("copycell", "copyspace") and rec["impl"] == "ok":
                _fresh_copy_holds_inputs_only(case, k, recs, out, stats)
            continue
        a = rec["impl"]
        if not a.startswith("ok"):
            continue
        if rec["obs"]["log"][0] == "log ":
            hit_cache = True
        # history independence: a fresh model to which only the value edits were applied
        rv = _fresh_eval(case, k)
        stats["oracle_fresh_queries"] += 1
        refs = [("a fresh model (same edits, no earlier evaluation)", rv)]
        if pure is not None:
            refs.append(("pure recomputation (all cells uncached)", pure[k]))
        if int(rec["op"][1]) in plain.funcs:
            stats["oracle_plain_python_queries"] += 1
            refs.append(("the formulas evaluated as plain Python functions", plain.eval(int(rec["op"][1]), rec["op"][2:])))
        for what, r in refs:
            if r == a:
                continue
            key = None
            # a value computed after a formula *caught* the recursion-limit error is depth-dependent
            # (known finding); recognised only when the limit was really hit in this history and
            # some formula can catch it
            if (case["maxdepth"] and X.has_catch_all(case) and rec.get("model") == rec["impl"]
                    and _limit_hit(case, k)):
                # …and only when the (bug-faithful) Lean mechanism model predicts this very answer
                key = KNOWN_DEEP
            elif case["maxdepth"] and r.startswith("err Formula Deep") or (
                    case["maxdepth"] and _limit_hit(case, k) and r.startswith("err")):
                continue   # the reference itself ran into the limit (shorter chains thanks to the cache)
            out.fail("eval %s returned %s but %s gives %s" % (" ".join(rec["op"][1:]), a, what, r),
                     X.case_json(dict(case, ops=case["ops"][:k + 1])), key=key)
    _spellings(case, out, stats)
    return hit_cache and called


def _fresh_copy_holds_inputs_only(case, k, recs, out, stats):
    """an element nobody calculated or assigned in the new space holds no value there: right after a copy is taken, the
    copy holds the ASSIGNED values of its source (as inputs) and nothing else - whatever the source had calculated"""
    from ..execworld import COPY_BASE
    op = recs[k]["op"]
    before = recs[k - 1]["obs"]["values"][0].split()[1:] if k else []
    after = recs[k]["obs"]["values"][0].split()[1:]
    src_inputs = {x.split("=")[0]: x.split("=")[1] for x in before if x.endswith("I")}
    for x in after:
        node, v = x.split("=")
        cid = int(node.split("[")[0])
        src = int(op[1]) if op[0] == "copycell" and cid == int(op[3]) else cid - COPY_BASE if (
            op[0] == "copyspace" and cid >= COPY_BASE) else None
        if src is None:
            continue
        stats["oracle_copied_elements"] += 1
        if src_inputs.get("%d[%s" % (src, node.split("[", 1)[1])) != v:
            out.fail("right after %s the copy holds %s, which nobody assigned (assigned values of the source: %s)" % (
                " ".join(op), x, sorted(n for n in src_inputs if n.startswith("%d[" % src))),
                X.case_json(dict(case, ops=case["ops"][:k + 1])))
            return


def _fresh_eval(case, k):
    impl = ExecImpl(case["cells"], case["refs"], case["n_rn"], case["maxdepth"], log=False)
    try:
        for op in case["ops"][:k]:
            if op[0] != "eval":
                impl.apply(op)
        return impl.apply(case["ops"][k])
    finally:
        impl.close()


def _has_input(recs):
    return any(r["op"][0] == "set" and r["impl"] == "ok" for r in recs)


def _limit_hit(case, upto):
    """re-run the prefix on the implementation and see whether DeepReferenceError was raised"""
    impl = ExecImpl(case["cells"], case["refs"], case["n_rn"], case["maxdepth"], log=False)
    try:
        before = deep_counter.count
        for op in case["ops"][:upto + 1]:
            impl.apply(op)
        return deep_counter.count > before
    finally:
        impl.close()


def _spellings(case, out, stats):
    """every spelling Python admits for the arguments of one element - positional, keyword (any order), mixed,
    parameters that have their default value left out, subscription, .value - denotes that element: same value, no
    formula run again, no other element created"""
    impl = ExecImpl(case["cells"], case["refs"], case["n_rn"], None, log=True)
    try:
        for c in case["cells"]:
            if not c["cached"] or c.get("absent"):
                continue
            cells = impl.cells[c["id"]]
            n = c["nparams"]
            dfl = c.get("defaults") or []
            keys = [tuple(range(1, n + 1))]
            if dfl:
                # the defaulted parameters at their default values (they may be left out), and a mix
                keys.append(tuple(range(1, n - len(dfl) + 1)) + tuple(dfl))
                if len(dfl) > 1:
                    keys.append(tuple(range(1, n - len(dfl) + 1)) + (9,) + tuple(dfl[1:]))
            for args in keys:
                with quiet():
                    try:
                        v0 = cells(*args)
                    except BaseException:      # noqa: BLE001 (generated formulas raise KeyboardInterrupt too)
                        continue
                    impl.log = []
                    keys0 = set(cells._impl.data)
                    forms = {}
                    for label, pos, kw in X.all_spellings(n, dfl, args, limit=10):
                        forms["call" + label] = (lambda pos=pos, kw=kw: X.spelled_call(cells, pos, kw))
                        if not kw and n >= 1:
                            forms["subscript" + label] = (lambda pos=pos: X.spelled_call(cells, pos, {}, True))
                    if n == 0:
                        forms["value"] = lambda: cells.value
                        forms["getitem_empty"] = lambda: cells[()]
                    for nm, f in forms.items():
                        try:
                            v = f()
                        except BaseException as e:      # noqa: BLE001 (generated formulas raise KeyboardInterrupt too)
                            out.fail("spelling %s of c%d%r raised %r" % (nm, c["id"], args, e), X.case_json(case))
                            continue
                        stats["spellings_checked"] += 1
                        if v != v0 or impl.log:
                            out.fail("spelling %s of c%d%r gave %r (positional %r), formulas re-run: %s" % (
                                nm, c["id"], args, v, v0, impl.log), X.case_json(case))
                        impl.log = []
                    if set(cells._impl.data) != keys0:
                        out.fail("spellings of one element created other elements in c%d: %r" % (
                            c["id"], set(cells._impl.data) ^ keys0), X.case_json(case))
            with quiet():
                try:
                    cells.clear_all()
                except BaseException as e:      # noqa: BLE001
                    # nothing but evaluations happened in this model: the cache and its bookkeeping disagree
                    out.fail("c%d.clear_all() raised %r in a model in which elements were only evaluated" % (c["id"], e),
                             X.case_json(case))
                    break
    finally:
        impl.close()


def default_call_cases():
    """Scenario family "a call made inside a formula denotes the element the same call denotes anywhere": a callee with
    2-3 parameters of which the last 1-3 have default values that differ from each other; one caller per way of
    spelling a call - every number of the defaulted parameters supplied (none, some, all), positionally, by keyword in
    and against parameter order, mixed, one in the middle skipped; the callers and the callee itself (same spellings,
    from outside) are evaluated in two orders.  Call sites spell the callee by name, or (style "mixed") take turns
    between the name, a reference holding the cells, and the attribute path."""
    P0, L = ("p", 0), (lambda i: ("lit", i))
    cases = []
    for n, nd in ((2, 1), (2, 2), (3, 2), (3, 3)):
        req = n - nd
        dfl = [3, 5, 7][:nd]
        # the value shows every parameter: a0 + 10 a1 + 100 a2
        body = P0
        for i in range(1, n):
            body = ("add", body, ("mul", ("p", i), L(10 ** i)))
        callee = {"id": 0, "nparams": n, "defaults": dfl, "body": body}
        spell = []              # (positional count, keyword indices): arguments are a0 (or 1) for parameter 0, 8, 9 above
        for k in range(req, n + 1):                     # parameters 0..k-1 supplied
            for npos in range(0, k + 1):
                kws = list(range(npos, k))
                spell.append((npos, kws))
                if len(kws) > 1:
                    spell.append((npos, kws[::-1]))
        for skip in range(max(req, 1), n - 1):          # a defaulted parameter in the middle left out
            spell.append((skip, [n - 1]))
            spell.append((0, [n - 1] + list(range(skip))))
        spell = sorted(set((a, tuple(b)) for a, b in spell))

        def argval(i, top):
            return ("1" if top else P0) if i == 0 else ((str(7 + i)) if top else L(7 + i))
        cells = [callee]
        for npos, kws in spell:
            pos = [argval(i, False) for i in range(npos)]
            kw = [(i, argval(i, False)) for i in kws]
            call = ("callk", 0, pos, kw) if kw else ("call", 0, pos)
            cells.append({"id": len(cells), "nparams": 1, "body": ("add", call, L(0))})
        # a chain: the partial call below another cells, and twice in one formula
        cells.append({"id": len(cells), "nparams": 1,
                      "body": ("add", ("call", 1 + len(spell) // 2, [P0]), ("call", 0, [P0] + [L(8)] * max(req - 1, n - 2)))})
        for c in cells:
            c.update(cached=True, allow_none=False)
        callers = [["eval", str(c["id"]), "1"] for c in cells[1:]]
        direct = [["eval", "0"] + [argval(i, True) for i in range(npos)] + ["k%d=%s" % (i, argval(i, True)) for i in kws]
                  for npos, kws in spell]
        for style, order, ops in ((None, "callers-first", callers + direct + callers[-1:]),
                                  (None, "direct-first", direct + callers),
                                  ("mixed", "interleaved", [x for pair in zip(direct, callers) for x in pair] + callers[-1:]),
                                  ("mixed", "callers-first", callers + direct[::3])):
            cs = [dict(c) for c in cells]
            if style:
                cs[0]["call_style"] = style
            cases.append({"cells": cs, "refs": {0: 1, 1: 2, 2: 3, 3: 4}, "n_rn": 2, "maxdepth": None, "ops": ops,
                          "label": "default-calls/%d params %d defaults/%s/%s" % (n, nd, style or "name", order)})
    return cases


def name_resolution(out, stats):
    """Every name is resolved in the cells' own space: sibling cells and space-level
    references win over model-level references of the same name, which win over built-ins;
    whichever was defined first."""
    from ..impl import close_all
    for order in (0, 1):
        close_all()
        with quiet():
            m = mx.new_model("N")
            other = m.new_space("Other")
            other.new_cells("f", formula="def f(x): return 1000 + x")
            s = m.new_space("S")

            def model_level():
                m.y = 100
                m.z = 5
                m.len = 77

            def space_level():
                s.new_cells("f", formula="def f(x): return 1 + x")
                s.y = 1
                s.len = 7
            if order == 0:
                model_level()
                space_level()
            else:
                space_level()
                model_level()
            # a model-level name equal to a cells name can only be created after the cells
            m.f = other.f
            s.new_cells("g", formula="def g(x): return f(x)")
            s.new_cells("h", formula="def h(): return y")
            s.new_cells("j", formula="def j(): return z")
            s.new_cells("k", formula="def k(): return len")
            s.new_cells("b", formula="def b(): return abs(-3)")
            got = {}
            for nm, call in (("g", lambda: s.g(2)), ("h", lambda: s.h()), ("j", lambda: s.j()),
                             ("k", lambda: s.k()), ("b", lambda: s.b())):
                try:
                    got[nm] = call()
                except BaseException as e:      # noqa: BLE001 (generated formulas raise KeyboardInterrupt too)
                    got[nm] = "error %s" % type(e).__name__
            want = {"g": 3, "h": 1, "j": 5, "k": 7, "b": 3}
            stats["name_resolution_scenarios"] += 1
            if got != want:
                out.fail("names resolved outside the cells' own space (definition order %d): got %r, want %r" % (
                    order, got, want), {"scenario": "name_resolution", "order": order})
        close_all()


# random programs with copies (implementation-only vocabulary): cells in both spaces, Cells.copy / UserSpace.copy at any
# point of the history, references changed / defined in the spaces afterwards, the copies asked and edited like cells
CFG_COPY = dict(CFG, space_p=0.4, default_p=0.0,
                weights=dict(CFG["weights"], copycell=0.9, copyspace=0.35, setref=1.0, shadow=0.7, unshadow=0.2))


def run(ctx, out):
    extra = [X.gen_case(ctx.rng("copy", i), CFG_COPY) for i in range(ctx.n(25, 400))]
    for i, c in enumerate(extra):
        c["label"] = "copies-random/%d" % i
    stats = X.run_family(ctx, out, CFG, oracle, 150, 2500, structured=default_call_cases() + X.copy_cases() + extra)
    name_resolution(out, stats)
    out.coverage["input_distribution"]["name_resolution_scenarios"] = stats["name_resolution_scenarios"]
    # which function the cache is a cache OF: formula shapes at Python level, handed over in every way
    from .. import formula_shapes
    kinds = formula_shapes.run(ctx, out, stats, 20, 600)
    out.coverage["formula_shapes"] = {
        "kinds": kinds, "histories": stats["shape_histories"],
        "ways": {w: stats["shape_way_" + w] for w in formula_shapes.WAYS},
        "rule": "programs of 3-5 cells (def and lambda formulas whose text contains inner lambdas, nested defs / "
                "classes, comprehensions, conditional expressions, decorators, defaults, keywords inside strings and "
                "comments), every kind forced once, handed over as source text / function objects of a module file / "
                "defcells / set_formula / UserSpace.copy / Cells.copy, two request orders; reference = the same text "
                "compiled by Python over a plain dict"}
    for k in list(stats):
        if k.startswith("shape_"):
            out.coverage["input_distribution"][k] = stats[k]
    out.assumptions.append("Python's own evaluation of arithmetic and inspect.Signature.bind are exercised, not modelled")


def replay(ctx, payload, out):
    import collections
    h = payload.get("history") or {}
    if isinstance(h, dict) and h.get("scenario") == "name_resolution":
        name_resolution(out, collections.Counter())
        return
    if isinstance(h, dict) and h.get("scenario") == "formula_shapes":
        from .. import formula_shapes
        formula_shapes.replay(h, out)
        return
    X.replay_family(ctx, payload, out, CFG, oracle)
