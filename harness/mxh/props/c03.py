"""C03 – derived members equal re-derivation from defined members along the C3 order.

After every operation of random histories of member and base edits (interleaved with
evaluations), the implementation's *defined* members and direct bases are read back and
derivation from scratch is computed three independent ways:
  * by the Lean specification (`MxModel.Struct.derive`, `MxModel.C3.mro`; theorems in Props/C03.lean),
  * by Python's own C3 (`type.__mro__` over classes mirroring the spaces) plus a direct search,
  * by modelx itself on a brand-new model rebuilt from the definitions alone (values).
The implementation's `bases`, its derived cells and references (which names, whose formula /
value / flags) and the values of all cells must agree with them.
"""
import collections

from .. import core
from .. import structworld as W
from .. import struct_props as S
from ..mechworld import MechCorr
from .. import struct_api_gen as api
from ..impl import mx, close_all, quiet

CFG = {
    "weights": {"new_space": 2.0, "del_space": 0.5, "new_cells": 3.0, "set_formula": 2.0, "set_cached": 0.6,
                "del_cells": 1.5, "rename_cells": 0.4, "add_bases": 2.5, "remove_bases": 3.0, "set_ref": 2.0,
                "del_ref": 0.8, "set_mref": 0.3, "eval": 2.0, "evalall": 0.4, "bad": 0.5},
    "min_ops": 10, "max_ops": 24,
    "enum_always": ("del_space", "remove_bases", "del_cells", "del_ref", "rename_cells"),   # every edit that takes a definer away
    # references carry a mode (auto / relative / absolute) and may hold cells and spaces: mode and binding of a
    # derived reference are those of its first definer, re-established whenever the first definer changes
    "ref_modes": 0.45, "obj_refs": 0.3,
    "extra_light": True,
    "extra_always": (lambda e: e[0] == "add_bases" and len(e[2]) == 1,),
    "extra_motifs": [
        # two bases define one reference name with DIFFERENT modes (object-valued); a cells reads it
        [["new_space", "-", "A", []], ["new_cells", "A", "f", S.F(0, 1)], ["set_ref", "A", "t", ["obj", "A.f"], "absolute"],
         ["new_space", "-", "B", []], ["new_cells", "B", "g", S.F(0, 2)], ["set_ref", "B", "t", ["obj", "B.g"], "auto"],
         ["new_cells", "B", "h", S.F(9, 1, "h", "t")], ["new_space", "-", "C", ["A", "B"]], ["new_space", "-", "D", ["C"]]],
        # a chain in which the middle space overrides the reference with another mode
        [["new_space", "-", "A", []], ["new_cells", "A", "f", S.F(0, 1)], ["set_ref", "A", "t", ["obj", "A.f"], "auto"],
         ["new_cells", "A", "h", S.F(9, 1, "h", "t")], ["new_space", "-", "B", ["A"]], ["new_space", "-", "C", ["B"]],
         ["set_ref", "B", "t", ["obj", "A.f"], "absolute"], ["set_ref", "A", "s", 4, "absolute"], ["set_ref", "B", "s", 5]],
        # the definer of a later base; an intermediate base that may gain an earlier definer (other mode)
        [["new_space", "-", "A", []], ["new_cells", "A", "f", S.F(0, 1)], ["set_ref", "A", "t", ["obj", "A.f"], "relative"],
         ["new_cells", "A", "h", S.F(9, 1, "h", "t")], ["new_space", "-", "B", []], ["new_cells", "B", "g", S.F(0, 2)],
         ["set_ref", "B", "t", ["obj", "B.g"], "absolute"], ["new_space", "-", "C", []], ["new_space", "-", "D", ["C", "B"]]],
        # asymmetric inheritance graphs (paths of different lengths to one space, sub spaces below the join)
    ] + S.MOTIFS_DAG,
    "top_names": ["A", "B", "C", "D", "E", "G"],
}

RULE = ("random histories (10-24 ops) over up to 6 top-level spaces and nested children: defining, redefining, "
        "deleting cells and references in bases, overriding and un-overriding in subs, adding/removing bases "
        "(diamonds and multiple bases arise), deleting spaces, interleaved with evaluations; non-trivial = some "
        "space had a derived member whose first definer is not its first direct base, or a diamond existed")


def declared_bases(ops, upto, results):
    """the direct bases in the order the user declared them (new_space bases=[...], add_bases in call
    order, minus removed ones), tracked by the harness itself"""
    decl = {}
    for op, r in zip(ops[:upto + 1], results):
        if r != "ok":
            continue
        if op[0] == "new_space":
            path = op[2] if op[1] == "-" else op[1] + "." + op[2]
            # a base named twice in one declaration: the property does not say where it then stands
            decl[path] = list(op[3]) if len(set(op[3])) == len(op[3]) else None
        elif op[0] == "add_bases":
            decl.setdefault(op[1], [])
            if decl[op[1]] is None:
                continue
            if any(b in decl[op[1]] for b in op[2]) or len(set(op[2])) != len(op[2]):
                # declaring a base a second time: the property does not say where it then stands
                decl[op[1]] = None
            else:
                decl[op[1]] += list(op[2])
        elif op[0] == "remove_bases":
            if decl.get(op[1]) is not None:
                decl[op[1]] = [b for b in decl.get(op[1], []) if b not in op[2]]
        elif op[0] in ("del_space", "del_mref", "del_ref"):
            # `del model.name` / `del space.name` delete the space of that name, if there is one
            gone = op[1] if op[0] != "del_ref" else "%s.%s" % (op[1], op[2])
            if op[0] != "del_space" and gone not in decl:
                continue
            for p in list(decl):
                if p == gone or p.startswith(gone + "."):
                    del decl[p]
            for p in decl:
                if decl[p] is not None:
                    decl[p] = [b for b in decl[p] if not (b == gone or b.startswith(gone + "."))]
    return decl


def check_state(live, ops, k, out, stats, results=None):
    """derivation from scratch vs the implementation, at the state after op k"""
    hist = S.hist_json(ops, k)
    if results is not None:
        decl = declared_bases(ops, k, results)
        for p, s in W.all_spaces(live.m):
            got = [W.rel(live.m, b) for b in s._direct_bases]
            if decl.get(p) is not None and got != decl[p]:
                out.fail("direct bases of %s are reported as %s but were declared in the order %s" % (
                    p, got, decl[p]), hist)
    defs = W.definitions(live.m)
    desc = W.describe(live.m, with_values=False)
    paths = list(defs["spaces"])
    lines = W.struct_lines(defs)
    npre = len(lines)
    for p in paths:
        lines += ["mro " + p, "derived " + p]
    res = core.DriverProc.ask("struct", lines)[npre:]
    py = W.python_c3(defs)
    exp = W.expected_members(defs, py)
    nontrivial = False
    for i, p in enumerate(paths):
        lean_mro, lean_der = res[2 * i], res[2 * i + 1]
        impl_bases = desc["spaces"][p]["bases"]
        py_mro = py[p]
        stats["spaces_checked"] += 1
        if py_mro is None or lean_mro == "mro-none":
            if not (py_mro is None and lean_mro == "mro-none"):
                out.disagree(hist, k, "python C3 %s" % py_mro, lean_mro, layer="struct:mro-existence")
            out.fail("space %s has no consistent linearisation after an accepted edit" % p, hist)
            continue
        if lean_mro != "mro " + " ".join(py_mro):
            out.disagree(hist, k, "python C3 " + " ".join(py_mro), lean_mro, layer="struct:mro")
        if impl_bases != py_mro[1:]:
            out.fail("bases of %s are %s but the C3 linearisation of its direct bases is %s" % (
                p, impl_bases, py_mro[1:]), hist)
        if len(py_mro) > 2 and len(defs["spaces"][p]["direct_bases"]) >= 2:
            nontrivial = True
        for kind in ("cells", "refs"):
            got = {n: v for n, v in desc["spaces"][p][kind].items() if v["derived"]}
            want = exp[p][kind]
            lean_part = lean_der.split(" refs ")[0][len("derived cells "):] if kind == "cells" else \
                lean_der.split(" refs ")[1] if " refs " in lean_der else lean_der.split(" refs")[1]
            lean_want = dict(x.split("<") for x in lean_part.split())
            if lean_want != want:
                out.disagree(hist, k, "python derive %s %s" % (kind, want), lean_der, layer="struct:derive")
            if set(got) != set(want):
                out.fail("%s: derived %s are %s but derivation from scratch gives %s" % (
                    p, kind, sorted(got), sorted(want)), hist,
                    detail={"definers": want})
                continue
            for n, definer in want.items():
                base = desc["spaces"][definer][kind][n]
                mine = got[n]
                if definer != (py_mro[1] if len(py_mro) > 1 else None):
                    nontrivial = True
                if kind == "cells":
                    if (mine["src"], mine["cached"], mine["allow_none"]) != (base["src"], base["cached"], base["allow_none"]):
                        out.fail("%s.%s is derived but does not carry the formula/flags of its first definer %s" % (
                            p, n, definer), hist, detail={"derived": mine, "definer": base})
                else:
                    if mine["mode"] != base["mode"]:
                        out.fail("%s.%s (derived reference) has mode %s, its first definer %s has %s" % (
                            p, n, mine["mode"], definer, base["mode"]), hist)
                    elif not base["value"].startswith("<") and mine["value"] != base["value"]:
                        out.fail("%s.%s (derived reference) has value %s, its first definer %s has %s" % (
                            p, n, mine["value"], definer, base["value"]), hist)
    return nontrivial


def values_vs_rebuilt(live, ops, k, out, stats):
    """every cells returns what it returns in a model rebuilt from the definitions alone
    (a derived cells evaluates with names resolved in the sub space)"""
    defs = W.definitions(live.m)
    inputs = S.inputs_of(live.m)
    mine = S.eval_everything(live)
    reb, problems = S.rebuild(defs, inputs)
    try:
        if problems:
            stats["rebuild_problems"] += 1
            return
        theirs = S.eval_everything(reb)
        d_live = W.describe(live.m, with_values=False)["spaces"]
        d_reb = W.describe(reb.m, with_values=False)["spaces"]
    finally:
        reb.close()
    # derived references: mode and binding as in the model rebuilt from the definitions (the first definer's mode;
    # relative / auto references to the definer or its cells denote the deriving space / its cells)
    for p, sd in d_live.items():
        for rn, r in sd["refs"].items():
            r2 = d_reb.get(p, {"refs": {}})["refs"].get(rn)
            if not r["derived"] or r2 is None or "<dead>" in (r["value"], r2["value"]):
                continue
            stats["derived_refs_vs_rebuilt"] += 1
            if (r["mode"], r["value"]) != (r2["mode"], r2["value"]):
                out.fail("the derived reference %s.%s has mode %s and denotes %s, in a model rebuilt from the current "
                         "definitions it has mode %s and denotes %s" % (p, rn, r["mode"], r["value"], r2["mode"], r2["value"]),
                         S.hist_json(ops, k))
                return
    stats["values_compared"] += len(mine)
    for q, v in mine.items():
        if q in theirs and theirs[q] != v:
            if "Deep" in v or "Deep" in theirs[q]:
                continue
            out.fail("%s returns %s but a model rebuilt from the current definitions returns %s" % (q, v, theirs[q]),
                     S.hist_json(ops, k))
            break


def run_history(ops, out, stats, check_values=True, rng=None, n_ops=0, gen=None):
    """replays `ops`; when `rng` is given, generates `n_ops` further operations adaptively
    (appending them to `ops`)"""
    close_all()
    live = W.Live("M")
    nontrivial = False
    results = []
    mech = MechCorr()
    focus = (2 if rng.random() < 0.4 else None) if rng is not None else None
    if rng is not None and not ops and gen is not None:
        ops += S.clash_prefix(rng)
    elif rng is not None and not ops:
        ops += [["set_mref", "u", 11], ["set_mref", "r", 12]] + S.motif(rng, cfg=CFG)
    try:
        k = 0
        broken = False
        while True:
            if k >= len(ops):
                if rng is None or k >= n_ops:
                    break
                ok, nxt = S.observe(out, lambda: S.hist_json(ops), "when choosing the next operation", lambda: (gen or S.gen_next)(rng, live, CFG, ops, focus=focus))
                if not ok:
                    broken = True
                    break
                ops.append(nxt)
            op = ops[k]
            k += 1
            if op[0] == "evalall":
                S.eval_everything(live)
                results.append("ok")
                continue
            ok, _ = S.observe(out, lambda: S.hist_json(ops, k - 2), "before %s" % op[0], mech.before, live, k - 1, op)
            if not ok:
                broken = True
                break
            r = live.apply(op)
            results.append(r)
            stats["op:" + op[0]] += 1
            if r.startswith("err"):
                stats["rejected:" + op[0]] += 1
            # an exception of the implementation while its state is read back is an observation (the edit
            # left the model in a state that cannot be described), never a crash of the check
            ok, _ = S.observe(out, lambda: S.hist_json(ops, k - 1), "after %s (%s)" % (op[0], r.split(" ")[0]),
                              mech.after, live, k - 1, op, r)
            if not ok:
                broken = True
                break
            if op[0] in ("eval", "set_value", "clear", "clear_all", "clear_at"):
                continue
            n_fail = len(out.failures)
            ok, nt = S.observe(out, lambda: S.hist_json(ops, k - 1), "after %s (%s)" % (op[0], r.split(" ")[0]),
                               check_state, live, ops, k - 1, out, stats, results)
            api.assign_keys(out, n_fail, live, op, r)
            if not ok:
                broken = True
                break
            if nt:
                nontrivial = True
            if out.failures:
                break
        if check_values and not out.failures:
            S.observe(out, lambda: S.hist_json(ops), "at the end of the history",
                      values_vs_rebuilt, live, ops, len(ops) - 1, out, stats)
        # the incremental mechanism model (Struct/Mech.lean) against what the implementation did, edit by edit
        mech.finish(out, lambda kk: S.hist_json(ops, kk), stats)
    finally:
        live.close()
        close_all()
    return nontrivial


# ----------------------------------------------------------------------------- scenario family: arrivals of definitions
#
# The small-scope enumeration of the property: every ordered-base DAG on up to four spaces (and the five-space DAGs
# obtained by putting an intermediate space into one edge of a four-space DAG: a base reached THROUGH a space that
# has nothing of its own), every kind of member (cells, references), and the member defined
#   * in two spaces, in both orders, at every moment of the creation of the spaces at which it can be done
#     ("pairs": every position of (existing definer, new definer) in every linearisation, with the sub spaces
#     created before the first, between the two, or after both definitions), and
#   * in EVERY space in EVERY order, with all spaces created first ("late") or each definition made as soon as its
#     space exists ("early").
# After every operation the whole state is compared with derivation from scratch and with the mechanism model
# (`run_history`).  An arrival is *re-pointing* when a space that exists already holds a derived member of the
# name whose first definer comes later in its linearisation than the space the new definition is made in: the
# incremental step has to move an existing derived member to another definer.  The quick tier runs every re-pointing
# pair on the four-space DAGs and seeded samples of the rest; the thorough tier runs everything on <= 4 spaces.

SPACE_NAMES = ["A", "B", "C", "D", "E"]
ARRIVAL_NAME = {"cells": "g", "refs": "t"}


def _linearise(bases):
    """[linearisation (indices) of every space] by Python's own C3, or None when some space has none"""
    cls, res = [], []
    for i, bs in enumerate(bases):
        try:
            c = type("S%d" % i, tuple(cls[b] for b in bs), {"_i": i})
        except TypeError:
            return None
        cls.append(c)
        res.append([k._i for k in c.__mro__[:-1]])
    return res


def ordered_dags(n):
    """every assignment of an ORDERED list of earlier spaces as direct bases to each of n spaces (creation order =
    index order) for which every space has a linearisation: [(bases, linearisations)]"""
    import itertools
    out = []

    def rec(i, cur):
        if i == n:
            out.append(([list(b) for b in cur], _linearise(cur)))
            return
        for k in range(i + 1):
            for bs in itertools.permutations(range(i), k):
                if _linearise(cur + [list(bs)]) is not None:
                    rec(i + 1, cur + [list(bs)])
    rec(0, [])
    return out


def subdivided(bases):
    """the DAGs with one more space: an intermediate space without anything of its own put into one edge
    (s -> I -> b instead of s -> b); the new space is created just before s"""
    out = []
    for s, bs in enumerate(bases):
        for j in range(len(bs)):
            new = []
            for i, b2 in enumerate(bases):
                if i == s:
                    new.append([bs[j]])             # the intermediate space, at index s
                shifted = [x + 1 if x >= s else x for x in b2]
                if i == s:
                    shifted[j] = s
                new.append(shifted)
            if _linearise(new) is not None and new not in out:
                out.append(new)
    return out


def member_op(kind, space, k):
    if kind == "cells":
        return ["new_cells", space, ARRIVAL_NAME[kind], S.F(0, k + 1)]
    # references: every definer another value, and the modes differ too (a derived reference has its first definer's)
    return ["set_ref", space, ARRIVAL_NAME[kind], 20 + k, ("auto", "absolute", "relative")[k % 3]]


def arrival_history(bases, kind, definers, slots):
    """spaces created in index order; definers[i] gets the member after slots[i] spaces have been created"""
    ops = []
    di = 0
    for t in range(len(bases) + 1):
        while di < len(definers) and slots[di] == t:
            ops.append(member_op(kind, SPACE_NAMES[definers[di]], definers[di]))
            di += 1
        if t < len(bases):
            ops.append(["new_space", "-", SPACE_NAMES[t], [SPACE_NAMES[b] for b in bases[t]]])
    return ops


def repointing(lin, definers, slots):
    """does some arrival of the history move an existing derived member to a new first definer?"""
    for i in range(1, len(definers)):
        x, earlier = definers[i], definers[:i]
        for d in range(min(slots[i], len(lin))):
            if d == x or d in earlier or x not in lin[d]:
                continue
            before = [y for y in lin[d] if y in earlier]
            if before and lin[d].index(x) < lin[d].index(before[0]):
                return True
    return False


def pair_slots(n, y, x):
    """every pair of moments (number of spaces created so far) at which y and then x can get the member"""
    return [(t1, t2) for t1 in range(y + 1, n + 1) for t2 in range(max(t1, x + 1), n + 1)]


def arrival_family(ctx):
    """[(label, ops)] - see the comment above"""
    import itertools
    thorough = ctx.tier == "thorough"
    rng = ctx.rng("arrivals")
    shapes4 = [d for n in (3, 4) for d in ordered_dags(n)]
    shapes5 = []
    for bases, _ in shapes4:
        if len(bases) == 4:
            shapes5 += [b for b in subdivided(bases) if b not in shapes5]
    shapes5 = [(b, _linearise(b)) for b in shapes5]
    kinds = ("cells", "refs")

    def slots_every(perm, early):
        n = len(perm)
        if not early:
            return tuple([n] * n)
        sl, t = [], 0
        for d in perm:
            t = max(t, d + 1)
            sl.append(t)
        return tuple(sl)

    def draw(shapes, want_repointing):
        """one history drawn at random: a pair at some moments, or every space in some order"""
        for _ in range(200):
            bases, lin = rng.choice(shapes)
            n = len(bases)
            kind = rng.choice(kinds)
            if rng.random() < 0.5:
                y, x = rng.sample(range(n), 2)
                h = ("pair", bases, kind, (y, x), rng.choice(pair_slots(n, y, x)))
            else:
                perm = tuple(rng.sample(range(n), n))
                h = ("every", bases, kind, perm, slots_every(perm, rng.random() < 0.4))
            if not want_repointing or repointing(lin, h[3], h[4]):
                return h
        return h

    always, other_moments, plain_late = [], [], []
    for bases, lin in shapes4:
        n = len(bases)
        for kind in kinds:
            for y, x in itertools.permutations(range(n), 2):
                for sl in pair_slots(n, y, x):
                    h = ("pair", bases, kind, (y, x), sl)
                    if repointing(lin, (y, x), sl):
                        (always if sl == (n, n) else other_moments).append(h)
                    elif sl == (n, n):
                        plain_late.append(h)
    if thorough:
        chosen = always + other_moments + plain_late
        for bases, lin in shapes4:
            for kind in kinds:
                for perm in itertools.permutations(range(len(bases))):
                    chosen.append(("every", bases, kind, perm, slots_every(perm, False)))
        chosen += [draw(shapes4, False) for _ in range(800)] + [draw(shapes5, i % 2 == 0) for i in range(2000)]
    else:
        chosen = always + rng.sample(other_moments, 80) + rng.sample(plain_late, 20) \
            + [draw(shapes4, i % 4 != 0) for i in range(60)] + [draw(shapes5, i % 4 != 0) for i in range(80)]
    out, seen = [], set()
    for what, bases, kind, definers, slots in chosen:
        label = "%s of %s in %s at %s, bases %s" % (what, kind, "".join(SPACE_NAMES[d] for d in definers), list(slots),
                                                    " ".join("%s(%s)" % (SPACE_NAMES[i], ",".join(SPACE_NAMES[b] for b in bs))
                                                             for i, bs in enumerate(bases)))
        if label not in seen:
            seen.add(label)
            out.append((label, arrival_history(bases, kind, definers, slots)))
    return out, {"arrival_repointing_pairs_all": len(always), "arrival_shapes": len(shapes4) + len(shapes5)}


def run_arrivals(ctx, out, stats):
    fam, counts = arrival_family(ctx)
    stats.update(counts)
    for label, ops in fam:
        sub = core.Outcome()
        run_history([list(o) for o in ops], sub, stats, check_values=False)
        S.merge(out, sub)
        stats["arrival_histories"] += 1
        if len([f for f in out.failures if not f.get("key")]) >= 3 or out.disagreements:
            break


def run(ctx, out):
    stats = collections.Counter()
    n = ctx.n(60, 1200)
    nontrivial, seen, samples = 0, set(), []
    # name-clash histories: the edits the mechanism model's name checks (and its disjointness invariant) are about
    nc = ctx.n(16, 600)
    cases = [(ops, None, None) for ops in S.load_corpus("C03")] + [([], ctx.rng("hist", i), None) for i in range(n)] \
        + [([], ctx.rng("clash", i), S.gen_clash) for i in range(nc)]
    for i, (ops, rng, gen) in enumerate(cases):
        sub = core.Outcome()
        stats["clash_histories"] += gen is not None
        nt = run_history(ops, sub, stats, rng=rng, n_ops=(rng.randint(12, 30) if rng else 0), gen=gen)
        S.merge(out, sub)
        key = repr(ops)
        if key not in seen:
            seen.add(key)
            nontrivial += bool(nt)
        if len(samples) < 2 and rng is not None:
            samples.append([repr(o) for o in ops])
    # small-scope exhaustive part: every motif program x applicable single edits (+ pairs)
    class _H(S.Hooks):
        def start(self, live, stats):
            self.results = []
            self.mech = MechCorr()

        def before(self, live, ops, k, op, stats):
            self.mech.before(live, k, op)

        def after(self, live, ops, k, op, result, out2, stats):
            self.results.append(result)
            if op[0] != "evalall":
                self.mech.after(live, k, op, result)
            if op[0] in ("eval", "evalall", "set_value", "clear", "clear_all", "clear_at"):
                return
            check_state(live, ops, k, out2, stats, self.results)

        def end(self, live, ops, out2, stats):
            if not out2.failures:
                values_vs_rebuilt(live, ops, len(ops) - 1, out2, stats)
            self.mech.finish(out2, lambda kk: S.hist_json(ops, kk), stats)
    S.enumerate_edits(ctx, out, "C03", _H, CFG, stats)

    # `space.rename`: the rename family (struct_props.rename_family: nested spaces bearing an ancestor's name, renamed
    # to a fresh / an ancestor's / a taken name, being bases, having bases; edits of everything around after each
    # rename, rename back) - mechanism model edit by edit THROUGH the accepted renames (`renamespace`,
    # Struct/MechRename.lean), derivation from scratch after every edit, values against a rebuilt model at the end
    class _HRen(_H):
        def after(self, live, ops, k, op, result, out2, stats):
            self.results.append(result)
            if op[0] != "evalall":
                self.mech.after(live, k, op, result)
            if op[0] in ("eval", "evalall", "set_value", "clear", "clear_all", "clear_at"):
                return
            # (the harness's own record of the declared bases is kept by path and does not follow renames)
            check_state(live, ops, k, out2, stats, None)
    fam_ren = S.rename_family()
    S.run_family(out, stats, fam_ren, _HRen, CFG, "rename_family")
    api.run_c03(ctx, out, stats, run_history)
    run_arrivals(ctx, out, stats)
    out.coverage.update({"evaluations": len(cases) + stats["enumerated_scenarios"] + stats["arrival_histories"] + len(fam_ren), "programs": len(seen) + len(fam_ren),
                         "distinct_nontrivial": nontrivial,
                         "rule": RULE + "; plus name-clash histories (struct_props.gen_clash: one alphabet of four names "
                                        "for cells, references, child spaces, model-level references and top-level spaces) "
                                        "compared edit by edit with the mechanism model"
                                        "; plus every motif program x applicable single edits (thorough: all) and pairs"
                                        "; plus the rename family (struct_props.rename_family): space.rename of nested spaces "
                                        "bearing an ancestor's name, compared with the mechanism model through every accepted rename"
                                        "; plus the arrival family: ordered-base DAGs on 3-4 spaces (all) and 5 spaces (an "
                                        "intermediate space put into one edge) x cells / references x the member defined in two "
                                        "spaces in both orders at every moment of the creation of the spaces, and in every space in "
                                        "every order (quick: every arrival that moves an existing derived member to a new first "
                                        "definer with all spaces created first, seeded samples of the rest; thorough: all on <= 4 spaces)",
                         "samples": samples, "input_distribution": dict(stats),
                         "traces_validated_against_impl": len(cases)})
    out.assumptions.append("object-valued references (rebinding) are C10's subject and are not compared here")


def replay(ctx, payload, out):
    h = payload.get("history")
    if h and "ops" in h:
        run_history(S.ops_from_json(h), out, collections.Counter())
