"""C06 – a value edit discards exactly its dependents; inputs persist.

Correspondence: held values with input/computed marks and the trace graph against the
Lean mechanism model after every op (assign, overwrite, clear_at, clear, clear_all, eval; in the scenario family
"input then redefinition" also a new formula and a switch of the cache flag).
Oracle (implementation only, own replay): before each value edit the dependents of the
edited element are computed from the edges of the dependency graph by the harness' own
breadth-first search; after the edit exactly those (and the element itself) are gone,
everything else is still held, unchanged, and is served without any formula running;
user-assigned values survive clear() and edits of other elements and are what the cells
returns; an element is treated as an input iff a value was assigned to it and it was not cleared since (a ledger
kept from the operations alone, compared with the implementation's input marks after every operation); with the recalculation option on, the former leaf dependents are held again with
the values lazy recomputation gives.
Correspondence with the recalculation option on (`recalc_correspondence`): the same history prefixed with
`recalc on` on the implementation and on the mechanism model (`St.setValueRecalc`: the lazy assignment followed
by a top-level evaluation of every former leaf dependent) - result of every op, values with input marks, trace
graph and reference graph after every op.
"""
from .. import exec_props as X
from .. import execworld
from ..execworld import ExecImpl, node_s, val_s, parse_val
from ..impl import mx, quiet

CFG = {
    "weights": {"eval": 6, "reeval": 1, "set": 3, "clearat": 2, "clear": 0.8, "clearall": 0.5},
    "compare": ["values", "graph", "refgraph"],
    "maxdepths": [None],
    "raise_p": 0.02, "none_p": 0.02, "catch_all_p": 0.05, "all_cached": False, "default_p": 0.35, "same_p": 0.3,
    "rule": "random dependency DAGs (recursion, fan-in through lower cells, uncached cells in between) with "
            "histories mixing evaluations and value edits of arbitrary elements (three in ten assignments give a computed "
            "element the very object it holds); non-trivial = an edit whose "
            "element had at least one held dependent and at least one held non-dependent",
}


def parse_values(s):
    d = {}
    for x in s.split()[1:]:
        k, v = x.split("=")
        d[k] = v
    return d


def parse_graph(s):
    body = s[len("graph nodes "):]
    ns, es = body.split(" edges ") if " edges " in body else (body.replace(" edges", ""), "")
    edges = [tuple(e.split(">")) for e in es.split()]
    return ns.split(), edges


def descendants(edges, start):
    succ = {}
    for a, b in edges:
        succ.setdefault(a, []).append(b)
    seen, todo = set(), [start]
    while todo:
        x = todo.pop()
        for y in succ.get(x, []):
            if y not in seen:
                seen.add(y)
                todo.append(y)
    return seen


def check_inputs(impl, inputs, op, hist, out):
    """an element is an input iff a value was assigned to it and it was not cleared since (the ledger `inputs`,
    kept from the operations alone) - what clear() and a change of the namespace spare"""
    marked = {x for x, v in parse_values(impl.observe("values")).items() if v.endswith("I")}
    if marked != inputs:
        out.fail("after %s the elements treated as inputs are %s; assigned and not cleared since: %s" % (
            " ".join(op), sorted(marked), sorted(inputs)), hist)
        return False
    return True


RECALC_OBS = ["values", "graph", "refgraph"]


def recalc_correspondence(case, out, stats):
    """The history with the recalculation option on, run on modelx and on the mechanism model.  modelx iterates over a
    `set` of target nodes: when a recomputation FAILS and there are several targets, which of the others were evaluated
    before the failure is not determined by the program - the comparison of that history stops there (counted)."""
    ops = [["recalc", "on"]] + [list(o) for o in case["ops"]]
    rcase = dict(case, ops=ops)
    recs = execworld.run_both(case["cells"], case["refs"], case["n_rn"], case["maxdepth"], ops, observe=RECALC_OBS)
    stats["recalc_corr_histories"] += 1
    for k, rec in enumerate(recs):
        op = rec["op"]
        if op[0] == "set":
            stats["recalc_corr_sets"] += 1
            if "err Formula" in (rec["impl"], rec["model"]):
                stats["recalc_corr_failed_recomputations"] += 1
                # the former leaf dependents, from the implementation's own graph before the assignment
                _, edges = parse_graph(recs[k - 1]["obs"]["graph"][0])
                eq = op.index("=")
                key = X.canon_key(case, int(op[1]), op[2:eq])
                n = None if key is None else node_s(int(op[1]), key)
                ds = descendants(edges, n) if n is not None else set()
                leaves = [x for x in ds if not x.endswith("*") and not any(a == x for a, _ in edges)]
                if len(leaves) > 1:
                    stats["recalc_corr_order_dependent_stops"] += 1
                    return
            elif rec["impl"] == "ok" and rec["obs"]["values"][0] != recs[k - 1]["obs"]["values"][0]:
                _, edges = parse_graph(recs[k - 1]["obs"]["graph"][0])
                eq = op.index("=")
                key = X.canon_key(case, int(op[1]), op[2:eq])
                n = None if key is None else node_s(int(op[1]), key)
                if n is not None and descendants(edges, n):
                    stats["recalc_corr_sets_with_dependents"] += 1
        if rec["model"] is None:
            stats["recalc_corr_impl_only_stops"] += 1
            return          # implementation-only vocabulary (execworld.impl_only): the driver has no answer to compare
        if rec["impl"] != rec["model"]:
            out.disagree(X.case_json(rcase), k, rec["impl"], rec["model"], layer="exec:recalc:result")
            return
        for w in RECALC_OBS:
            a, b = rec["obs"][w]
            if a != b:
                out.disagree(X.case_json(rcase), k, a, b, layer="exec:recalc:" + w)
                return


def oracle(case, recs, out, stats):
    nontrivial = False
    if case["ops"] and case["ops"][0][0] == "recalc":
        return False        # a replayed recalculating history: what is replayed is the correspondence (`compare`)
    recalc_correspondence(case, out, stats)
    for recalc in (False, True):
        impl = ExecImpl(case["cells"], case["refs"], case["n_rn"], case["maxdepth"], log=True)
        inputs, inputs_ok = set(), True
        try:
            if recalc:
                mx.set_recalc(True)
            for k, op in enumerate(case["ops"]):
                hist = X.case_json(dict(case, ops=case["ops"][:k + 1]))
                hist["recalc"] = recalc
                if op[0] == "eval":
                    impl.apply(op)
                    inputs_ok = inputs_ok and check_inputs(impl, inputs, op, hist, out)
                    continue
                before = parse_values(impl.observe("values"))
                if op[0] in ("copycell", "copyspace", "setref", "delref", "shadow", "unshadow"):
                    inputs_ok = _copy_or_ref_edit(impl, op, before, inputs, hist, out, stats) and inputs_ok
                    continue
                nodes, edges = parse_graph(impl.observe("graph"))
                cid = int(op[1])
                impl.log = []
                res = impl.apply(op)
                after = parse_values(impl.observe("values"))
                if op[0] in ("set", "clearat"):
                    eq = op.index("=") if "=" in op else len(op)
                    # the element the arguments denote, however they are spelled (subscript shorter than the
                    # parameter list, keywords): bound by Python's own binder on the declared signature, not by modelx
                    key = X.canon_key(case, cid, op[2:eq])
                    n = None if key is None else node_s(cid, key)
                    targets = [n] if n in before else []
                    # with recalculation on, the assignment is made and a dependent that is recomputed at once may
                    # fail: the error comes out of the assignment, but the assignment was not refused
                    recalc_failed = op[0] == "set" and recalc and res.startswith("err Formula")
                    if op[0] == "set" and res != "ok" and not recalc_failed:
                        targets = []        # a refused assignment (unhashable key, None not allowed) changes nothing
                elif op[0] == "clear":
                    # everything of the cells that is not an input (by the ledger, not by the implementation's marks)
                    targets = [x for x in before if x.startswith("%d[" % cid) and x not in inputs]
                else:
                    # clear_all; a new formula or a switch of the cache flag: every element of the cells, inputs too
                    # (and what was computed through the cells while it was uncached)
                    targets = [x for x in before if x.startswith("%d[" % cid)]
                gone = set(targets)
                for t in targets + (["%d*" % cid] if op[0] in ("setformula", "setcached") else []):
                    gone |= {x for x in descendants(edges, t) if not x.endswith("*")}
                # the ledger of inputs
                if op[0] == "set" and (res == "ok" or recalc_failed) and n is None:
                    out.fail("%s was accepted although the subscript does not bind to the parameters" % " ".join(op), hist)
                    break
                if op[0] == "set" and (res == "ok" or recalc_failed):
                    inputs.add(n)
                elif op[0] == "clearat":
                    inputs.discard(n)
                elif op[0] in ("clearall", "setformula", "setcached"):
                    inputs -= {x for x in inputs if x.startswith("%d[" % cid)}
                expect = {x: v for x, v in before.items() if x not in gone}
                leaves = []
                if op[0] == "set" and (res == "ok" or recalc_failed):
                    expect[n] = op[eq + 1] + "I"
                    if recalc and n in before:
                        ds = descendants(edges, n)
                        leaves = [x for x in ds if not x.endswith("*") and not any(a == x for a, _ in edges)]
                stats["oracle_edits_examined"] += 1
                inputs_ok = inputs_ok and check_inputs(impl, inputs, op, hist, out)
                if gone - set(targets) and len(expect) > (1 if op[0] == "set" else 0):
                    nontrivial = True
                if recalc and leaves:
                    stats["oracle_recalc_edits"] += 1
                    # the leaves (and what they need) were recomputed at once; nothing else changed
                    for x in leaves:
                        if x not in after and not recalc_failed:
                            out.fail("recalc: former leaf dependent %s not recomputed after %s" % (x, " ".join(op)), hist)
                    # recalculation = the lazy edit followed by evaluating the former leaf dependents: whatever that
                    # computes (also elements never held before, when the new value sends a formula down another
                    # path) and nothing else
                    extra = {x: v for x, v in after.items() if x not in expect}
                    # every former leaf is evaluated lazily, also one whose recalculation failed: what it computed before failing stays
                    lazy = _lazy_values(case, k, leaves)
                    for x, v in extra.items():
                        if lazy.get(x) != v:
                            out.fail("recalc: %s is %s after %s but the lazy edit followed by evaluating the former leaf "
                                     "dependents gives %s" % (x, v, " ".join(op), lazy.get(x)), hist)
                    if not recalc_failed:
                        for x, v in lazy.items():
                            if after.get(x) != v:
                                out.fail("recalc: %s is %s after %s but the lazy edit followed by evaluating the former "
                                         "leaf dependents gives %s" % (x, after.get(x), " ".join(op), v), hist)
                                break
                    base = {x: v for x, v in after.items() if x in expect}
                    if base != expect:
                        out.fail("recalc: surviving values differ after %s: %s" % (" ".join(op), _diff(expect, base)), hist)
                else:
                    if after != expect:
                        out.fail("after %s the held values are not 'before minus dependents': %s" % (
                            " ".join(op), _diff(expect, after)), hist)
                if op[0] == "set" and res == "ok":
                    _assigned_under_every_spelling(impl, case, cid, key, op, hist, out, stats)
                # survivors are served without running any formula
                impl.log = []
                for x, v in list(expect.items())[:6]:
                    c, key = x.split("[")
                    args = [parse_val(a) for a in key[:-1].split(",")] if key != "]" else []
                    with quiet():
                        try:
                            got = impl.cells[int(c)](*args)
                        except BaseException as e:      # noqa: BLE001 (generated formulas raise KeyboardInterrupt too)
                            out.fail("held value %s could not be served after %s: %r" % (x, " ".join(op), e), hist)
                            continue
                    if val_s(got) + v[-1] != v or impl.log:
                        out.fail("held value %s=%s served as %s, formulas run: %s" % (x, v, val_s(got), impl.log), hist)
                    impl.log = []
        finally:
            mx.set_recalc(False)
            impl.close()
    return nontrivial


def _copy_or_ref_edit(impl, op, before, inputs, hist, out, stats):
    """A copy (Cells.copy, UserSpace.copy) takes the ASSIGNED values of its source with it, as inputs of the copy, and
    nothing else: the calculated values of the source are not values of the copy.
    A reference edit clears calculated values only: every input stays, with its value."""
    from ..execworld import COPY_BASE
    if op[0] == "copycell":
        pairs = [(int(op[1]), int(op[3]))]
    elif op[0] == "copyspace":
        pairs = [(c, COPY_BASE + c) for c, k in sorted(impl.cell_space.items()) if k == 1 and impl.exists(c)]
    else:
        pairs = []
    res = impl.apply(op)
    after = parse_values(impl.observe("values"))
    if pairs and res == "ok":
        stats["oracle_copies_examined"] += 1
        copied = {}
        for src, dst in pairs:
            for x in sorted(inputs):
                if x.startswith("%d[" % src):
                    y = "%d[%s" % (dst, x.split("[", 1)[1])
                    copied[y] = before[x]
                    inputs.add(y)
        # a new cells changes the namespace of its space: calculated values may be discarded by that; none may
        # appear or change, every assigned value stays, and the copy holds exactly the assigned values of its source
        odd = {x: v for x, v in after.items() if copied.get(x, before.get(x)) != v}
        lost = {x: v for x, v in list(before.items()) + list(copied.items()) if x in inputs and after.get(x) != v}
        if odd or lost:
            out.fail("after %s the copy does not hold exactly the assigned values of its source (as inputs): "
                     "unexpected %s, missing %s" % (" ".join(op), dict(list(odd.items())[:4]), dict(list(lost.items())[:4])), hist)
            return False
    else:
        lost = {x: v for x, v in before.items() if x in inputs and after.get(x) != v}
        if lost:
            out.fail("after %s assigned values are gone or changed: %s" % (" ".join(op), lost), hist)
            return False
    return check_inputs(impl, inputs, op, hist, out)


def _assigned_under_every_spelling(impl, case, cid, key, op, hist, out, stats):
    """the assigned value is what the cells returns for those arguments – positional, by keyword, defaults left out,
    as a subscript – without running a formula, and the element is an input under every spelling"""
    c = next(x for x in case["cells"] if x["id"] == X.origin_of(case["ops"], cid))
    cells = impl.cells[cid]
    v = op[op.index("=") + 1]
    for label, pos, kw in X.all_spellings(c["nparams"], c.get("defaults") or [], key):
        for sub in ((False, True) if not kw else (False,)):
            how = "c%d%s" % (cid, "[%s]" % label[1:-1] if sub else label)
            impl.log = []
            with quiet():
                try:
                    got = val_s(X.spelled_call(cells, pos, kw, sub))
                except BaseException as e:      # noqa: BLE001
                    got = "error %r" % e
            stats["oracle_assigned_spellings"] += 1
            if got != v or impl.log:
                out.fail("after %s, %s returns %s (formulas run: %s)" % (" ".join(op), how, got, impl.log), hist)
                return
        with quiet():
            try:
                inp = cells.is_input(*pos, **{"a%d" % i: x for i, x in kw.items()})
            except BaseException as e:      # noqa: BLE001
                inp = "error %r" % e
        if inp is not True:
            out.fail("after %s, c%d.is_input%s is %s" % (" ".join(op), cid, label, inp), hist)
            return
    impl.log = []


def _lazy_values(case, k, elems):
    """same history with recalc off, then evaluate the given elements lazily"""
    recalc = mx.get_recalc()
    mx.set_recalc(False)
    impl = ExecImpl(case["cells"], case["refs"], case["n_rn"], case["maxdepth"], log=False, nested=True)
    try:
        for op in case["ops"][:k + 1]:
            impl.apply(op)
        for x in elems:
            c, key = x.split("[")
            impl.apply(["eval", c] + ([a for a in key[:-1].split(",")] if key != "]" else []))
        return parse_values(impl.observe("values"))
    finally:
        impl.close()
        mx.set_recalc(recalc)


def _diff(expect, got):
    miss = {x: v for x, v in expect.items() if got.get(x) != v}
    extra = {x: v for x, v in got.items() if x not in expect}
    return "missing/changed %s extra %s" % (dict(list(miss.items())[:4]), dict(list(extra.items())[:4]))


def overwrite_equal(out, stats):
    """An assigned value is what the cells returns, and its dependents are discarded, also when
    the new value compares equal to the old one (1 / 1.0 / True, equal containers)."""
    from ..impl import close_all
    pairs = [(1, 1.0), (1.0, 1), (1, True), ([1, 2], [1, 2]), ({"a": 1}, {"a": 1}), ((1,), (1,)), ("x", "x")]
    for recalc in (False, True):
        for old, new in pairs:
            close_all()
            with quiet():
                m = mx.new_model("E")
                s = m.new_space("S")
                s.new_cells("a", formula="def a(x): return 0")
                s.new_cells("b", formula="def b(x): return (type(a(x)).__name__, id(a(x)))")
                s.new_cells("other", formula="def other(): return 5")
                mx.set_recalc(recalc)
                s.a[1] = old
                s.other()
                first = s.b(1)
                s.a[1] = new
                got = s.a(1)
                dep = s.b(1)
                stats["overwrite_equal_scenarios"] += 1
                if got is not new:
                    out.fail("after a[1] = %r (was %r) the cells returns %r, not the assigned object" % (new, old, got),
                             {"scenario": "overwrite_equal", "old": repr(old), "new": repr(new), "recalc": recalc})
                elif dep != (type(new).__name__, id(new)):
                    out.fail("dependent of a[1] kept the value computed from the old input after a[1] = %r (was %r)" % (
                        new, old), {"scenario": "overwrite_equal", "old": repr(old), "new": repr(new), "recalc": recalc})
                if dict(s.other) != {(): 5}:
                    out.fail("an unrelated value was discarded by an input overwrite",
                             {"scenario": "overwrite_equal", "old": repr(old), "new": repr(new), "recalc": recalc})
            mx.set_recalc(False)
    close_all()


def assign_held_object(out, stats):
    """Scenario family "an element is assigned the very object it holds" (`cells[k] = cells[k]`, pasting a calculated
    value over its calculation): the calculation read a reference by name / through an attribute path / called another
    cells, the value is a small int, a big int, a float, a tuple, a string, None; a dependent was calculated from it.
    The assignment is a value edit like any other: the element is an input afterwards and returns the object, its
    dependent is discarded and recalculated; and INPUTS PERSIST: changing what the replaced calculation had read
    (the reference, the callee) does not touch the assigned value."""
    from ..impl import close_all
    reads = {
        "attribute-path": ("def a(x): return P.rate if x else None", lambda P, s: setattr(P, "rate", ("changed",))),
        "by-name": ("def a(x): return rate if x else None", lambda P, s: setattr(s, "rate", ("changed",))),
        "callee": ("def a(x): return src(x) if x else None", lambda P, s: s.src.__setitem__(1, ("changed",))),
        "nested-path": ("def a(x): return P.Q.rate if x else None", lambda P, s: setattr(P.Q, "rate", ("changed",))),
    }
    values = [7, 10 ** 9, 2.5, (1, 2), "text", None]
    for recalc in (False, True):
        for rname, (src, change) in reads.items():
            for val in values:
                hist = {"scenario": "assign_held_object", "read": rname, "value": repr(val), "recalc": recalc}
                close_all()
                with quiet():
                    m = mx.new_model("E")
                    s = m.new_space("S")
                    P = m.new_space("P")
                    P.new_space("Q").rate = val
                    P.rate = val
                    s.rate = val
                    s.P = P
                    s.v = val
                    s.new_cells("src", formula="lambda x: v").allow_none = True
                    s.new_cells("a", formula=src).allow_none = True
                    s.new_cells("b", formula="def b(x): return (a(x), other())")
                    s.new_cells("other", formula="def other(): return 5")
                    mx.set_recalc(recalc)
                    s.b(1)
                    obj = s.a(1)
                    try:
                        s.a[1] = obj
                    except BaseException as e:      # noqa: BLE001
                        out.fail("a[1] = a[1] raised %r" % e, hist)
                        continue
                    stats["assign_held_object_scenarios"] += 1
                    bad = []
                    if val is not None and (1,) not in s.a._impl.input_keys:
                        bad.append("a(1) is not an input after a[1] = a[1]")
                    if not recalc and (1,) in s.b._impl.data:
                        bad.append("the dependent b(1) was not discarded by the assignment")
                    try:
                        change(P, s)
                        if val is not None and s.a._impl.data.get((1,), "nothing") is not obj:
                            bad.append("the assigned value of a(1) did not persist when what the replaced calculation had "
                                       "read (%s) changed: a holds %r" % (rname, dict(s.a)))
                        if val is not None and s.b(1) != (obj, 5):
                            bad.append("b(1) is %r, from the input it is %r" % (s.b(1), (obj, 5)))
                        s.a.clear()
                        if val is not None and s.a._impl.data.get((1,), "nothing") is not obj:
                            bad.append("clear() discarded the assigned value")
                    except BaseException as e:      # noqa: BLE001
                        bad.append("after the assignment an edit / evaluation raised %r" % e)
                    if bad:
                        out.fail("a(1) assigned the object it holds (%r, calculated reading %s): %s" % (
                            val, rname, "; ".join(bad)), hist)
                mx.set_recalc(False)
    close_all()


def scenario_cases():
    """Scenario family "an input does not outlive the redefinition of its cells" (exec_props.input_then_redefined_cases)
    with a value edit as the last step: clear() must discard the recomputed element (it is not an input any more) with
    its dependent; clear_at / clear_all / an assignment behave as for any computed element.  The ledger of inputs is
    compared after every operation."""
    return X.input_then_redefined_cases({
        "clear": lambda R: [["clear", "0"]], "clearat": lambda R: [["clearat", "0"]],
        "clearall": lambda R: [["clearall", "0"]], "set": lambda R: [["set", "0", "=", "8"]]})


def spelled_edit_cases():
    """Scenario family "the element is the same however its arguments are spelled": cells whose last parameters have
    default values; dependents computed through calls that leave the defaults out, write them out, or give them by
    keyword; then a value edit (assignment through a subscript of every admissible length, clear_at with positional /
    keyword / mixed arguments) of an element that was computed under ANOTHER spelling, and every dependent asked again.
    rate = c0(a0, a1=1), disc = c1(a0) calling c0(a0), pv = c2(a0) calling c1, other = c3(a0) calling c0(1, a1=1);
    c4(a0, a1=2, a2=3) with callers c5 (one default given positionally) and c6 (the last one by keyword)."""
    P0, L = ("p", 0), (lambda i: ("lit", i))
    cells = [
        {"id": 0, "nparams": 2, "defaults": [1], "body": ("add", ("mul", P0, L(10)), ("p", 1))},
        {"id": 1, "nparams": 1, "body": ("if", ("lt", L(0), P0),
                                         ("add", ("call", 1, [("sub", P0, L(1))]), ("call", 0, [P0])), L(0))},
        {"id": 2, "nparams": 1, "body": ("add", ("call", 1, [P0]), L(100))},
        {"id": 3, "nparams": 1, "body": ("add", ("callk", 0, [L(1)], [(1, L(1))]), P0)},
        {"id": 4, "nparams": 3, "defaults": [2, 3],
         "body": ("add", ("add", ("mul", P0, L(100)), ("mul", ("p", 1), L(10))), ("p", 2))},
        {"id": 5, "nparams": 1, "body": ("add", ("call", 4, [P0, L(2)]), L(1))},
        {"id": 6, "nparams": 1, "body": ("add", ("callk", 4, [P0], [(2, L(3))]), L(2))},
    ]
    for c in cells:
        c.update(cached=True, allow_none=False)
    evs = [["eval", "2", "3"], ["eval", "3", "7"], ["eval", "5", "1"], ["eval", "6", "1"], ["eval", "4", "1", "2", "3"]]
    cases = []

    def add(label, edits):
        cases.append({"cells": [dict(c) for c in cells], "refs": {0: 1, 1: 2, 2: 3, 3: 4}, "n_rn": 2, "maxdepth": None,
                      "ops": evs + edits + evs, "label": "spelled-edit/" + label})
    # rate(2) == rate(2, 1) == rate(a0=2) == rate(2, a1=1): assigned through the short and the full subscript
    for sp in (["2"], ["2", "1"]):
        for then in ([["clear", "0"]], [["clearat", "0", "2"]], [["clearat", "0", "k1=1", "k0=2"]],
                     [["set", "0", "2", "1", "=", "8"]], [["set", "0", "2", "=", "9"]]):
            add("set c0[%s] then %s" % (",".join(sp), " ".join(then[0])),
                [["set", "0"] + sp + ["=", "50"], ["eval", "2", "3"], ["eval", "0", "2"], ["eval", "0", "k0=2"]] + then)
    for sp in (["2"], ["2", "1"], ["k0=2"], ["2", "k1=1"], ["k1=1", "k0=2"]):
        add("clearat c0(%s)" % ",".join(sp), [["clearat", "0"] + sp])
    # two defaulted parameters: every admissible length of the subscript, the element computed by the callers before
    for sp in (["1"], ["1", "2"], ["1", "2", "3"]):
        add("set c4[%s]" % ",".join(sp), [["set", "4"] + sp + ["=", "70"], ["eval", "5", "1"], ["eval", "6", "1"],
                                            ["eval", "4", "1", "k2=3"], ["clear", "4"], ["clearat", "4", "1", "k1=2"]])
    for sp in (["1"], ["1", "2"], ["1", "k2=3"], ["k0=1", "k2=3", "k1=2"], ["1", "2", "3"]):
        add("clearat c4(%s)" % ",".join(sp), [["clearat", "4"] + sp])
    # a subscript that does not bind is refused and changes nothing
    add("short subscript without default", [["set", "4", "=", "1"], ["set", "0", "=", "1"], ["set", "0", "1", "2", "3", "=", "1"]])
    return cases


def recalc_cases():
    """Scenario family for the recalculation option = the example programs of `lean/MxModel/Props/C06.lean` (`kEnv`):
    c0 = 1, c1 = c0() * 10, c2 = c1() + 1 if c0() < 5 else 0, c3 = c1() + 100, c4 = 7, c5 = 1 if c0() < 5 else raise,
    c6 = c0() + 100.  Two leaves recomputed at once; a former non-leaf dependent that the new computation does not
    call; a failing recomputation with one target (compared) and with two (the comparison stops: target order)."""
    L, C = (lambda i: ("lit", i)), (lambda c: ("call", c, []))
    cells = [
        {"id": 0, "body": L(1)},
        {"id": 1, "body": ("mul", C(0), L(10))},
        {"id": 2, "body": ("if", ("lt", C(0), L(5)), ("add", C(1), L(1)), L(0))},
        {"id": 3, "body": ("add", C(1), L(100))},
        {"id": 4, "body": L(7)},
        {"id": 5, "body": ("if", ("lt", C(0), L(5)), L(1), ("raise", 0))},
        {"id": 6, "body": ("add", C(0), L(100))},
    ]
    for c in cells:
        c.update(cached=True, allow_none=False, nparams=0)
    ev = lambda *ids: [["eval", str(i)] for i in ids]      # noqa: E731
    hists = {
        "two leaves": ev(2, 3, 4) + [["set", "0", "=", "2"]] + ev(1, 2, 3, 4),
        "non-leaf dependent not called again": ev(2) + [["set", "0", "=", "9"]] + ev(1, 2),
        "failing recomputation, one target": ev(5) + [["set", "0", "=", "9"]] + ev(5, 0) + [["set", "0", "=", "3"]] + ev(5),
        "failing recomputation, two targets": ev(6, 5) + [["set", "0", "=", "9"]] + ev(6, 5),
        "overwrite of an input with dependents": ev(3, 2) + [["set", "0", "=", "2"], ["set", "0", "=", "4"], ["set", "1", "=", "5"]] + ev(3, 2),
    }
    return [{"cells": [dict(c) for c in cells], "refs": {0: 1, 1: 2, 2: 3, 3: 4}, "n_rn": 2, "maxdepth": None,
             "ops": ops, "label": "recalc/" + label} for label, ops in hists.items()]


def dag_enumeration(ctx, out, stats):
    """every dependency DAG on 4 cells (thorough: 5; quick: a rotating slice of the 5-cells shapes too) x every order
    of requests x every cells as the edited element (computed / input) x every value edit (dagenum.py).  A failing
    scenario is judged again as an ordinary case by `oracle` (fresh model, own search over the recorded edges), which
    gives the replayable history; if that does not fail, the scenario is reported as the enumerator saw it."""
    import collections
    from .. import core, dagenum

    def on_failure(case, texts):
        sub = core.Outcome()
        oracle(case, [], sub, collections.Counter())
        if sub.failures:
            for f in sub.failures[:2]:
                out.fail(f["what"], f["history"], key=f.get("key"))
        else:
            out.fail("%s: %s" % (case["label"], texts[0]), dict(X.case_json(case), scenario="dag-enum"))
    dagenum.enumerate_all(ctx, on_failure, stats, n=4)
    if not out.failures:
        dagenum.enumerate_all(ctx, on_failure, stats, n=5, slice_k=4, shape_k=8)


def run(ctx, out):
    from .. import dagenum
    stats = X.run_family(ctx, out, CFG, oracle, 120, 2000,
                         structured=scenario_cases() + spelled_edit_cases() + recalc_cases() + X.copy_cases()
                         + dagenum.sample_cases(ctx, 4, ctx.n(40, 400)))
    overwrite_equal(out, stats)
    assign_held_object(out, stats)
    out.coverage["input_distribution"]["assign_held_object_scenarios"] = stats["assign_held_object_scenarios"]
    dag_enumeration(ctx, out, stats)
    for k in ("dag_shapes", "dag_orders", "dag_scenarios"):
        out.coverage["input_distribution"][k] = stats[k]
    out.coverage["rule"] += ("; small-scope exhaustive: every dependency DAG on 4 cells (upper-triangular adjacency; thorough: "
                             "5 cells, quick: a rotating eighth of them) x every distinct order of requests x every cells "
                             "edited (computed / input) x assignment / clear_at / clear / clear_all / assignment with "
                             "recalculation, judged from the shape alone")
    out.coverage["input_distribution"]["overwrite_equal_scenarios"] = stats["overwrite_equal_scenarios"]
    out.assumptions.append("recalculation option on: modelx evaluates the former leaf dependents in the iteration "
                           "order of a Python set; the model takes the order of its graph search.  When a "
                           "recomputation fails and there are several targets the comparison of that history stops "
                           "(%d of %d recalculating histories)" % (stats["recalc_corr_order_dependent_stops"],
                                                                 stats["recalc_corr_histories"]))


def _replay_dag(h, out):
    """a scenario of the DAG enumeration the ordinary oracle did not fail on: run it as the enumerator does"""
    import re
    from .. import dagenum
    from ..impl import close_all
    m = re.match(r"dag/(\S*) arity=(\d) (asc|desc) order=(\d+) (\S+) c(\d+)( input)?$", h.get("label", ""))
    if not m:
        return
    callees = [[int(x) for x in part.split(",") if x] for part in m.group(1).split("|")]
    close_all()
    sm = dagenum.ShapeModel(callees, int(m.group(2)), m.group(3) == "desc")
    try:
        fails = dagenum.run_scenario(sm, tuple(int(c) for c in m.group(4)), int(m.group(6)), bool(m.group(7)), m.group(5))
    finally:
        sm.close()
    for t in fails[:1]:
        out.fail("%s: %s" % (h["label"], t), h)


def replay(ctx, payload, out):
    import collections
    h = payload.get("history") or {}
    if isinstance(h, dict) and h.get("scenario") == "assign_held_object":
        assign_held_object(out, collections.Counter())
        return
    if isinstance(h, dict) and h.get("scenario") == "overwrite_equal":
        overwrite_equal(out, collections.Counter())
        return
    if isinstance(h, dict) and h.get("scenario") == "dag-enum":
        _replay_dag(h, out)
    X.replay_family(ctx, payload, out, CFG, oracle)
