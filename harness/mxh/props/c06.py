"""C06 – a value edit discards exactly its dependents; inputs persist.

Correspondence: held values with input/computed marks and the trace graph against the
Lean mechanism model after every op (assign, overwrite, clear_at, clear, clear_all, eval; in the scenario family
"input then redefinition" also a new formula and a switch of the cache flag).
Oracle (implementation only, own replay): before each value edit the dependents of the
edited element are computed from the edges of the dependency graph by the harness' own
breadth-first search; after the edit exactly those (and the element itself) are gone,
everything else is still held, unchanged, and is served without any formula running;
user-assigned values survive clear() and edits of other elements and are what the cells
returns; an element is treated as an input iff a value was assigned to it and it was not cleared since (a ledger
kept from the operations alone, compared with the implementation's input marks after every operation); with the recalculation option on, the former leaf dependents are held again with
the values lazy recomputation gives.
Correspondence with the recalculation option on (`recalc_correspondence`): the same history prefixed with
`recalc on` on the implementation and on the mechanism model (`St.setValueRecalc`: the lazy assignment followed
by a top-level evaluation of every former leaf dependent) - result of every op, values with input marks, trace
graph and reference graph after every op.
"""
from .. import exec_props as X
from .. import execworld
from ..execworld import ExecImpl, node_s, val_s, parse_val
from .. import core
from ..impl import mx, quiet

CFG = {
    "weights": {"eval": 6, "reeval": 1, "set": 3, "clearat": 2, "clear": 0.8, "clearall": 0.5},
    "compare": ["values", "graph", "refgraph"],
    "maxdepths": [None],
    "raise_p": 0.02, "none_p": 0.02, "catch_all_p": 0.05, "all_cached": False, "default_p": 0.35, "same_p": 0.3,
    "rule": "random dependency DAGs (recursion, fan-in through lower cells, uncached cells in between) with "
            "histories mixing evaluations and value edits of arbitrary elements (three in ten assignments give a computed "
            "element the very object it holds); non-trivial = an edit whose "
            "element had at least one held dependent and at least one held non-dependent",
}


def parse_values(s):
    d = {}
    for x in s.split()[1:]:
        k, v = x.split("=")
        d[k] = v
    return d


def parse_graph(s):
    body = s[len("graph nodes "):]
    ns, es = body.split(" edges ") if " edges " in body else (body.replace(" edges", ""), "")
    edges = [tuple(e.split(">")) for e in es.split()]
    return ns.split(), edges


def descendants(edges, start):
    succ = {}
    for a, b in edges:
        succ.setdefault(a, []).append(b)
    seen, todo = set(), [start]
    while todo:
        x = todo.pop()
        for y in succ.get(x, []):
            if y not in seen:
                seen.add(y)
                todo.append(y)
    return seen


def check_inputs(impl, inputs, op, hist, out):
    """an element is an input iff a value was assigned to it and it was not cleared since (the ledger `inputs`,
    kept from the operations alone) - what clear() and a change of the namespace spare"""
    marked = {x for x, v in parse_values(impl.observe("values")).items() if v.endswith("I")}
    if marked != inputs:
        out.fail("after %s the elements treated as inputs are %s; assigned and not cleared since: %s" % (
            " ".join(op), sorted(marked), sorted(inputs)), hist)
        return False
    return True


RECALC_OBS = ["values", "graph", "refgraph"]


def recalc_correspondence(case, out, stats):
    """The history with the recalculation option on, run on modelx and on the mechanism model.  modelx iterates over a
    `set` of target nodes: when a recomputation FAILS and there are several targets, which of the others were evaluated
    before the failure is not determined by the program - the comparison of that history stops there (counted)."""
    ops = [["recalc", "on"]] + [list(o) for o in case["ops"]]
    rcase = dict(case, ops=ops)
    recs = execworld.run_both(case["cells"], case["refs"], case["n_rn"], case["maxdepth"], ops, observe=RECALC_OBS)
    stats["recalc_corr_histories"] += 1
    for k, rec in enumerate(recs):
        op = rec["op"]
        if op[0] == "set":
            stats["recalc_corr_sets"] += 1
            if "err Formula" in (rec["impl"], rec["model"]):
                stats["recalc_corr_failed_recomputations"] += 1
                # the former leaf dependents, from the implementation's own graph before the assignment
                _, edges = parse_graph(recs[k - 1]["obs"]["graph"][0])
                eq = op.index("=")
                key = X.canon_key(case, int(op[1]), op[2:eq])
                n = None if key is None else node_s(int(op[1]), key)
                ds = descendants(edges, n) if n is not None else set()
                leaves = [x for x in ds if not x.endswith("*") and not any(a == x for a, _ in edges)]
                if len(leaves) > 1:
                    stats["recalc_corr_order_dependent_stops"] += 1
                    return
            elif rec["impl"] == "ok" and rec["obs"]["values"][0] != recs[k - 1]["obs"]["values"][0]:
                _, edges = parse_graph(recs[k - 1]["obs"]["graph"][0])
                eq = op.index("=")
                key = X.canon_key(case, int(op[1]), op[2:eq])
                n = None if key is None else node_s(int(op[1]), key)
                if n is not None and descendants(edges, n):
                    stats["recalc_corr_sets_with_dependents"] += 1
        if rec["model"] is None:
            stats["recalc_corr_impl_only_stops"] += 1
            return          # implementation-only vocabulary (execworld.impl_only): the driver has no answer to compare
        if rec["impl"] != rec["model"]:
            out.disagree(X.case_json(rcase), k, rec["impl"], rec["model"], layer="exec:recalc:result")
            return
        for w in RECALC_OBS:
            a, b = rec["obs"][w]
            if a != b:
                out.disagree(X.case_json(rcase), k, a, b, layer="exec:recalc:" + w)
                return


def oracle(case, recs, out, stats):
    nontrivial = False
    if case["ops"] and case["ops"][0][0] == "recalc":
        return False        # a replayed recalculating history: what is replayed is the correspondence (`compare`)
    recalc_correspondence(case, out, stats)
    for recalc in (False, True):
        impl = ExecImpl(case["cells"], case["refs"], case["n_rn"], case["maxdepth"], log=True)
        inputs, inputs_ok = set(), True
        try:
            if recalc:
                mx.set_recalc(True)
            for k, op in enumerate(case["ops"]):
                hist = X.case_json(dict(case, ops=case["ops"][:k + 1]))
                hist["recalc"] = recalc
                if op[0] == "eval":
                    impl.apply(op)
                    inputs_ok = inputs_ok and check_inputs(impl, inputs, op, hist, out)
                    continue
                before = parse_values(impl.observe("values"))
                if op[0] in ("copycell", "copyspace", "setref", "delref", "shadow", "unshadow"):
                    inputs_ok = _copy_or_ref_edit(impl, op, before, inputs, hist, out, stats) and inputs_ok
                    continue
                nodes, edges = parse_graph(impl.observe("graph"))
                cid = int(op[1])
                impl.log = []
                res = impl.apply(op)
                after = parse_values(impl.observe("values"))
                if op[0] in ("set", "clearat"):
                    eq = op.index("=") if "=" in op else len(op)
                    # the element the arguments denote, however they are spelled (subscript shorter than the
                    # parameter list, keywords): bound by Python's own binder on the declared signature, not by modelx
                    key = X.canon_key(case, cid, op[2:eq])
                    n = None if key is None else node_s(cid, key)
                    targets = [n] if n in before else []
                    # with recalculation on, the assignment is made and a dependent that is recomputed at once may
                    # fail: the error comes out of the assignment, but the assignment was not refused
                    recalc_failed = op[0] == "set" and recalc and res.startswith("err Formula")
                    if op[0] == "set" and res != "ok" and not recalc_failed:
                        targets = []        # a refused assignment (unhashable key, None not allowed) changes nothing
                elif op[0] == "clear":
                    # everything of the cells that is not an input (by the ledger, not by the implementation's marks)
                    targets = [x for x in before if x.startswith("%d[" % cid) and x not in inputs]
                else:
                    # clear_all; a new formula or a switch of the cache flag: every element of the cells, inputs too
                    # (and what was computed through the cells while it was uncached)
                    targets = [x for x in before if x.startswith("%d[" % cid)]
                gone = set(targets)
                for t in targets + (["%d*" % cid] if op[0] in ("setformula", "setcached") else []):
                    gone |= {x for x in descendants(edges, t) if not x.endswith("*")}
                # the ledger of inputs
                if op[0] == "set" and (res == "ok" or recalc_failed) and n is None:
                    out.fail("%s was accepted although the subscript does not bind to the parameters" % " ".join(op), hist)
                    break
                if op[0] == "set" and (res == "ok" or recalc_failed):
                    inputs.add(n)
                elif op[0] == "clearat":
                    inputs.discard(n)
                elif op[0] in ("clearall", "setformula", "setcached"):
                    inputs -= {x for x in inputs if x.startswith("%d[" % cid)}
                expect = {x: v for x, v in before.items() if x not in gone}
                leaves = []
                if op[0] == "set" and (res == "ok" or recalc_failed):
                    expect[n] = op[eq + 1] + "I"
                    if recalc and n in before:
                        ds = descendants(edges, n)
                        leaves = [x for x in ds if not x.endswith("*") and not any(a == x for a, _ in edges)]
                stats["oracle_edits_examined"] += 1
                inputs_ok = inputs_ok and check_inputs(impl, inputs, op, hist, out)
                if gone - set(targets) and len(expect) > (1 if op[0] == "set" else 0):
                    nontrivial = True
                if recalc and leaves:
                    stats["oracle_recalc_edits"] += 1
                    # the leaves (and what they need) were recomputed at once; nothing else changed
                    for x in leaves:
                        if x not in after and not recalc_failed:
                            out.fail("recalc: former leaf dependent %s not recomputed after %s" % (x, " ".join(op)), hist)
                    # recalculation = the lazy edit followed by evaluating the former leaf dependents: whatever that
                    # computes (also elements never held before, when the new value sends a formula down another
                    # path) and nothing else
                    extra = {x: v for x, v in after.items() if x not in expect}
                    # every former leaf is evaluated lazily, also one whose recalculation failed: what it computed before failing stays
                    lazy = _lazy_values(case, k, leaves)
                    for x, v in extra.items():
                        if lazy.get(x) != v:
                            out.fail("recalc: %s is %s after %s but the lazy edit followed by evaluating the former leaf "
                                     "dependents gives %s" % (x, v, " ".join(op), lazy.get(x)), hist)
                    if not recalc_failed:
                        for x, v in lazy.items():
                            if after.get(x) != v:
                                out.fail("recalc: %s is %s after %s but the lazy edit followed by evaluating the former "
                                         "leaf dependents gives %s" % (x, after.get(x), " ".join(op), v), hist)
                                break
                    base = {x: v for x, v in after.items() if x in expect}
                    if base != expect:
                        out.fail("recalc: surviving values differ after %s: %s" % (" ".join(op), _diff(expect, base)), hist)
                else:
                    if after != expect:
                        out.fail("after %s the held values are not 'before minus dependents': %s" % (
                            " ".join(op), _diff(expect, after)), hist)
                if op[0] == "set" and res == "ok":
                    _assigned_under_every_spelling(impl, case, cid, key, op, hist, out, stats)
                # survivors are served without running any formula
                impl.log = []
                for x, v in list(expect.items())[:6]:
                    c, key = x.split("[")
                    args = [parse_val(a) for a in key[:-1].split(",")] if key != "]" else []
                    with quiet():
                        try:
                            got = impl.cells[int(c)](*args)
                        except BaseException as e:      # noqa: BLE001 (generated formulas raise KeyboardInterrupt too)
                            out.fail("held value %s could not be served after %s: %r" % (x, " ".join(op), e), hist)
                            continue
                    if val_s(got) + v[-1] != v or impl.log:
                        out.fail("held value %s=%s served as %s, formulas run: %s" % (x, v, val_s(got), impl.log), hist)
                    impl.log = []
        finally:
            mx.set_recalc(False)
            impl.close()
    return nontrivial


def _copy_or_ref_edit(impl, op, before, inputs, hist, out, stats):
    """A copy (Cells.copy, UserSpace.copy) takes the ASSIGNED values of its source with it, as inputs of the copy, and
    nothing else: the calculated values of the source are not values of the copy.
    A reference edit clears calculated values only: every input stays, with its value."""
    from ..execworld import COPY_BASE
    if op[0] == "copycell":
        pairs = [(int(op[1]), int(op[3]))]
    elif op[0] == "copyspace":
        pairs = [(c, COPY_BASE + c) for c, k in sorted(impl.cell_space.items()) if k == 1 and impl.exists(c)]
    else:
        pairs = []
    res = impl.apply(op)
    after = parse_values(impl.observe("values"))
    if pairs and res == "ok":
        stats["oracle_copies_examined"] += 1
        copied = {}
        for src, dst in pairs:
            for x in sorted(inputs):
                if x.startswith("%d[" % src):
                    y = "%d[%s" % (dst, x.split("[", 1)[1])
                    copied[y] = before[x]
                    inputs.add(y)
        # a new cells changes the namespace of its space: calculated values may be discarded by that; none may
        # appear or change, every assigned value stays, and the copy holds exactly the assigned values of its source
        odd = {x: v for x, v in after.items() if copied.get(x, before.get(x)) != v}
        lost = {x: v for x, v in list(before.items()) + list(copied.items()) if x in inputs and after.get(x) != v}
        if odd or lost:
            out.fail("after %s the copy does not hold exactly the assigned values of its source (as inputs): "
                     "unexpected %s, missing %s" % (" ".join(op), dict(list(odd.items())[:4]), dict(list(lost.items())[:4])), hist)
            return False
    else:
        lost = {x: v for x, v in before.items() if x in inputs and after.get(x) != v}
        if lost:
            out.fail("after %s assigned values are gone or changed: %s" % (" ".join(op), lost), hist)
            return False
    return check_inputs(impl, inputs, op, hist, out)


def _assigned_under_every_spelling(impl, case, cid, key, op, hist, out, stats):
    """the assigned value is what the cells returns for those arguments – positional, by keyword, defaults left out,
    as a subscript – without running a formula, and the element is an input under every spelling"""
    c = next(x for x in case["cells"] if x["id"] == X.origin_of(case["ops"], cid))
    cells = impl.cells[cid]
    v = op[op.index("=") + 1]
    for label, pos, kw in X.all_spellings(c["nparams"], c.get("defaults") or [], key):
        for sub in ((False, True) if not kw else (False,)):
            how = "c%d%s" % (cid, "[%s]" % label[1:-1] if sub else label)
            impl.log = []
            with quiet():
                try:
                    got = val_s(X.spelled_call(cells, pos, kw, sub))
                except BaseException as e:      # noqa: BLE001
                    got = "error %r" % e
            stats["oracle_assigned_spellings"] += 1
            if got != v or impl.log:
                out.fail("after %s, %s returns %s (formulas run: %s)" % (" ".join(op), how, got, impl.log), hist)
                return
        with quiet():
            try:
                inp = cells.is_input(*pos, **{"a%d" % i: x for i, x in kw.items()})
            except BaseException as e:      # noqa: BLE001
                inp = "error %r" % e
        if inp is not True:
            out.fail("after %s, c%d.is_input%s is %s" % (" ".join(op), cid, label, inp), hist)
            return
    impl.log = []


def _lazy_values(case, k, elems):
    """same history with recalc off, then evaluate the given elements lazily"""
    recalc = mx.get_recalc()
    mx.set_recalc(False)
    impl = ExecImpl(case["cells"], case["refs"], case["n_rn"], case["maxdepth"], log=False, nested=True)
    try:
        for op in case["ops"][:k + 1]:
            impl.apply(op)
        for x in elems:
            c, key = x.split("[")
            impl.apply(["eval", c] + ([a for a in key[:-1].split(",")] if key != "]" else []))
        return parse_values(impl.observe("values"))
    finally:
        impl.close()
        mx.set_recalc(recalc)


def _diff(expect, got):
    miss = {x: v for x, v in expect.items() if got.get(x) != v}
    extra = {x: v for x, v in got.items() if x not in expect}
    return "missing/changed %s extra %s" % (dict(list(miss.items())[:4]), dict(list(extra.items())[:4]))


def overwrite_equal(out, stats):
    """An assigned value is what the cells returns, and its dependents are discarded, also when
    the new value compares equal to the old one (1 / 1.0 / True, equal containers)."""
    from ..impl import close_all
    pairs = [(1, 1.0), (1.0, 1), (1, True), ([1, 2], [1, 2]), ({"a": 1}, {"a": 1}), ((1,), (1,)), ("x", "x")]
    for recalc in (False, True):
        for old, new in pairs:
            close_all()
            with quiet():
                m = mx.new_model("E")
                s = m.new_space("S")
                s.new_cells("a", formula="def a(x): return 0")
                s.new_cells("b", formula="def b(x): return (type(a(x)).__name__, id(a(x)))")
                s.new_cells("other", formula="def other(): return 5")
                mx.set_recalc(recalc)
                s.a[1] = old
                s.other()
                first = s.b(1)
                s.a[1] = new
                got = s.a(1)
                dep = s.b(1)
                stats["overwrite_equal_scenarios"] += 1
                if got is not new:
                    out.fail("after a[1] = %r (was %r) the cells returns %r, not the assigned object" % (new, old, got),
                             {"scenario": "overwrite_equal", "old": repr(old), "new": repr(new), "recalc": recalc})
                elif dep != (type(new).__name__, id(new)):
                    out.fail("dependent of a[1] kept the value computed from the old input after a[1] = %r (was %r)" % (
                        new, old), {"scenario": "overwrite_equal", "old": repr(old), "new": repr(new), "recalc": recalc})
                if dict(s.other) != {(): 5}:
                    out.fail("an unrelated value was discarded by an input overwrite",
                             {"scenario": "overwrite_equal", "old": repr(old), "new": repr(new), "recalc": recalc})
            mx.set_recalc(False)
    close_all()


def assign_held_object(out, stats):
    """Scenario family "an element is assigned the very object it holds" (`cells[k] = cells[k]`, pasting a calculated
    value over its calculation): the calculation read a reference by name / through an attribute path / called another
    cells, the value is a small int, a big int, a float, a tuple, a string, None; a dependent was calculated from it.
    The assignment is a value edit like any other: the element is an input afterwards and returns the object, its
    dependent is discarded and recalculated; and INPUTS PERSIST: changing what the replaced calculation had read
    (the reference, the callee) does not touch the assigned value."""
    from ..impl import close_all
    reads = {
        "attribute-path": ("def a(x): return P.rate if x else None", lambda P, s: setattr(P, "rate", ("changed",))),
        "by-name": ("def a(x): return rate if x else None", lambda P, s: setattr(s, "rate", ("changed",))),
        "callee": ("def a(x): return src(x) if x else None", lambda P, s: s.src.__setitem__(1, ("changed",))),
        "nested-path": ("def a(x): return P.Q.rate if x else None", lambda P, s: setattr(P.Q, "rate", ("changed",))),
    }
    values = [7, 10 ** 9, 2.5, (1, 2), "text", None]
    for recalc in (False, True):
        for rname, (src, change) in reads.items():
            for val in values:
                hist = {"scenario": "assign_held_object", "read": rname, "value": repr(val), "recalc": recalc}
                close_all()
                with quiet():
                    m = mx.new_model("E")
                    s = m.new_space("S")
                    P = m.new_space("P")
                    P.new_space("Q").rate = val
                    P.rate = val
                    s.rate = val
                    s.P = P
                    s.v = val
                    s.new_cells("src", formula="lambda x: v").allow_none = True
                    s.new_cells("a", formula=src).allow_none = True
                    s.new_cells("b", formula="def b(x): return (a(x), other())")
                    s.new_cells("other", formula="def other(): return 5")
                    mx.set_recalc(recalc)
                    s.b(1)
                    obj = s.a(1)
                    try:
                        s.a[1] = obj
                    except BaseException as e:      # noqa: BLE001
                        out.fail("a[1] = a[1] raised %r" % e, hist)
                        continue
                    stats["assign_held_object_scenarios"] += 1
                    bad = []
                    if val is not None and (1,) not in s.a._impl.input_keys:
                        bad.append("a(1) is not an input after a[1] = a[1]")
                    if not recalc and (1,) in s.b._impl.data:
                        bad.append("the dependent b(1) was not discarded by the assignment")
                    try:
                        change(P, s)
                        if val is not None and s.a._impl.data.get((1,), "nothing") is not obj:
                            bad.append("the assigned value of a(1) did not persist when what the replaced calculation had "
                                       "read (%s) changed: a holds %r" % (rname, dict(s.a)))
                        if val is not None and s.b(1) != (obj, 5):
                            bad.append("b(1) is %r, from the input it is %r" % (s.b(1), (obj, 5)))
                        s.a.clear()
                        if val is not None and s.a._impl.data.get((1,), "nothing") is not obj:
                            bad.append("clear() discarded the assigned value")
                    except BaseException as e:      # noqa: BLE001
                        bad.append("after the assignment an edit / evaluation raised %r" % e)
                    if bad:
                        out.fail("a(1) assigned the object it holds (%r, calculated reading %s): %s" % (
                            val, rname, "; ".join(bad)), hist)
                mx.set_recalc(False)
    close_all()


def scenario_cases():
    """Scenario family "an input does not outlive the redefinition of its cells" (exec_props.input_then_redefined_cases)
    with a value edit as the last step: clear() must discard the recomputed element (it is not an input any more) with
    its dependent; clear_at / clear_all / an assignment behave as for any computed element.  The ledger of inputs is
    compared after every operation."""
    return X.input_then_redefined_cases({
        "clear": lambda R: [["clear", "0"]], "clearat": lambda R: [["clearat", "0"]],
        "clearall": lambda R: [["clearall", "0"]], "set": lambda R: [["set", "0", "=", "8"]]})


def spelled_edit_cases():
    """Scenario family "the element is the same however its arguments are spelled": cells whose last parameters have
    default values; dependents computed through calls that leave the defaults out, write them out, or give them by
    keyword; then a value edit (assignment through a subscript of every admissible length, clear_at with positional /
    keyword / mixed arguments) of an element that was computed under ANOTHER spelling, and every dependent asked again.
    rate = c0(a0, a1=1), disc = c1(a0) calling c0(a0), pv = c2(a0) calling c1, other = c3(a0) calling c0(1, a1=1);
    c4(a0, a1=2, a2=3) with callers c5 (one default given positionally) and c6 (the last one by keyword)."""
    P0, L = ("p", 0), (lambda i: ("lit", i))
    cells = [
        {"id": 0, "nparams": 2, "defaults": [1], "body": ("add", ("mul", P0, L(10)), ("p", 1))},
        {"id": 1, "nparams": 1, "body": ("if", ("lt", L(0), P0),
                                         ("add", ("call", 1, [("sub", P0, L(1))]), ("call", 0, [P0])), L(0))},
        {"id": 2, "nparams": 1, "body": ("add", ("call", 1, [P0]), L(100))},
        {"id": 3, "nparams": 1, "body": ("add", ("callk", 0, [L(1)], [(1, L(1))]), P0)},
        {"id": 4, "nparams": 3, "defaults": [2, 3],
         "body": ("add", ("add", ("mul", P0, L(100)), ("mul", ("p", 1), L(10))), ("p", 2))},
        {"id": 5, "nparams": 1, "body": ("add", ("call", 4, [P0, L(2)]), L(1))},
        {"id": 6, "nparams": 1, "body": ("add", ("callk", 4, [P0], [(2, L(3))]), L(2))},
    ]
    for c in cells:
        c.update(cached=True, allow_none=False)
    evs = [["eval", "2", "3"], ["eval", "3", "7"], ["eval", "5", "1"], ["eval", "6", "1"], ["eval", "4", "1", "2", "3"]]
    cases = []

    def add(label, edits):
        cases.append({"cells": [dict(c) for c in cells], "refs": {0: 1, 1: 2, 2: 3, 3: 4}, "n_rn": 2, "maxdepth": None,
                      "ops": evs + edits + evs, "label": "spelled-edit/" + label})
    # rate(2) == rate(2, 1) == rate(a0=2) == rate(2, a1=1): assigned through the short and the full subscript
    for sp in (["2"], ["2", "1"]):
        for then in ([["clear", "0"]], [["clearat", "0", "2"]], [["clearat", "0", "k1=1", "k0=2"]],
                     [["set", "0", "2", "1", "=", "8"]], [["set", "0", "2", "=", "9"]]):
            add("set c0[%s] then %s" % (",".join(sp), " ".join(then[0])),
                [["set", "0"] + sp + ["=", "50"], ["eval", "2", "3"], ["eval", "0", "2"], ["eval", "0", "k0=2"]] + then)
    for sp in (["2"], ["2", "1"], ["k0=2"], ["2", "k1=1"], ["k1=1", "k0=2"]):
        add("clearat c0(%s)" % ",".join(sp), [["clearat", "0"] + sp])
    # two defaulted parameters: every admissible length of the subscript, the element computed by the callers before
    for sp in (["1"], ["1", "2"], ["1", "2", "3"]):
        add("set c4[%s]" % ",".join(sp), [["set", "4"] + sp + ["=", "70"], ["eval", "5", "1"], ["eval", "6", "1"],
                                            ["eval", "4", "1", "k2=3"], ["clear", "4"], ["clearat", "4", "1", "k1=2"]])
    for sp in (["1"], ["1", "2"], ["1", "k2=3"], ["k0=1", "k2=3", "k1=2"], ["1", "2", "3"]):
        add("clearat c4(%s)" % ",".join(sp), [["clearat", "4"] + sp])
    # a subscript that does not bind is refused and changes nothing
    add("short subscript without default", [["set", "4", "=", "1"], ["set", "0", "=", "1"], ["set", "0", "1", "2", "3", "=", "1"]])
    return cases


def recalc_cases():
    """Scenario family for the recalculation option = the example programs of `lean/MxModel/Props/C06.lean` (`kEnv`):
    c0 = 1, c1 = c0() * 10, c2 = c1() + 1 if c0() < 5 else 0, c3 = c1() + 100, c4 = 7, c5 = 1 if c0() < 5 else raise,
    c6 = c0() + 100.  Two leaves recomputed at once; a former non-leaf dependent that the new computation does not
    call; a failing recomputation with one target (compared) and with two (the comparison stops: target order)."""
    L, C = (lambda i: ("lit", i)), (lambda c: ("call", c, []))
    cells = [
        {"id": 0, "body": L(1)},
        {"id": 1, "body": ("mul", C(0), L(10))},
        {"id": 2, "body": ("if", ("lt", C(0), L(5)), ("add", C(1), L(1)), L(0))},
        {"id": 3, "body": ("add", C(1), L(100))},
        {"id": 4, "body": L(7)},
        {"id": 5, "body": ("if", ("lt", C(0), L(5)), L(1), ("raise", 0))},
        {"id": 6, "body": ("add", C(0), L(100))},
    ]
    for c in cells:
        c.update(cached=True, allow_none=False, nparams=0)
    ev = lambda *ids: [["eval", str(i)] for i in ids]      # noqa: E731
    hists = {
        "two leaves": ev(2, 3, 4) + [["set", "0", "=", "2"]] + ev(1, 2, 3, 4),
        "non-leaf dependent not called again": ev(2) + [["set", "0", "=", "9"]] + ev(1, 2),
        "failing recomputation, one target": ev(5) + [["set", "0", "=", "9"]] + ev(5, 0) + [["set", "0", "=", "3"]] + ev(5),
        "failing recomputation, two targets": ev(6, 5) + [["set", "0", "=", "9"]] + ev(6, 5),
        "overwrite of an input with dependents": ev(3, 2) + [["set", "0", "=", "2"], ["set", "0", "=", "4"], ["set", "1", "=", "5"]] + ev(3, 2),
    }
    return [{"cells": [dict(c) for c in cells], "refs": {0: 1, 1: 2, 2: 3, 3: 4}, "n_rn": 2, "maxdepth": None,
             "ops": ops, "label": "recalc/" + label} for label, ops in hists.items()]



# --------------------------------------------------------------------------------------
# parametrised spaces among the dependents of the edited element (own scenario world: the exec world has cells and
# references only)

IS_KEY = "recalc-leaf-inside-discarded-itemspace"
IS_CELLS = ("x", "y", "z")


def is_source(spec):
    """the program of a scenario, from its spec alone (JSON): space A with x(i) = 10*i, y(i) = x(i) + 1, z(i) = 7*i;
    the parametrised space P whose parameter formula reads one element of A; cells of P that read the reference made
    by the parameter formula (foo), an element of A (bar), nothing (baz); optionally a parametrised child Q of P whose
    parameter formula reads another element of A; space B whose cells reach ItemSpaces of P (and of Q) by subscript."""
    src = {
        "A.x": "lambda i: 10 * i", "A.y": "lambda i: x(i) + 1", "A.z": "lambda i: 7 * i",
        "P": "lambda k: {'refs': {'r': A.%s(%d) + k}}" % (spec["p_cells"], spec["p_arg"]),
        "P.foo": "lambda t: r + t",
        "P.bar": "lambda t: A.%s(%s) + k" % (spec["bar_cells"], "t" if spec["bar_arg"] is None else spec["bar_arg"]),
        "P.baz": "lambda t: 3 * t",
        "B.h": "lambda t: P[%d].foo(t) + 1" % spec["h_item"],
        "B.hb": "lambda t: P[t].bar(%d) + 2" % spec["hb_arg"],
    }
    if spec.get("q_cells"):
        src["P.Q"] = "lambda j: {'refs': {'s': A.%s(%d) + j}}" % (spec["q_cells"], spec["q_arg"])
        src["P.Q.g"] = "lambda t: s + t + A.x(%d)" % spec["g_arg"]
        src["B.h2"] = "lambda t: P[%d].Q[1].g(t) + 1" % spec["h_item"]
    return src


def is_build(spec):
    src = is_source(spec)
    m = mx.new_model("IS")
    A = m.new_space("A")
    for c in IS_CELLS:
        A.new_cells(c, formula=src["A." + c])
    P = m.new_space("P", formula=src["P"])
    P.A = A
    for c in ("foo", "bar", "baz"):
        P.new_cells(c, formula=src["P." + c])
    if "P.Q" in src:
        Q = P.new_space("Q", formula=src["P.Q"])
        Q.A = A
        Q.new_cells("g", formula=src["P.Q.g"])
    B = m.new_space("B")
    B.P = P
    for c in ("h", "hb", "h2"):
        if "B." + c in src:
            B.new_cells(c, formula=src["B." + c])
    return m


def is_resolve(m, path):
    """`P[1].Q[2].g` -> the object a user reaches by that spelling (building ItemSpaces on the way)"""
    import re
    obj = m
    for name, sub in re.findall(r"([A-Za-z_]\w*)|\[([-\d,]*)\]", path):
        if name:
            obj = obj.spaces[name] if name in obj.spaces else obj.cells[name]
        else:
            obj = obj[tuple(int(a) for a in sub.split(",") if a)]
    return obj


def _is_key_s(key):
    return ",".join(repr(a) for a in key)


def _is_path(impl, mimpl):
    if impl is mimpl:
        return ""
    par = impl.parent
    pp = _is_path(par, mimpl)
    for k, v in (getattr(par, "param_spaces", None) or {}).items():
        if v is impl:
            return "%s[%s]" % (pp, _is_key_s(k))
    return (pp + "." if pp else "") + impl.name


def is_snapshot(m):
    """every held value of every cells (with the input mark), the ItemSpaces held by every parametrised space, and the
    same for the cells and children of every ItemSpace; path -> text, nothing in it depends on addresses or on the
    iteration order of a dict/set"""
    snap = {}

    def cells_of(space, pre):
        for cn in sorted(space.cells):
            ci = space.cells[cn]._impl
            for k in sorted(ci.data):
                snap["%s.%s(%s)" % (pre, cn, _is_key_s(k))] = "%r%s" % (ci.data[k], "I" if k in ci.input_keys else "")

    def walk(space, pre):
        cells_of(space, pre)
        ps = getattr(space._impl, "param_spaces", None) or {}
        for k in sorted(ps):
            snap["%s[%s]" % (pre, _is_key_s(k))] = "itemspace"
            walk(ps[k].interface, "%s[%s]" % (pre, _is_key_s(k)))
        for sn in sorted(space.spaces):
            walk(space.spaces[sn], pre + "." + sn)
    for sn in sorted(m.spaces):
        walk(m.spaces[sn], sn)
    return snap


def is_dependents(m, path, key):
    """(dependents, leaf dependents) of an element as node texts (`A.y(0)`, `P[1]`, `P[1].foo(2)`), from the edges of
    the implementation's dependency graph by the harness' own search; leaves as (kind, path, key) too"""
    g = m._impl.tracegraph
    mimpl = m._impl
    obj = is_resolve(m, path)._impl
    start = (obj, tuple(key))
    if start not in g:
        return set(), []
    seen, todo = set(), [start]
    while todo:
        x = todo.pop()
        for y in g.successors(x):
            if y not in seen:
                seen.add(y)
                todo.append(y)

    def text(n):
        p = _is_path(n[0], mimpl)
        if hasattr(n[0], "param_spaces"):
            return ("item", p, list(n[1]), "%s[%s]" % (p, _is_key_s(n[1])))
        return ("cells", p, list(n[1]), "%s(%s)" % (p, _is_key_s(n[1])))
    deps = {text(n)[3] for n in seen}
    leaves = sorted(text(n) for n in seen if not any(True for _ in g.successors(n)))
    return deps, leaves


def _is_inside(x, itemnode):
    return x.startswith(itemnode + ".") or x.startswith(itemnode + "[")


def is_apply(m, op):
    """-> result text.  ops: eval path key | item path key | set path key value | clearat path key | clear path"""
    with quiet():
        try:
            if op[0] == "eval":
                return repr(is_resolve(m, op[1])(*op[2]))
            if op[0] == "item":
                is_resolve(m, op[1])[tuple(op[2])]
                return "ok"
            if op[0] == "set":
                is_resolve(m, op[1])[tuple(op[2])] = op[3]
            elif op[0] == "clearat":
                is_resolve(m, op[1]).clear_at(*op[2])
            elif op[0] == "clear":
                is_resolve(m, op[1]).clear()
            else:
                raise core.Infra("unknown op %r" % (op,))
            return "ok"
        except core.Infra:
            raise
        except BaseException as e:      # noqa: BLE001
            if not core.raised_by_impl(e):
                raise
            return "raised " + core.impl_error_text(e)[:120]


def is_check(spec, ops, stats=None):
    """One history on two models of the same program: `R` with the recalculation option on, `L` lazily, where after
    every assignment the former leaf dependents (read off L's graph before the assignment) are evaluated the way a
    user would ask for them (by path: `P[1]`, `P[1].foo(2)`).  After every op both hold the same values, inputs and
    ItemSpaces, and every op returns the same; and on L each value edit removed exactly the dependents (and what
    lived in a discarded ItemSpace) and nothing else.  -> list of (text, index of the op, in the known class?)"""
    from ..impl import close_all
    import collections
    stats = stats if stats is not None else collections.Counter()
    fails = []
    close_all()
    try:
        with quiet():
            L = is_build(spec)
            R = is_build(spec)
        for k, op in enumerate(ops):
            known_class = False
            if op[0] in ("set", "clearat", "clear"):
                mx.set_recalc(False)
                before = is_snapshot(L)
                if op[0] == "clear":
                    els = [(op[1], [int(a) for a in x[len(op[1]) + 1:-1].split(",") if a]) for x, v in before.items()
                           if x.startswith(op[1] + "(") and not v.endswith("I")]
                else:
                    els = [(op[1], op[2])]
                deps, leaves = set(), []
                for pth, key in els:
                    d, lv = is_dependents(L, pth, key)
                    deps |= d
                    leaves += [x for x in lv if x not in leaves]
                held = [e for e in els if "%s(%s)" % (e[0], _is_key_s(e[1])) in before]
                resL = is_apply(L, op)
                afterL = is_snapshot(L)
                gone_items = [x for x in deps if before.get(x) == "itemspace"]
                expect = {x: v for x, v in before.items()
                          if x not in deps and not any(_is_inside(x, it) for it in gone_items)}
                for pth, key in els:
                    expect.pop("%s(%s)" % (pth, _is_key_s(key)), None)
                if op[0] == "set" and resL == "ok":
                    expect["%s(%s)" % (op[1], _is_key_s(op[2]))] = "%rI" % (op[3],)
                stats["itemspace_edits_examined"] += 1
                if gone_items:
                    stats["itemspace_edits_discarding_an_itemspace"] += 1
                if resL != "ok":
                    fails.append(("%s %s" % (_is_op_s(op), resL), k, False))
                    break
                if afterL != expect:
                    fails.append(("after %s the held values and ItemSpaces are not 'before minus dependents': %s" % (
                        _is_op_s(op), _diff(expect, afterL)), k, False))
                    break
                if op[0] == "set":
                    item_leaves = [x for x in leaves if x[0] == "item"]
                    if item_leaves:
                        stats["itemspace_recalc_edits_with_itemspace_leaf"] += 1
                    if leaves:
                        stats["itemspace_recalc_edits_with_dependents"] += 1
                    known_class = any(_is_inside(x[3], it) for x in leaves for it in gone_items)
                    if known_class:
                        stats["itemspace_recalc_leaf_inside_discarded_itemspace"] += 1
                    for kind, pth, key, _ in leaves:
                        r = is_apply(L, ["eval" if kind == "cells" else "item", pth, key])
                        if r.startswith("raised"):
                            raise core.Infra("lazy evaluation of a former leaf dependent %s %s: %s" % (pth, key, r))
                mx.set_recalc(True)
                resR = is_apply(R, op)
                mx.set_recalc(False)
            else:
                mx.set_recalc(False)
                resL = is_apply(L, op)
                mx.set_recalc(True)
                resR = is_apply(R, op)
                mx.set_recalc(False)
            if resR != resL:
                fails.append(("recalc: %s %s; run lazily: %s" % (_is_op_s(op), resR, resL), k, known_class))
                break
            sl, sr = is_snapshot(L), is_snapshot(R)
            if sl != sr:
                fails.append(("recalc: after %s the held values / ItemSpaces differ from the lazy edit followed by "
                              "evaluating the former leaf dependents: %s" % (_is_op_s(op), _diff(sl, sr)), k, known_class))
                break
    finally:
        mx.set_recalc(False)
        close_all()
    return fails


def _is_op_s(op):
    if op[0] in ("eval", "item"):
        return "%s%s%s%s" % (op[1], "(["[op[0] == "item"], _is_key_s(op[2]), ")]"[op[0] == "item"])
    if op[0] == "set":
        return "%s[%s] = %r" % (op[1], _is_key_s(op[2]), op[3])
    if op[0] == "clearat":
        return "%s.clear_at(%s)" % (op[1], _is_key_s(op[2]))
    return "%s.clear()" % op[1]


def is_gen(rng):
    spec = {"p_cells": rng.choice(["x", "x", "y", "z"]), "p_arg": rng.randrange(3),
            "bar_cells": rng.choice(["x", "x", "y"]), "bar_arg": rng.choice([None, None, 0, 1]),
            "h_item": rng.choice([1, 2]), "hb_arg": rng.randrange(3),
            "q_cells": rng.choice([None, "x", "y", "z"]), "q_arg": rng.randrange(3), "g_arg": rng.randrange(3)}
    items = ["P[%d]" % k for k in (1, 2, 3)]
    pool = []
    for it in items:
        pool += [["item", "P", [int(it[2])]]] * 2
        pool += [["eval", it + "." + c, [rng.randrange(3)]] for c in ("foo", "bar", "baz")]
        if spec["q_cells"]:
            pool += [["item", it + ".Q", [rng.choice([1, 2])]], ["eval", it + ".Q[1].g", [rng.randrange(3)]]]
    pool += [["eval", "B.h", [rng.randrange(3)]], ["eval", "B.hb", [rng.choice([1, 2])]]]
    pool += [["eval", "B.h2", [rng.randrange(3)]]] if spec["q_cells"] else []
    pool += [["eval", "A." + c, [rng.randrange(3)]] for c in IS_CELLS]

    def edit():
        c = rng.choice(["x", "x", "x", "y", "z"])
        i = rng.choice([spec["p_arg"], spec["p_arg"], rng.randrange(3)])
        kind = rng.choice(["set"] * 6 + ["clearat"] * 2 + ["clear"])
        if kind == "set":
            cur = {"x": 10 * i, "y": 10 * i + 1, "z": 7 * i}[c]
            return ["set", "A." + c, [i], rng.choice([5, 5, cur, rng.randrange(-2, 40)])]
        return ["clearat", "A." + c, [i]] if kind == "clearat" else ["clear", "A." + c]
    ops = []
    for _ in range(rng.choice([1, 1, 2, 3])):
        ops += [list(o) for o in rng.sample(pool, rng.randrange(1, 5))]
        ops.append(edit())
    ops += [list(o) for o in rng.sample(pool, rng.randrange(0, 3))]
    return spec, ops


def is_scenarios():
    """the motifs, every one with every kind of edit: the ItemSpace node a LEAF (only built; built and a cells of it
    that reads the parameter's reference evaluated), cells inside the ItemSpace reading the edited cells, the ItemSpace
    an INNER dependent (reached from a cells elsewhere), several ItemSpaces, a parametrised child, a transitive reader"""
    base = {"p_cells": "x", "p_arg": 0, "bar_cells": "x", "bar_arg": None, "h_item": 1, "hb_arg": 2,
            "q_cells": "x", "q_arg": 1, "g_arg": 2}
    pres = {
        "leaf: only built": [["item", "P", [1]]],
        "leaf: built, foo evaluated": [["eval", "P[1].foo", [2]]],
        "cells inside reads the edited cells": [["eval", "P[1].bar", [1]], ["eval", "P[2].baz", [1]]],
        "inner: reached from B.h": [["eval", "B.h", [2]]],
        "inner: B.hb through bar": [["eval", "B.hb", [1]]],
        "several ItemSpaces": [["item", "P", [1]], ["eval", "P[2].foo", [0]], ["item", "P", [3]], ["eval", "A.z", [3]]],
        "child: built": [["item", "P[1].Q", [1]]],
        "child: g evaluated": [["eval", "P[1].Q[2].g", [1]]],
        "child: reached from B.h2": [["eval", "B.h2", [2]]],
    }
    edits = [["set", "A.x", [0], 5], ["set", "A.x", [0], 0], ["set", "A.x", [1], 5], ["set", "A.x", [2], 7],
             ["clearat", "A.x", [0]], ["clear", "A.x"], ["set", "A.z", [3], 1]]
    out = []
    for label, pre in pres.items():
        for e in edits:
            out.append((dict(base), [list(o) for o in pre] + [list(e)] + [list(o) for o in pre], label))
    for pc in ("y", "z"):
        s = dict(base, p_cells=pc, q_cells="y", q_arg=0)
        for e in edits:
            out.append((s, [["eval", "P[1].foo", [2]], ["item", "P[2].Q", [1]], list(e), ["eval", "P[1].foo", [2]],
                            ["set", "A.x", [0], 3]], "transitive reader through A." + pc))
    return out


def is_shrink(spec, ops, k, kind):
    ops = [list(o) for o in ops[:k + 1]]
    i = len(ops) - 2
    while i >= 0:
        cand = ops[:i] + ops[i + 1:]
        f = is_check(spec, cand)
        if f and f[0][1] == len(cand) - 1 and f[0][2] == kind:
            ops = cand
        i -= 1
    return ops


def itemspace_recalc(ctx, out, stats):
    """Scenario family + generator "a parametrised space among the dependents of the edited element"."""
    import json as _json
    import os as _os
    known = any(f.get("key") == IS_KEY for f in core.load_findings("C06"))
    cases = []
    cdir = _os.path.join(core.CORPUS_DIR, "C06", "itemspace")
    if _os.path.isdir(cdir):
        for f in sorted(_os.listdir(cdir)):
            if f.endswith(".json"):
                j = _json.load(open(_os.path.join(cdir, f)))
                cases.append((j["spec"], j["ops"], "corpus/" + f))
    stats["itemspace_corpus_cases"] = len(cases)
    cases += is_scenarios()
    stats["itemspace_scenarios"] = len(cases) - stats["itemspace_corpus_cases"]
    n = ctx.n(60, 600)
    for i in range(n):
        spec, ops = is_gen(ctx.rng("itemspace", i))
        cases.append((spec, ops, "generated %d" % i))
    stats["itemspace_generated"] = n
    reported = 0
    for spec, ops, label in cases:
        for text, k, in_class in is_check(spec, ops, stats)[:1]:
            if in_class and not known:
                # genuine finding on the unchanged tree (notes/R7EXEC-c06-notes.md); set aside by its input class until
                # it is registered in known_findings.json under IS_KEY (then it is reported as that known finding)
                stats["itemspace_set_aside_known_class"] += 1
                continue
            if reported >= 6:
                break
            small = is_shrink(spec, ops, k, in_class) if reported < 2 else ops[:k + 1]
            f = is_check(spec, small)
            text = f[0][0] if f else text
            reported += 1
            out.fail("%s [%s]" % (text, label), {"scenario": "itemspace_recalc", "spec": spec, "ops": small,
                                                 "program": is_source(spec)},
                     key=IS_KEY if in_class else None)
    for k in sorted(stats):
        if k.startswith("itemspace_"):
            out.coverage["input_distribution"][k] = stats[k]
    out.coverage["rule"] += ("; parametrised spaces among the dependents: a parameter formula / cells of an ItemSpace / a "
                             "parametrised child read the edited cells, ItemSpaces built and reached from cells elsewhere; "
                             "assignment (changing / not changing the value), clear_at, clear; recalculating run against "
                             "the lazy run followed by asking for the former leaf dependents (values, inputs, ItemSpaces "
                             "held), and 'before minus dependents' on the lazy run")
    if stats["itemspace_set_aside_known_class"]:
        out.assumptions.append("recalculation option on, a former leaf dependent lives inside an ItemSpace that the same "
                               "assignment discards (class %s): the assignment raises DeletedObjectError on the unchanged "
                               "tree; %d such histories set aside (finding in notes/R7EXEC-c06-notes.md, not yet "
                               "registered)" % (IS_KEY, stats["itemspace_set_aside_known_class"]))


def _replay_itemspace(h, out):
    known = any(f.get("key") == IS_KEY for f in core.load_findings("C06"))
    for text, k, in_class in is_check(h["spec"], h["ops"])[:1]:
        out.fail(text, h, key=IS_KEY if in_class else None)


def dag_enumeration(ctx, out, stats):
    """every dependency DAG on 4 cells (thorough: 5; quick: a rotating slice of the 5-cells shapes too) x every order
    of requests x every cells as the edited element (computed / input) x every value edit (dagenum.py).  A failing
    scenario is judged again as an ordinary case by `oracle` (fresh model, own search over the recorded edges), which
    gives the replayable history; if that does not fail, the scenario is reported as the enumerator saw it."""
    import collections
    from .. import core, dagenum

    def on_failure(case, texts):
        sub = core.Outcome()
        oracle(case, [], sub, collections.Counter())
        if sub.failures:
            for f in sub.failures[:2]:
                out.fail(f["what"], f["history"], key=f.get("key"))
        else:
            out.fail("%s: %s" % (case["label"], texts[0]), dict(X.case_json(case), scenario="dag-enum"))
    dagenum.enumerate_all(ctx, on_failure, stats, n=4)
    if not out.failures:
        dagenum.enumerate_all(ctx, on_failure, stats, n=5, slice_k=4, shape_k=8)


def run(ctx, out):
    from .. import dagenum
    stats = X.run_family(ctx, out, CFG, oracle, 120, 2000,
                         structured=scenario_cases() + spelled_edit_cases() + recalc_cases() + X.copy_cases()
                         + dagenum.sample_cases(ctx, 4, ctx.n(40, 400)))
    overwrite_equal(out, stats)
    assign_held_object(out, stats)
    out.coverage["input_distribution"]["assign_held_object_scenarios"] = stats["assign_held_object_scenarios"]
    itemspace_recalc(ctx, out, stats)
    dag_enumeration(ctx, out, stats)
    for k in ("dag_shapes", "dag_orders", "dag_scenarios"):
        out.coverage["input_distribution"][k] = stats[k]
    out.coverage["rule"] += ("; small-scope exhaustive: every dependency DAG on 4 cells (upper-triangular adjacency; thorough: "
                             "5 cells, quick: a rotating eighth of them) x every distinct order of requests x every cells "
                             "edited (computed / input) x assignment / clear_at / clear / clear_all / assignment with "
                             "recalculation, judged from the shape alone")
    out.coverage["input_distribution"]["overwrite_equal_scenarios"] = stats["overwrite_equal_scenarios"]
    out.assumptions.append("recalculation option on: modelx evaluates the former leaf dependents in the iteration "
                           "order of a Python set; the model takes the order of its graph search.  When a "
                           "recomputation fails and there are several targets the comparison of that history stops "
                           "(%d of %d recalculating histories)" % (stats["recalc_corr_order_dependent_stops"],
                                                                 stats["recalc_corr_histories"]))


def _replay_dag(h, out):
    """a scenario of the DAG enumeration the ordinary oracle did not fail on: run it as the enumerator does"""
    import re
    from .. import dagenum
    from ..impl import close_all
    m = re.match(r"dag/(\S*) arity=(\d) (asc|desc) order=(\d+) (\S+) c(\d+)( input)?$", h.get("label", ""))
    if not m:
        return
    callees = [[int(x) for x in part.split(",") if x] for part in m.group(1).split("|")]
    close_all()
    sm = dagenum.ShapeModel(callees, int(m.group(2)), m.group(3) == "desc")
    try:
        fails = dagenum.run_scenario(sm, tuple(int(c) for c in m.group(4)), int(m.group(6)), bool(m.group(7)), m.group(5))
    finally:
        sm.close()
    for t in fails[:1]:
        out.fail("%s: %s" % (h["label"], t), h)


def replay(ctx, payload, out):
    import collections
    h = payload.get("history") or {}
    if isinstance(h, dict) and h.get("scenario") == "assign_held_object":
        assign_held_object(out, collections.Counter())
        return
    if isinstance(h, dict) and h.get("scenario") == "overwrite_equal":
        overwrite_equal(out, collections.Counter())
        return
    if isinstance(h, dict) and h.get("scenario") == "itemspace_recalc":
        _replay_itemspace(h, out)
        return
    if isinstance(h, dict) and h.get("scenario") == "dag-enum":
        _replay_dag(h, out)
    X.replay_family(ctx, payload, out, CFG, oracle)
