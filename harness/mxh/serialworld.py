"""C04 - the statement-level model of the serializer (`lean/MxModel/Kernels/Serial*.lean`) against the real files.

For a model built by a `c04` program:

(a) *writer*: the model is DESCRIBED (`mdesc_of`: name, docs, flags, bases, formulas, defined cells and references
    with the value kind `EncoderSelector` distinguishes, input values by object identity, ItemSpace inputs), written
    by the real `write_model` to a directory, every `__init__.py` is parsed with Python's `ast` / `tokenize` into the
    abstract statement listing of `Kernels/Serial.lean` (`listing_of_dir`), the `_data` files are listed with the
    ids they carry - and compared with the files the Lean `write` produces for the description (`mxdriver serial`,
    op `write`): same statements in the same order in every file, same data files, same ids.
(b) *reader*: the listing of the REAL files is given to the Lean `read`; the real `read_model` reads the directory.
    Both fail, or both succeed and the description of the model modelx built equals the description Lean computed.
(c) which recorded finding a description triggers is decided by the driver (`hk`): a failing real read must be one
    the model predicts (`refover` / `relref`: ValueError, `bases`: TypeError).

Canonical form: object identities (`id()`) are renumbered in order of first occurrence in the description; pickle
tables, ItemSpace input lines, data files and sub directories are compared as sorted sets; no bytes of pickles.
Everything here is trusted glue between Python objects / files and the S-expressions of the driver."""
import ast
import io
import json
import os
import shutil
import tempfile
import tokenize
import types

from . import core
from .impl import mx, close_all, quiet, err_kind

from modelx.core.base import Interface  # noqa: E402

SECTION_DIVIDER = "# " + "-" * 75
MARKERS = {"# Cells": "cells", "# References": "refs"}


class Unsupported(Exception):
    """the description language does not cover this model (object of another model, inside an ItemSpace ...)"""


# ----------------------------------------------------------------------------------------------
# S-expressions
# ----------------------------------------------------------------------------------------------

def enc(s):
    return ",".join(str(ord(c)) for c in s) if s else "-"


def sx(tag, *items):
    return "(" + " ".join((tag,) + tuple(items)) + ")"


def parse_sexp(text):
    toks = text.replace("(", " ( ").replace(")", " ) ").split()
    pos = 0

    def rd():
        nonlocal pos
        t = toks[pos]
        pos += 1
        if t == "(":
            out = []
            while toks[pos] != ")":
                out.append(rd())
            pos += 1
            return out
        return t
    res = rd()
    if pos != len(toks):
        raise ValueError("trailing tokens")
    return res


def show_sexp(x):
    if isinstance(x, list):
        return "(" + " ".join(show_sexp(y) for y in x) + ")"
    return x


def normalise(x, members_unordered=False):
    """sets are compared as sorted sets: pickle tables, ItemSpace input lines, data files, other files, sub
    directories (the reader finds them by name).  `members_unordered`: also the cells, references and child
    spaces of a space - C04 does not speak about their order, and modelx re-orders the members of a space that
    has bases when the reader adds the bases after the cells (derivation rebuilds the dict)."""
    if not isinstance(x, list) or not x:
        return x
    tag = x[0]
    rest = [normalise(y, members_unordered) for y in x[1:]]
    if tag in ("pk", "ios"):
        rest = sorted(set(rest))
    elif tag in ("dyn", "data", "other", "subs"):
        rest = sorted(rest, key=show_sexp)
    elif members_unordered and tag in ("cells", "refs", "spaces", "dinp"):
        rest = sorted(rest, key=show_sexp)
    return [tag] + rest


def canon(text):
    return show_sexp(normalise(parse_sexp(text)))


def first_difference(a, b):
    ta, tb = a.split(), b.split()
    for i, (x, y) in enumerate(zip(ta, tb)):
        if x != y:
            return "token %d: %s | %s" % (i, " ".join(ta[max(0, i - 6):i + 4]), " ".join(tb[max(0, i - 6):i + 4]))
    return "lengths %d / %d: ...%s | ...%s" % (len(ta), len(tb), " ".join(ta[-6:]), " ".join(tb[-6:]))


def dec(s):
    return "" if s == "-" else "".join(chr(int(t)) for t in s.split(","))


# ----------------------------------------------------------------------------------------------
# describing a live model
# ----------------------------------------------------------------------------------------------

LITERAL_TYPES = (bool, int, float, str, type(None))


def literal_text(v):
    """`LiteralEncoder.encode`"""
    if isinstance(v, bool) or v is None:
        return str(v)
    return json.dumps(v, ensure_ascii=False)


def def_node_text(src):
    """what the reader makes of the text of a def (see `c04.def_source_after_read`)"""
    from .props import c04
    try:
        return c04.def_source_after_read(src)
    except Exception:
        return src


class Describer:
    """object identity -> id text; `idof(obj)` is `id(obj)` for the model that is written and the id in the
    pickle table for a model that was read"""

    def __init__(self, model, idof, spec_idof):
        self.m = model
        self.idof = idof
        self.spec_idof = spec_idof
        self.value_spec = {id(sp.value): sp for sp in model.iospecs}

    def path(self, obj):
        t = obj._idtuple
        if t[0] != self.m.name or not all(isinstance(x, str) for x in t):
            raise Unsupported("object-valued reference to %r" % (t,))
        return list(t[1:])

    def refval(self, v, is_proxy_interface=False):
        if isinstance(v, Interface) and v._is_valid():
            if v.model is not self.m:
                raise Unsupported("object of another model")
            return ("if", self.path(v))
        if isinstance(v, Interface):
            raise Unsupported("invalid interface as a reference value")
        if any(type(v) is t for t in LITERAL_TYPES):
            return ("lit", literal_text(v))
        if id(v) in self.value_spec:
            return ("io", self.idof(v), self.spec_idof(self.value_spec[id(v)]))
        if isinstance(v, types.ModuleType):
            return ("mod", v.__name__)
        return ("pk", self.idof(v))

    def formula(self, f):
        if f is None:
            return None
        src = f.source
        if src[:6] == "lambda":
            return ("lam", src)
        return ("def", src, def_node_text(src))

    def inputs(self, cells):
        out = []
        impl = cells._impl
        for key in impl.data:
            if key in impl.input_keys:
                out.append((self.idof(key), self.idof(impl.data[key])))
        return out

    def cells(self, c):
        f = self.formula(c.formula)
        return {"name": c.name, "formula": f, "allow_none": c.allow_none, "is_cached": bool(c.is_cached),
                "doc": c.doc if (f and f[0] == "lam") else None, "inputs": self.inputs(c)}

    def dyn(self, space, static_parent, out):
        for cells in space.cells.values():
            for key in cells._impl.input_keys:
                value = cells._impl.data[key]
                rel = cells._idtuple[len(static_parent._idtuple):]
                addr = [("s", e) if isinstance(e, str) else ("k", self.idof(e)) for e in rel]
                out.append((addr, self.idof(key), self.idof(value)))
        for sub in space.named_spaces.values():
            self.dyn(sub, static_parent, out)
        for sub in space._named_itemspaces.values():
            self.dyn(sub, static_parent, out)

    def space(self, s):
        cells, dinp = [], []
        for c in s.cells.values():
            if c._is_defined():
                cells.append(self.cells(c))
            else:
                inp = self.inputs(c)
                if inp:
                    dinp.append((c.name, inp))
        refs = []
        for k in s._own_refs:
            if k[0] == "_":
                continue
            proxy = s._get_object(k, as_proxy=True)
            if proxy.is_derived():
                continue
            refs.append((k, self.refval(proxy.value), proxy.refmode))
        dyn = []
        for it in s._named_itemspaces.values():
            self.dyn(it, s, dyn)
        return {"name": s.name, "doc": s.doc, "allow_none": s.allow_none, "formula": self.formula(s.formula),
                "bases": [self.path(b) for b in s._direct_bases], "cells": cells, "refs": refs, "dyn": dyn,
                "dinp": dinp, "spaces": [self.space(sub) for n, sub in s.spaces.items() if n[0] != "_"]}

    def model(self):
        refs = []
        for k in self.m.refs:
            if k[0] == "_":
                continue
            proxy = self.m._get_object(k, as_proxy=True)
            refs.append((k, self.refval(proxy.value)))
        return {"name": self.m.name, "doc": self.m.doc, "allow_none": bool(self.m.allow_none), "refs": refs,
                "spaces": [self.space(s) for n, s in self.m.spaces.items() if n[0] != "_"]}


def mdesc_ids(md):
    """the raw ids of a description in order of first occurrence"""
    seen = []

    def add(i):
        if i not in seen:
            seen.append(i)

    def val(v):
        if v[0] == "pk":
            add(v[1])
        elif v[0] == "io":
            add(v[1])
            add(v[2])
    for _, v in md["refs"]:
        val(v)

    def space(sd):
        for _, v, _m in sd["refs"]:
            val(v)
        for c in sd["cells"]:
            for k, v in c["inputs"]:
                add(k)
                add(v)
        for addr, k, v in sd["dyn"]:
            add(k)
            add(v)
            for kind, e in addr:
                if kind == "k":
                    add(e)
        for _, inp in sd["dinp"]:
            for k, v in inp:
                add(k)
                add(v)
        for sub in sd["spaces"]:
            space(sub)
    for sd in md["spaces"]:
        space(sd)
    return seen


class IdMap:
    def __init__(self):
        self.map = {}

    def __call__(self, raw):
        if raw not in self.map:
            self.map[raw] = str(len(self.map) + 1)
        return self.map[raw]


def s_optbool(v):
    return "N" if v is None else ("T" if v else "F")


def s_optstr(v):
    return "N" if v is None else sx("d", enc(v))


def s_path(p):
    return sx("p", *[enc(n) for n in p])


def s_formula(f):
    if f is None:
        return "N"
    if f[0] == "lam":
        return sx("lam", enc(f[1]))
    return sx("def", enc(f[1]), enc(f[2]))


def s_val(v, ids):
    if v[0] == "lit":
        return sx("lit", enc(v[1]))
    if v[0] == "pk":
        return sx("pk", ids(v[1]))
    if v[0] == "if":
        return sx("if", s_path(v[1]))
    if v[0] == "mod":
        return sx("mod", enc(v[1]))
    return sx("io", ids(v[1]), ids(v[2]))


def s_entry(e, ids):
    return sx("e", ids(e[0]), ids(e[1]))


def s_elem(e, ids):
    return sx("s", enc(e[1])) if e[0] == "s" else sx("k", ids(e[1]))


def s_space(sd, ids):
    dyn = sorted(sx("di", sx("addr", *[s_elem(e, ids) for e in addr]), ids(k), ids(v)) for addr, k, v in sd["dyn"])
    return sx("space", enc(sd["name"]), s_optstr(sd["doc"]), s_optbool(sd["allow_none"]), s_formula(sd["formula"]),
              sx("bases", *[s_path(b) for b in sd["bases"]]),
              sx("cells", *[sx("cell", enc(c["name"]), s_formula(c["formula"]), s_optbool(c["allow_none"]),
                               "T" if c["is_cached"] else "F", s_optstr(c["doc"]),
                               sx("inputs", *[s_entry(e, ids) for e in c["inputs"]])) for c in sd["cells"]]),
              sx("refs", *[sx("ref", enc(n), s_val(v, ids), str(m)) for n, v, m in sd["refs"]]),
              sx("dyn", *dyn),
              sx("dinp", *[sx("c", enc(n), *[s_entry(e, ids) for e in inp]) for n, inp in sd["dinp"]]),
              sx("spaces", *[s_space(sub, ids) for sub in sd["spaces"]]))


def s_mdesc(md, ids):
    return sx("model", enc(md["name"]), s_optstr(md["doc"]), "T" if md["allow_none"] else "F",
              sx("refs", *[sx("ref", enc(n), s_val(v, ids)) for n, v in md["refs"]]),
              sx("spaces", *[s_space(sd, ids) for sd in md["spaces"]]))


def check_modes(md):
    for sd in md["spaces"]:
        _check_modes_space(sd)


def _check_modes_space(sd):
    for n, v, m in sd["refs"]:
        if m not in ("auto", "absolute", "relative"):
            raise Unsupported("reference mode %r" % (m,))
    for sub in sd["spaces"]:
        _check_modes_space(sub)


# ----------------------------------------------------------------------------------------------
# the files modelx really wrote, as a listing of statements
# ----------------------------------------------------------------------------------------------

def _marker_lines(src):
    """line number of the `# Cells` / `# References` comment of every section marker (divider COMMENT token at
    column 0 directly followed, on the next line, by the symbol comment) -> section"""
    out = {}
    try:
        toks = list(tokenize.generate_tokens(io.StringIO(src).readline))
    except Exception:
        return out
    comments = {t.start[0]: t for t in toks if t.type == tokenize.COMMENT and t.start[1] == 0}
    for ln, t in comments.items():
        if t.string.strip() == SECTION_DIVIDER and (ln + 1) in comments:
            sym = comments[ln + 1].string.strip()
            out[ln + 1] = MARKERS.get(sym, "default")
    return out


def _segment(atok, node):
    """the source text of a syntax node as `asttokens` delimits it (the library the reader itself uses; Python's
    own `end_col_offset` of a def includes a trailing `;`)"""
    return atok.get_text(node)


def _funcdef_text(atok, node):
    """`FunctionDefParser`: the text of the node, plus the comment that follows on its last line; then what the
    `Formula` constructor makes of it (lines re-joined, one newline at the end)"""
    seg = atok.get_text(node)
    nxtok = node.last_token.index + 1
    if nxtok < len(atok.tokens) and atok.tokens[nxtok].type == tokenize.COMMENT \
            and node.last_token.line == atok.tokens[nxtok].line:
        lines = seg.splitlines()
        lines.pop()
        lines.append(node.last_token.line.rstrip())
        seg = "\n".join(lines)
    return "\n".join(seg.splitlines()) + "\n"


def _elem(node, ids):
    if isinstance(node, ast.Constant) and isinstance(node.value, str):
        return sx("s", enc(node.value))
    if isinstance(node, ast.Constant) and type(node.value) is int:
        return sx("k", ids(node.value))
    raise Unsupported("element of an id tuple: %s" % ast.dump(node))


def _rhs(atok, target, value, ids):
    if target == "_name" and isinstance(value, ast.Constant) and isinstance(value.value, str):
        return sx("str", enc(value.value))
    if target in ("_bases", "_spaces") and isinstance(value, ast.List) and all(
            isinstance(e, ast.Constant) and isinstance(e.value, str) for e in value.elts):
        return sx("names", *[enc(e.value) for e in value.elts])
    if isinstance(value, ast.Tuple) and value.elts and isinstance(value.elts[0], ast.Constant) \
            and isinstance(value.elts[0].value, str):
        args = []
        for e in value.elts[1:]:
            if isinstance(e, ast.Constant) and isinstance(e.value, str):
                args.append(sx("s", enc(e.value)))
            elif isinstance(e, ast.Constant) and type(e.value) is int:
                args.append(sx("n", ids(e.value)))
            elif isinstance(e, ast.Tuple):
                args.append(sx("t", *[_elem(x, ids) for x in e.elts]))
            else:
                raise Unsupported("element of a tagged tuple: %s" % ast.dump(e))
        return sx("tagged", enc(value.elts[0].value), *args)
    return sx("text", enc(_segment(atok, value)))


def statements_of(src, ids):
    import asttokens
    atok = asttokens.ASTTokens(src, parse=True)
    tree = atok.tree
    markers = _marker_lines(src)
    items = []      # (line, order, text)
    for ln, sec in markers.items():
        items.append((ln, 0, sx("marker", sec)))
    for node in tree.body:
        if isinstance(node, ast.Expr) and isinstance(node.value, ast.Constant) and isinstance(node.value.value, str):
            t = sx("doc", enc(node.value.value))
        elif isinstance(node, ast.ImportFrom):
            t = "(import)"
        elif isinstance(node, ast.Assign) and len(node.targets) == 1 and isinstance(node.targets[0], ast.Name):
            name = node.targets[0].id
            t = sx("assign", enc(name), _rhs(atok, name, node.value, ids))
        elif isinstance(node, ast.FunctionDef):
            t = sx("def", enc(node.name), enc(_funcdef_text(atok, node)))
        else:
            raise Unsupported("statement %s" % type(node).__name__)
        items.append((node.lineno, 1, t))
    items.sort(key=lambda x: (x[0], x[1]))
    return [t for _, _, t in items]


def _lines_of(path):
    with open(path, encoding="utf-8") as f:
        return [ln for ln in f.read().split("\n") if ln.strip()]


def listing_of_dir(root, name, ids, pickle_ids, spec_ids, extra):
    """-> S-expression `(dir ...)` of the directory modelx wrote; files that are not part of the format
    (IO files of pandas / module references) are counted in `extra`"""
    def walk(path, nm):
        init = "N"
        ip = os.path.join(path, "__init__.py")
        if os.path.exists(ip):
            with open(ip, encoding="utf-8") as f:
                src = f.read()
            init = sx("init", *statements_of(src, ids))
        data = []
        dp = os.path.join(path, "_data")
        if os.path.isdir(dp):
            for fn in sorted(os.listdir(dp)):
                fp = os.path.join(dp, fn)
                if fn == "data.pickle":
                    body = sx("pk", *[ids(i) for i in pickle_ids])
                elif fn == "iospecs.pickle":
                    body = sx("ios", *[ids(i) for i in spec_ids])
                elif fn == "_dynamic_inputs":
                    rows = []
                    for ln in _lines_of(fp):
                        t, k, v = ast.literal_eval(ln)
                        rows.append(sx("l", sx("t", *[sx("s", enc(e)) if isinstance(e, str) else sx("k", ids(e))
                                                      for e in t]), ids(k), ids(v)))
                    body = sx("dyn", *rows)
                else:
                    rows = []
                    for ln in _lines_of(fp):
                        k, v = ast.literal_eval(ln)
                        rows.append(sx("e", ids(k), ids(v)))
                    body = sx("cd", *rows)
                data.append(sx("f", enc(fn), body))
        other, subs = [], []
        for fn in sorted(os.listdir(path)):
            fp = os.path.join(path, fn)
            if os.path.isdir(fp):
                if fn == "_data":
                    continue
                if os.path.exists(os.path.join(fp, "__init__.py")):
                    subs.append(walk(fp, fn))
                else:
                    extra.append(os.path.relpath(fp, root))
            elif fn == "__init__.py":
                pass
            elif fn in ("_system.json", "_input_log.txt"):
                other.append(enc(fn))
            else:
                extra.append(os.path.relpath(fp, root))
        return sx("dir", enc(nm), init, sx("data", *data), sx("other", *other), sx("subs", *subs))
    return walk(root, name)


# ----------------------------------------------------------------------------------------------
# the real writer / reader, with their tables
# ----------------------------------------------------------------------------------------------

class _Capture:
    """records the `ModelWriter` / `ModelReader` objects the public functions create"""

    def __init__(self):
        import modelx.serialize.serializer_6 as s6
        self.s6 = s6
        self.writers, self.readers = [], []

    def __enter__(self):
        s6, cap = self.s6, self
        self.ow, self.orr = s6.ModelWriter.__init__, s6.ModelReader.__init__

        def winit(this, *a, **k):
            cap.ow(this, *a, **k)
            cap.writers.append(this)

        def rinit(this, *a, **k):
            cap.orr(this, *a, **k)
            cap.readers.append(this)
        s6.ModelWriter.__init__ = winit
        s6.ModelReader.__init__ = rinit
        return self

    def __exit__(self, *exc):
        self.s6.ModelWriter.__init__ = self.ow
        self.s6.ModelReader.__init__ = self.orr
        return False


def _hk_flags(line):
    if not line.startswith("ok "):
        return None
    return {k: v == "1" for k, v in (t.split("=") for t in line[3:].split())}


ERR_CLASS = {"refConflict": "Value", "relRefConflict": "Value", "basesOrder": "Type"}


def check_program(prog, out, stats, label=""):
    """(a), (b), (c) for one `c04` program; returns the number of compared items"""
    from .props import c04
    ops, cfg = prog["ops"], prog.get("cfg", {})
    hist = {"ops": ops, "cfg": cfg}

    def bump(k, n=1):
        stats[k] = stats.get(k, 0) + n

    def disagree(what, impl, model):
        bump("serial:disagreements")
        out.disagree(hist, 0, "%s: %s" % (what, impl), model, layer="serial")

    close_all()
    tmp = tempfile.mkdtemp(prefix="mxh_serial_")
    compared = 0
    try:
        b = c04.Builder("M")
        m = b.build(ops, None)
        if b.rejected:
            ops = [o for i, o in enumerate(ops) if i not in set(b.rejected)]
            close_all()
            b = c04.Builder("M")
            m = b.build(ops, None)
            if b.rejected:
                bump("serial:skipped-rejecting")
                return 0
            hist = {"ops": ops, "cfg": cfg}
        try:
            with quiet():
                md = Describer(m, id, id).model()
            check_modes(md)
        except Unsupported as e:
            bump("serial:unsupported:" + str(e).split(":")[0][:40])
            return 0
        ids = IdMap()
        for raw in mdesc_ids(md):
            ids(raw)
        md_text = s_mdesc(md, ids)

        path = os.path.join(tmp, "model")
        with _Capture() as cap:
            try:
                with quiet():
                    mx.write_model(m, path, log_input=bool(cfg.get("log_input", False)))
            except Exception as e:
                bump("serial:write-error:" + err_kind(e))
                return 0
        w = cap.writers[-1]
        extra = []
        try:
            real_dir = listing_of_dir(path, md["name"], ids, list(w.pickledata.keys()), list(w.iospecs.keys()), extra)
        except Unsupported as e:
            bump("serial:unsupported-file:" + str(e).split(":")[0][:40])
            return 0
        bump("serial:models")
        bump("serial:io-files-not-modelled", len(extra))

        got = core.run_driver("serial", ["write " + md_text, "hk " + md_text, "read " + real_dir])
        # ---- (a) the writer
        if not got[0].startswith("ok "):
            disagree("the Lean writer refuses the description", md_text[:200], got[0])
            return 0
        lean_dir = got[0][3:]
        if cfg.get("log_input"):
            # `log_input` adds one plain file (the driver writes with the default)
            lean_dir = lean_dir.replace(sx("other", enc("_system.json")),
                                        sx("other", enc("_system.json"), enc("_input_log.txt")), 1)
        a, bb = canon(real_dir), canon(lean_dir)
        compared += len(a.split())
        bump("serial:statement-tokens-compared", len(a.split()))
        if a != bb:
            disagree("files written (real | model)", first_difference(a, bb), "write")
            return compared
        flags = _hk_flags(got[1]) or {}
        for k, v in flags.items():
            if not v:
                bump("serial:hk-false:" + k)
        if flags and not flags.get("wf", True):
            disagree("a model built through the API is not WellFormed", md_text[:300], got[1])

        # ---- (b) the reader
        with quiet():
            m.close()
        close_all()
        real_err, m2 = None, None
        with _Capture() as cap:
            try:
                with quiet():
                    m2 = mx.read_model(path)
            except Exception as e:
                real_err = err_kind(e)
        r = cap.readers[-1] if cap.readers else None
        lean = got[2]
        if real_err is not None:
            bump("serial:real-read-error:" + real_err)
            if lean.startswith("ok "):
                disagree("read_model raises %s, the model reads the files" % real_err, real_err, "ok")
            else:
                e = lean[4:] if lean.startswith("err ") else lean
                bump("serial:both-fail:" + e)
                if ERR_CLASS.get(e) != real_err:
                    disagree("read_model raises %s, the model fails with %s" % (real_err, e), real_err, e)
                # (c) the failing read is one of the recorded findings the description triggers
                expected = [k for k in ("refover", "relref", "bases") if flags and not flags.get(k, True)]
                if not expected:
                    disagree("read_model raises %s on a description inside Hk" % real_err, real_err, got[1])
            return compared + 1
        if not lean.startswith("ok "):
            disagree("read_model succeeds, the model refuses the files", "ok", lean)
            return compared + 1
        pick = r.pickledata or {}
        inv = {}
        for fid, obj in pick.items():
            inv.setdefault(id(obj), fid)
        specs = getattr(r, "iospecs", None) or {}
        sinv = {id(sp): fid for fid, sp in specs.items()}

        def idof(obj):
            if id(obj) in inv:
                return inv[id(obj)]
            for fid, o in pick.items():
                if type(o) is type(obj):
                    try:
                        if o == obj:
                            return fid
                    except Exception:
                        pass
            return ("unknown", id(obj))

        def spec_idof(sp):
            return sinv.get(id(sp), ("unknown-spec", id(sp)))
        try:
            with quiet():
                md2 = Describer(m2, idof, spec_idof).model()
            check_modes(md2)
        except Unsupported as e:
            bump("serial:unsupported-after-read:" + str(e).split(":")[0][:40])
            return compared
        # keys of input values (and ItemSpace arguments) are re-created by `set_value`: their identity means
        # nothing after reading, two keys are the same key iff they are equal objects
        rep = {}
        for fid, o in pick.items():
            rep.setdefault((type(o).__name__, repr(o)), ids(fid))
        kclass = {ids(fid): rep[(type(o).__name__, repr(o))] for fid, o in pick.items()}

        def keys_by_value(x):
            if not isinstance(x, list) or not x:
                return x
            if x[0] == "e" and len(x) == 3:
                return ["e", kclass.get(x[1], x[1]), x[2]]
            if x[0] == "k" and len(x) == 2:
                return ["k", kclass.get(x[1], x[1])]
            if x[0] == "di" and len(x) == 4:
                return ["di", keys_by_value(x[1]), kclass.get(x[2], x[2]), x[3]]
            return [x[0]] + [keys_by_value(y) for y in x[1:]]

        def canon_b(text):
            return show_sexp(normalise(keys_by_value(parse_sexp(text)), members_unordered=True))
        a, bb = canon_b(s_mdesc(md2, ids)), canon_b(lean[3:])
        compared += len(a.split())
        bump("serial:description-tokens-compared", len(a.split()))
        bump("serial:reads")
        if a != bb:
            disagree("model read back (real | model)", first_difference(a, bb), "read")
        elif flags and all(flags.values()) and canon_b(md_text) != a:
            # inside WellFormed and Hk the theorem says the description comes back as it was
            disagree("description inside Hk changed by the round trip", first_difference(canon_b(md_text), a), "thm")
        return compared
    finally:
        close_all()
        shutil.rmtree(tmp, ignore_errors=True)


# ----------------------------------------------------------------------------------------------
# shapes the c04 generator does not produce
# ----------------------------------------------------------------------------------------------

def extra_programs():
    cfg = {"log_input": False}
    progs = []
    # C04-bases-order: C3-consistent at the end, not while the bases are added in tree order
    progs.append(("bases-order", {"cfg": cfg, "ops": [
        ["space", "", "S0", None], ["space", "", "S1", None], ["space", "", "S2", None], ["space", "", "S3", None],
        ["space", "", "S4", None], ["cells", "S0", "foo", "lambda x: x + 1", {}],
        ["bases", "S1", ["S0"]], ["bases", "S4", ["S0"]], ["bases", "S2", ["S1", "S4"]],
        ["bases", "S3", ["S2", "S4", "S0"]]]}))
    # the same graph with S4 before S3 in the tree: read back
    progs.append(("bases-order-ok", {"cfg": cfg, "ops": [
        ["space", "", "S0", None], ["space", "", "S1", None], ["space", "", "S2", None], ["space", "", "S4", None],
        ["space", "", "S3", None], ["cells", "S0", "foo", "lambda x: x + 1", {}],
        ["bases", "S1", ["S0"]], ["bases", "S4", ["S0"]], ["bases", "S2", ["S1", "S4"]],
        ["bases", "S3", ["S2", "S4", "S0"]]]}))
    # a reference that exists at model level AND in a base and its sub space (the conflict test is bypassed)
    progs.append(("global-shadow", {"cfg": cfg, "ops": [
        ["space", "", "A", None], ["space", "", "B", None], ["ref", "", "gk", ["int", 7], "attr"],
        ["ref", "A", "gk", ["int", 1], "auto"], ["ref", "B", "gk", ["int", 2], "auto"], ["bases", "A", ["B"]]]}))
    # references to a derived cells, to a child space, to the model; every mode
    progs.append(("targets", {"cfg": cfg, "ops": [
        ["space", "", "A", None], ["space", "A", "C", None], ["space", "", "B", None],
        ["cells", "A", "foo", "def foo(x):\n    return x", {}], ["bases", "B", ["A"]],
        ["ref", "A.C", "up", ["obj", "A"], "relative"], ["ref", "B", "d", ["obj", "B.foo"], "absolute"],
        ["ref", "A", "me", ["obj", ""], "auto"], ["ref", "", "gobj", ["obj", "A.C"], "attr"],
        ["input", "A.foo", [1], ["pt", 1, ["int", 3]]], ["input", "A.foo", [2], ["shared", 0]],
        ["ref", "B", "sh", ["shared", 0], "auto"]]}))
    return progs
