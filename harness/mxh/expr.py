"""The first-order formula grammar shared with lean/MxModel/Exec/Expr.lean: generation,
S-expression form (sent to the Lean driver), and rendering to Python source (given to
modelx).  Rendering is in A-normal form – every effectful sub-expression becomes its own
statement, in evaluation order – so that the order of calls, reads and raises is exactly
the order the Lean `compile` gives, and so that every call sits on its own line (C17).
"""

KINDS = ["ValueError", "KeyError", "ZeroDivisionError", "TypeError", "NameError", "AttributeError",
         "KeyboardInterrupt"]


# Expr as nested tuples:
#  ("lit", i) ("none",) ("p", i) ("add"|"sub"|"mul"|"lt", a, b) ("if", c, a, b)
#  ("call", cid, [args]) ("rn", rid) ("ra", rid) ("raise", k) ("try", a, catch, b)   catch: "all"|"deep"|"noneret"|"k<n>"
#  ("tryre", a, catch, b)   try: a / except <catch>: b; raise      (b is evaluated for the calls it makes)
#  ("tryfin", a, b)         try: a / finally: b
#  the blocks b of tryre / tryfin contain no try of their own (the Lean model's `blocksSimple`)
#  ("callk", cid, [pos], [(i, e), ...])   cid(pos..., a<i>=e, ...): keyword arguments (any order, any parameter index -
#                           an index the callee does not have is an unexpected keyword) after the positional ones;
#                           ("call", …) and ("callk", …) may leave out parameters that have default values (cells
#                           description key "defaults": values of the LAST parameters).  All arguments are evaluated
#                           in source order, then bound (inspect.Signature.bind + apply_defaults)
#  ("via", kind, e)         e, evaluated inside an EXTRA plain Python frame that belongs to the formula: kind
#                           "gen" generator expression, "comp" list comprehension (a frame before Python 3.12),
#                           "lam" a lambda called on the spot, "map" a lambda handed to map(), "sorted" a lambda handed
#                           to sorted(key=), "def" a nested helper function.  The value, the calls, their order and the
#                           errors are those of e (the Lean driver's reader drops the wrapper: the model has no frames);
#                           what differs is the Python traceback - one more frame between the formula's own frame and
#                           the next cells.  All kinds but "def" need an e that is one expression (`lambda_ok`).
#  ("rg", rid, form)        read of a MODEL-LEVEL reference (a name every space resolves but no space owns): form 0 by
#                           name, 1 `_space.r`, 2 through the other space (`Ch.r` / `_space.parent.r`), 3 `_model.r`,
#                           4 through a longer path that ends in the child space (`_space.Ch.r` / `_space.parent.Ch.r`).
#                           Implementation-only: the Lean model has no model-level references (execworld.impl_only)
#  ("trx", a, catch, k, from)  try: a / except <catch> [as _e]: raise <KINDS[k]>('k') [from _e]  - exception TRANSLATION: a NEW
#                           exception object replaces the callee's.  For the Lean model this is ("try", a, catch, ("raise", k))
#                           (that is what `sexp` writes); `from` (0/1) only decides whether the source says `from _e`

def sexp(e):
    t = e[0]
    if t == "lit":
        return "(lit %d)" % e[1]
    if t == "none":
        return "N"
    if t in ("p", "rn", "ra", "raise"):
        return "(%s %d)" % (t, e[1])
    if t == "rg":
        return "(rg %d %d)" % (e[1], e[2])
    if t == "trx":
        return "(trx %s %s %d %d)" % (sexp(e[1]), e[2], e[3], e[4])
    if t in ("add", "sub", "mul", "lt"):
        return "(%s %s %s)" % (t, sexp(e[1]), sexp(e[2]))
    if t == "if":
        return "(if %s %s %s)" % (sexp(e[1]), sexp(e[2]), sexp(e[3]))
    if t == "call":
        return "(call %d %s)" % (e[1], " ".join(sexp(a) for a in e[2]))
    if t == "callk":
        return "(callk %d %d %s %s)" % (e[1], len(e[2]), ",".join(str(i) for i, _ in e[3]) or "-",
                                        " ".join(sexp(a) for a in list(e[2]) + [a for _, a in e[3]]))
    if t == "try":
        return "(try %s %s %s)" % (sexp(e[1]), e[2], sexp(e[3]))
    if t == "tryre":
        return "(tryre %s %s %s)" % (sexp(e[1]), e[2], sexp(e[3]))
    if t == "tryfin":
        return "(tryfin %s %s)" % (sexp(e[1]), sexp(e[2]))
    if t == "via":
        return "(via %s %s)" % (e[1], sexp(e[2]))
    raise ValueError(e)


def parse_sexp(text):
    """inverse of `sexp`"""
    toks = text.replace("(", " ( ").replace(")", " ) ").split()
    pos = [0]

    def one():
        t = toks[pos[0]]
        pos[0] += 1
        if t == "N":
            return ("none",)
        if t != "(":
            raise ValueError("bad sexp %r" % text)
        head = toks[pos[0]]
        pos[0] += 1
        if head in ("lit", "p", "rn", "ra", "raise"):
            v = int(toks[pos[0]])
            pos[0] += 2
            return (head, v)
        if head == "rg":
            v, f = int(toks[pos[0]]), int(toks[pos[0] + 1])
            pos[0] += 3
            return ("rg", v, f)
        if head == "trx":
            a = one()
            c, k, fr = toks[pos[0]], int(toks[pos[0] + 1]), int(toks[pos[0] + 2])
            pos[0] += 4
            return ("trx", a, c, k, fr)
        if head in ("add", "sub", "mul", "lt", "tryfin"):
            a = one()
            b = one()
            pos[0] += 1
            return (head, a, b)
        if head == "if":
            c = one()
            a = one()
            b = one()
            pos[0] += 1
            return ("if", c, a, b)
        if head in ("try", "tryre"):
            a = one()
            c = toks[pos[0]]
            pos[0] += 1
            b = one()
            pos[0] += 1
            return (head, a, c, b)
        if head == "callk":
            cid, npos, kws = int(toks[pos[0]]), int(toks[pos[0] + 1]), toks[pos[0] + 2]
            pos[0] += 3
            kws = [] if kws == "-" else [int(x) for x in kws.split(",")]
            args = []
            while toks[pos[0]] != ")":
                args.append(one())
            pos[0] += 1
            return ("callk", cid, args[:npos], list(zip(kws, args[npos:])))
        if head == "via":
            kind = toks[pos[0]]
            pos[0] += 1
            a = one()
            pos[0] += 1
            return ("via", kind, a)
        if head == "call":
            cid = int(toks[pos[0]])
            pos[0] += 1
            args = []
            while toks[pos[0]] != ")":
                args.append(one())
            pos[0] += 1
            return ("call", cid, args)
        raise ValueError("bad sexp %r" % text)

    e = one()
    if pos[0] != len(toks):
        raise ValueError("trailing tokens in %r" % text)
    return e


def subexprs(e):
    yield e
    t = e[0]
    if t in ("add", "sub", "mul", "lt", "tryfin"):
        yield from subexprs(e[1])
        yield from subexprs(e[2])
    elif t == "if":
        for x in e[1:4]:
            yield from subexprs(x)
    elif t == "call":
        for a in e[2]:
            yield from subexprs(a)
    elif t == "callk":
        for a in e[2]:
            yield from subexprs(a)
        for _, a in e[3]:
            yield from subexprs(a)
    elif t in ("try", "tryre"):
        yield from subexprs(e[1])
        yield from subexprs(e[3])
    elif t == "via":
        yield from subexprs(e[2])
    elif t == "trx":
        yield from subexprs(e[1])


def model_sexp(e):
    """what the Lean driver is sent: a translation is a try whose handler raises"""
    return sexp(lower(e))


def lower(e):
    """the expression in the vocabulary of the Lean model: ("trx", a, c, k, _) -> ("try", a, c, ("raise", k))"""
    t = e[0]
    if t == "trx":
        return ("try", lower(e[1]), e[2], ("raise", e[3]))
    if t in ("add", "sub", "mul", "lt", "tryfin"):
        return (t, lower(e[1]), lower(e[2]))
    if t == "if":
        return ("if", lower(e[1]), lower(e[2]), lower(e[3]))
    if t == "call":
        return ("call", e[1], [lower(a) for a in e[2]])
    if t == "callk":
        return ("callk", e[1], [lower(a) for a in e[2]], [(i, lower(a)) for i, a in e[3]])
    if t in ("try", "tryre"):
        return (t, lower(e[1]), e[2], lower(e[3]))
    if t == "via":
        return ("via", e[1], lower(e[2]))
    return e


VIA_KINDS = ("gen", "comp", "lam", "map", "sorted", "def")
VIA_EXPR_KINDS = ("gen", "comp", "lam", "map")      # rendered as ONE expression (usable inside a lambda formula too)

TRY_KINDS = ("try", "tryre", "tryfin", "trx")


def blocks_simple(e):
    """the class of formulas the Lean model describes: no try inside the block of an except-reraise / a finally"""
    for x in subexprs(e):
        if x[0] in ("tryre", "tryfin"):
            if any(y[0] in TRY_KINDS for y in subexprs(x[-1])):
                return False
    return True


def lambda_ok(e):
    """can the body be given to modelx as one lambda expression (Renderer.render_lambda)?"""
    for x in subexprs(e):
        if x[0] in TRY_KINDS or (x[0] == "raise" and x[1] not in Renderer.LAMBDA_RAISE):
            return False
        if x[0] == "via" and x[1] not in VIA_EXPR_KINDS:
            return False
    return True


def _pyval(v):
    return "None" if v is None else "(%d)" % v if v < 0 else "%d" % v


def py_bind(nparams, defaults, pos, kw):
    """The element a spelling denotes, by Python's own binder on a signature built here (independent of modelx):
    `nparams` positional-or-keyword parameters a0.., the last len(defaults) with default values; pos: positional
    values, kw: {parameter index: value}.  -> tuple, or None where Python raises TypeError."""
    import inspect
    d0 = nparams - len(defaults)
    sig = inspect.Signature([
        inspect.Parameter("a%d" % i, inspect.Parameter.POSITIONAL_OR_KEYWORD,
                          **({"default": defaults[i - d0]} if i >= d0 else {})) for i in range(nparams)])
    try:
        b = sig.bind(*pos, **{"a%d" % i: v for i, v in kw.items()})
    except TypeError:
        return None
    b.apply_defaults()
    return tuple(b.arguments.values())


class Renderer:
    """Render one cells' body to a `def`.

    names: dict with 'cell' : cid -> python expression naming the cells as seen from the
    formula (e.g. 'c3' or 'T.c3'), 'rn' : rid -> global name, 'ra' : rid -> attribute path.
    Returns (source, linemap) where linemap maps 1-based line numbers of the def to the
    sexp of the call made on that line (for C17).
    """

    def __init__(self, names, log_name=None, call_wrap=None, read_wrap=None):
        self.names = names
        self.log_name = log_name
        self.call_wrap = call_wrap
        # read_wrap: name of a recording function every reference read goes through (`zr(kind, rid, form, value)`
        # returns the value): the harness' own record of which references a formula read, and how
        self.read_wrap = read_wrap

    def read(self, e):
        """python source of a reference read"""
        t = e[0]
        if t == "rg":
            src = self.names["rg"](e[1], e[2])
        else:
            src = self.names[t](e[1])
        if self.read_wrap:
            return "%s('%s', %d, %d, %s)" % (self.read_wrap, t, e[1], e[2] if t == "rg" else -1, src)
        return src

    def param_list(self, nparams, defaults):
        """`a0, a1=5`: the last len(defaults) parameters have default values"""
        params = ["a%d" % i for i in range(nparams)]
        d0 = nparams - len(defaults)
        return params, ", ".join(p if i < d0 else "%s=%s" % (p, _pyval(defaults[i - d0])) for i, p in enumerate(params))

    def render(self, fname, cid, nparams, body, lam=False, enforce_none=False, defaults=()):
        """enforce_none: the def itself raises NoneReturnedError when it is about to return None (used by the
        all-uncached 'pure recomputation' replica for cells that are cached in the program and do not allow None:
        modelx checks the None rule only when it stores a value, i.e. for cached cells)"""
        if lam and not enforce_none:
            return self.render_lambda(fname, cid, nparams, body, defaults)
        self.lines = []
        self.n = 0
        self.calls = {}
        params, plist = self.param_list(nparams, defaults)
        self.params = params
        self.cid = cid
        self.lines.append("def %s(%s):" % (fname, plist))
        if self.log_name:
            self.lines.append("    %s(%d, (%s))" % (self.log_name, cid, "".join(p + ", " for p in params)))
        atom = self.emit(body, 1)
        if enforce_none:
            self.lines.append("    if %s is None: raise NoneReturnedError('c%d')" % (atom, cid))
        self.lines.append("    return %s" % atom)
        return "\n".join(self.lines) + "\n", dict(self.calls)

    # natural expressions that raise the kinds a `raise` statement raises in a `def` (a lambda has no statements)
    LAMBDA_RAISE = {0: "int('k0')", 1: "{}['k1']", 2: "(1 // 0)", 3: "(None + 1)", 4: "undefined_k4", 5: "None.k5"}

    def render_lambda(self, fname, cid, nparams, body, defaults=()):
        """The same body as ONE lambda expression (formula given as lambda source).  Only the expression
        subset can be rendered (no `try`, no KeyboardInterrupt); sub-expressions are evaluated by Python in the
        order the A-normal form spells out: callee name, arguments left to right, call; left operand before
        right; condition before branch.  Every call is on line 1."""
        self.params, plist = self.param_list(nparams, defaults)
        self.cid = cid
        self.calls = {}
        ex = self.lexpr(body)
        if self.log_name:
            ex = "(%s(%d, (%s)), %s)[1]" % (self.log_name, cid, "".join(p + ", " for p in self.params), ex)
        return "lambda %s: %s\n" % (plist, ex), dict(self.calls)

    def lexpr(self, e):
        t = e[0]
        if t == "lit":
            return "(%d)" % e[1]
        if t == "none":
            return "None"
        if t == "p":
            return self.params[e[1]] if e[1] < len(self.params) else "undefined_param_%d" % e[1]
        if t in ("add", "sub", "mul"):
            return "(%s %s %s)" % (self.lexpr(e[1]), {"add": "+", "sub": "-", "mul": "*"}[t], self.lexpr(e[2]))
        if t == "lt":
            return "(1 if %s < %s else 0)" % (self.lexpr(e[1]), self.lexpr(e[2]))
        if t == "if":
            return "(%s if %s else %s)" % (self.lexpr(e[2]), self.lexpr(e[1]), self.lexpr(e[3]))
        if t == "call":
            f = self.names["cell"](e[1])
            args = [self.lexpr(a) for a in e[2]]
            self.calls[1] = e[1]
            if self.call_wrap:
                return "%s(%d, (%s), %d, %s, (%s))" % (
                    self.call_wrap, self.cid, "".join(p + ", " for p in self.params), e[1], f,
                    "".join(a + ", " for a in args))
            return "%s(%s)" % (f, ", ".join(args))
        if t == "callk":
            if self.call_wrap:
                raise ValueError("keyword calls are not rendered through the call recorder")
            f = self.names["cell"](e[1])
            args = [self.lexpr(a) for a in e[2]] + ["a%d=%s" % (i, self.lexpr(a)) for i, a in e[3]]
            self.calls[1] = e[1]
            return "%s(%s)" % (f, ", ".join(args))
        if t in ("rn", "ra", "rg"):
            return self.read(e)
        if t == "raise" and e[1] in self.LAMBDA_RAISE:
            self.calls[1] = "raise"
            return self.LAMBDA_RAISE[e[1]]
        if t == "via" and e[1] in VIA_EXPR_KINDS:
            return self.via_expr(e[1], self.lexpr(e[2]))
        raise ValueError("not renderable as a lambda: %r" % (e,))

    def via_expr(self, kind, inner):
        """`inner` (python source of one expression) evaluated once, in a frame of its own, as one expression"""
        self.n_via = getattr(self, "n_via", 0) + 1
        i = "_i%d" % self.n_via
        if kind == "gen":
            return "next(%s for %s in (0,))" % (inner, i)
        if kind == "comp":
            return "[%s for %s in (0,)][0]" % (inner, i)
        if kind == "lam":
            return "(lambda: %s)()" % inner
        if kind == "map":
            return "list(map(lambda %s: %s, (0,)))[0]" % (i, inner)
        raise ValueError(kind)

    def tmp(self):
        self.n += 1
        return "t%d" % self.n

    def put(self, ind, text):
        self.lines.append("    " * ind + text)
        return len(self.lines)

    def emit(self, e, ind):
        t = e[0]
        if t == "lit":
            return "(%d)" % e[1]
        if t == "none":
            return "None"
        if t == "p":
            if e[1] < len(self.params):
                return self.params[e[1]]
            v = self.tmp()
            self.put(ind, "%s = undefined_param_%d" % (v, e[1]))
            return v
        if t in ("add", "sub", "mul"):
            a = self.emit(e[1], ind)
            b = self.emit(e[2], ind)
            v = self.tmp()
            self.put(ind, "%s = %s %s %s" % (v, a, {"add": "+", "sub": "-", "mul": "*"}[t], b))
            return v
        if t == "lt":
            a = self.emit(e[1], ind)
            b = self.emit(e[2], ind)
            v = self.tmp()
            self.put(ind, "%s = (1 if %s < %s else 0)" % (v, a, b))
            return v
        if t == "if":
            c = self.emit(e[1], ind)
            v = self.tmp()
            self.put(ind, "if %s:" % c)
            a = self.emit(e[2], ind + 1)
            self.put(ind + 1, "%s = %s" % (v, a))
            self.put(ind, "else:")
            b = self.emit(e[3], ind + 1)
            self.put(ind + 1, "%s = %s" % (v, b))
            return v
        if t == "call":
            f = self.tmp()
            # LOAD_GLOBAL of the callee happens before the arguments are evaluated
            self.put(ind, "%s = %s" % (f, self.names["cell"](e[1])))
            args = [self.emit(a, ind) for a in e[2]]
            v = self.tmp()
            if self.call_wrap:
                ln = self.put(ind, "%s = %s(%d, (%s), %d, %s, (%s))" % (
                    v, self.call_wrap, self.cid, "".join(p + ", " for p in self.params), e[1], f,
                    "".join(a + ", " for a in args)))
            else:
                ln = self.put(ind, "%s = %s(%s)" % (v, f, ", ".join(args)))
            self.calls[ln] = e[1]
            return v
        if t == "callk":
            if self.call_wrap:
                raise ValueError("keyword calls are not rendered through the call recorder")
            f = self.tmp()
            self.put(ind, "%s = %s" % (f, self.names["cell"](e[1])))
            args = [self.emit(a, ind) for a in e[2]] + ["a%d=%s" % (i, self.emit(a, ind)) for i, a in e[3]]
            v = self.tmp()
            ln = self.put(ind, "%s = %s(%s)" % (v, f, ", ".join(args)))
            self.calls[ln] = e[1]
            return v
        if t in ("rn", "ra", "rg"):
            v = self.tmp()
            self.put(ind, "%s = %s" % (v, self.read(e)))
            return v
        if t == "trx":
            # try: v = a / except K [as _e]: raise K2('k') [from _e]
            v = self.tmp()
            self.put(ind, "try:")
            a = self.emit(e[1], ind + 1)
            self.put(ind + 1, "%s = %s" % (v, a))
            c = e[2]
            exc = {"all": "Exception", "deep": "DeepReferenceError", "noneret": "NoneReturnedError"}.get(c)
            if exc is None:
                exc = KINDS[int(c[1:])]
            self.put(ind, "except %s%s:" % (exc, " as _e" if e[4] else ""))
            ln = self.put(ind + 1, "raise %s('k%d')%s" % (KINDS[e[3]], e[3], " from _e" if e[4] else ""))
            self.calls[ln] = "raise"
            return v
        if t == "raise":
            ln = self.put(ind, "raise %s('k%d')" % (KINDS[e[1]], e[1]))
            self.calls[ln] = "raise"
            return "None"
        if t == "try":
            v = self.tmp()
            self.put(ind, "try:")
            a = self.emit(e[1], ind + 1)
            self.put(ind + 1, "%s = %s" % (v, a))
            c = e[2]
            exc = {"all": "Exception", "deep": "DeepReferenceError", "noneret": "NoneReturnedError"}.get(c)
            if exc is None:
                exc = KINDS[int(c[1:])]
            self.put(ind, "except %s:" % exc)
            b = self.emit(e[3], ind + 1)
            self.put(ind + 1, "%s = %s" % (v, b))
            return v
        if t == "tryre":
            # try: v = a / except K: <b, for the calls it makes>; raise
            v = self.tmp()
            self.put(ind, "try:")
            a = self.emit(e[1], ind + 1)
            self.put(ind + 1, "%s = %s" % (v, a))
            c = e[2]
            exc = {"all": "Exception", "deep": "DeepReferenceError", "noneret": "NoneReturnedError"}.get(c)
            if exc is None:
                exc = KINDS[int(c[1:])]
            self.put(ind, "except %s:" % exc)
            self.emit(e[3], ind + 1)
            self.put(ind + 1, "raise")
            return v
        if t == "via":
            kind = e[1]
            v = self.tmp()
            if kind == "def":
                # a nested helper: the statements of e, in a frame of their own
                h = "_h%s" % v[1:]
                self.put(ind, "def %s():" % h)
                a = self.emit(e[2], ind + 1)
                self.put(ind + 1, "return %s" % a)
                self.put(ind, "%s = %s()" % (v, h))
                return v
            if kind == "sorted":
                # the callee is evaluated by the key function sorted() calls
                h = "_h%s" % v[1:]
                self.put(ind, "%s = []" % h)
                self.put(ind, "sorted((0,), key=lambda _k: %s.append(%s))" % (h, self.lexpr(e[2])))
                self.put(ind, "%s = %s[0]" % (v, h))
                return v
            self.put(ind, "%s = %s" % (v, self.via_expr(kind, self.lexpr(e[2]))))
            return v
        if t == "tryfin":
            v = self.tmp()
            self.put(ind, "try:")
            a = self.emit(e[1], ind + 1)
            self.put(ind + 1, "%s = %s" % (v, a))
            self.put(ind, "finally:")
            n0 = len(self.lines)
            self.emit(e[2], ind + 1)
            if len(self.lines) == n0:
                self.put(ind + 1, "pass")
            return v
        raise ValueError(e)


# ----------------------------------------------------------------------------- generation

class Gen:
    """Random programs: a list of cells defs; cells i calls only cells j < i, or itself with
    the first argument decremented under the guard 0 < p0 (so every chain is finite)."""

    def __init__(self, rng, n_rn=2, n_ra=2, catch_all_p=0.15, raise_p=0.06, none_p=0.04,
                 fail_cell_p=0.0, handled_seq_p=0.0, lam_p=0.0, space_p=0.0, block_p=0.0, via_p=0.0,
                 default_p=0.0, glob_p=0.0, trx_p=0.0, n_glob=2):
        self.rng = rng
        self.n_rn, self.n_ra = n_rn, n_ra
        self.catch_all_p, self.raise_p, self.none_p = catch_all_p, raise_p, none_p
        # optional vocabulary (all off by default: the random stream of the other users is unchanged)
        #  fail_cell_p    a cells whose formula fails for every argument (raises, or calls such a cells)
        #  handled_seq_p  a body that first calls k cells inside try/except (failures it handles itself when the
        #                 callee fails) and only then evaluates the rest – handled failures FOLLOWED by whatever
        #                 the rest does, in one evaluation
        #  lam_p          the formula is given as a lambda expression (when the body has no statement-only parts)
        #  space_p        a cells lives in the child space `S.Ch` (space 1); every formula may then read every
        #                 reference: by name (resolved in its own space only) or through an attribute path
        self.fail_cell_p, self.handled_seq_p, self.lam_p = fail_cell_p, handled_seq_p, lam_p
        self.space_p = space_p
        #  block_p        a sub-expression `try: a except K: <calls>; raise` or `try: a finally: <calls>` - cells
        #                 evaluated while an exception passes through the formula (or on the way out of a value)
        self.block_p = block_p
        #  via_p          a call is made inside an extra plain Python frame of the formula (generator expression,
        #                 comprehension, lambda called / handed to map or sorted, nested def): same behaviour, one more
        #                 frame in the Python traceback
        self.via_p = via_p
        #  default_p      a cells with parameters gets default values for its last 1..n parameters (description key
        #                 "defaults"); calls from formulas and requests from outside then leave out any subset of them
        #                 and spell arguments positionally, by keyword (any order), mixed - sometimes so that the
        #                 spelling does not bind (unexpected keyword, two values for one parameter, a required
        #                 parameter left out)
        self.default_p = default_p
        #  glob_p         a reference read goes to a MODEL-LEVEL reference (ids n_rn + n_ra ..), by name or through one of
        #                 the attribute paths that resolve it (`("rg", id, form)`; implementation-only vocabulary)
        #  trx_p          a try/except TRANSLATES the failure it handles: `except K: raise K2(..) [from e]` ("trx")
        self.glob_p, self.trx_p, self.n_glob = glob_p, trx_p, n_glob
        #  after_call_p   (with fail_cell_p) a failing cells first OBTAINS the value of a lower cells and raises then:
        #                 the failed element had a completed precedent
        self.after_call_p = 0.0
        self.defaults = {}
        self.cur_space = 0
        self.no_try = False     # set per program: no formula handles a failure (the regime of the C02 theorems)
        self.failing = []

    def glob_read(self):
        return ("rg", self.n_rn + self.n_ra + self.rng.randrange(self.n_glob), self.rng.choice([0, 0, 1, 1, 2, 2, 2, 4]))

    def any_read(self):
        """a read of any reference, spelled by name or by path whatever space it lives in"""
        if self.glob_p and self.rng.random() < self.glob_p:
            return self.glob_read()
        r = self.rng.randrange(self.n_rn + self.n_ra)
        same = (0 if r < self.n_rn else 1) == self.cur_space
        by_name = self.rng.random() < (0.55 if same else 0.06)
        return ("rn" if by_name else "ra", r)

    def leaf(self, nparams):
        r = self.rng.random()
        if nparams and r < 0.45:
            return ("p", self.rng.randrange(nparams))
        if r < 0.65:
            return ("lit", self.rng.randint(-2, 5))
        if self.space_p and r < 0.93:
            return self.any_read()
        if self.glob_p and r < 0.93 and self.rng.random() < self.glob_p:
            return self.glob_read()
        if r < 0.80 and self.n_rn:
            return ("rn", self.rng.randrange(self.n_rn))
        if r < 0.93 and self.n_ra:
            return ("ra", self.n_rn + self.rng.randrange(self.n_ra))
        if r < 0.93 + self.none_p:
            return ("none",)
        return ("lit", self.rng.randint(0, 3))

    def spelling(self, n, defaults, need0=False):
        """which parameters are supplied and how: -> (number of positional arguments, [parameter index per keyword
        argument, in source order], one more positional argument than that)"""
        rng = self.rng
        req = n - len(defaults)
        supplied = [i for i in range(n) if i < req or rng.random() < 0.5 or (need0 and i == 0)]
        maxpos = 0
        while maxpos in supplied:
            maxpos += 1
        npos = maxpos if rng.random() < 0.6 else rng.randint(0, maxpos)
        kws = [i for i in supplied if i >= npos]
        if rng.random() < 0.3:
            rng.shuffle(kws)
        r = rng.random()
        if r < 0.02:
            kws.append(n + rng.randint(0, 1))               # a keyword the callee does not have
        elif r < 0.04 and npos:
            kws.append(rng.randrange(npos))                 # a second value for a positional parameter
        elif r < 0.05 and req:
            x = rng.randrange(req)                          # a required parameter left out
            if x >= npos:
                kws = [i for i in kws if i != x]
            elif x == npos - 1 and not (need0 and x == 0):
                npos -= 1
        elif r < 0.06 and not kws:
            return npos, kws, True                          # one positional argument too many
        return npos, kws, False

    def mkcall(self, j, arities, argfn, first=None):
        """a call of cells j: argfn() makes one argument expression; first: the expression for parameter 0 (the
        decremented counter of a self recursion)"""
        n = arities[j]
        if not self.default_p:
            k = n - 1 if (first is not None and n) else n
            return ("call", j, ([first] if (first is not None and n) else []) + [argfn() for _ in range(k)])
        npos, kws, extra = self.spelling(n, self.defaults.get(j, []), need0=first is not None and n > 0)

        def arg(i):
            return first if (i == 0 and first is not None) else argfn()
        pos = [arg(i) for i in range(npos)]
        if extra and not kws:
            pos.append(argfn())
        kw = [(i, arg(i)) for i in kws]
        return ("callk", j, pos, kw) if kw else ("call", j, pos)

    def spelled_args(self, nparams, defaults, positional=False):
        """the argument tokens of a request from outside: values, then `k<i>=<value>`; positional=True: a subscript
        (no keywords), possibly shorter than the parameter list"""
        if not self.default_p:
            return self.args(nparams)
        if positional:
            req = nparams - len(defaults)
            n = self.rng.randint(req, nparams)
            if self.rng.random() < 0.04:
                n = max(0, n + self.rng.choice([-1, 1]))
            return self.args(n)
        npos, kws, extra = self.spelling(nparams, defaults)
        vals = self.args(npos + len(kws) + (1 if extra and not kws else 0))
        return vals[:len(vals) - len(kws)] + ["k%d=%s" % (i, v) for i, v in zip(kws, vals[len(vals) - len(kws):])]

    def maybe_via(self, e):
        if not self.via_p or self.rng.random() >= self.via_p:
            return e
        kinds = VIA_KINDS if lambda_ok(e) else ("def",)
        return ("via", self.rng.choice(kinds), e)

    def block(self, cid, nparams, arities, depth):
        """except-reraise / finally around a call (often of a cells that fails) or any expression; the block calls
        one or two lower cells with simple arguments"""
        rng = self.rng
        if self.failing and rng.random() < 0.55:
            j = rng.choice(self.failing)
            a = self.mkcall(j, arities, lambda: self.leaf(nparams))
        elif rng.random() < 0.5:
            j = rng.randrange(cid)
            a = self.mkcall(j, arities, lambda: self.leaf(nparams))
        else:
            a = self.expr(cid, nparams, arities, depth - 1)
        calls = []
        for _ in range(rng.choice([1, 1, 1, 2])):
            j = rng.randrange(cid)
            calls.append(self.mkcall(j, arities, lambda: self.leaf(nparams)))
        b = calls[0] if len(calls) == 1 else ("add", calls[0], calls[1])
        if rng.random() < 0.4:
            return ("tryfin", a, b)
        c = "all" if rng.random() < 0.55 else rng.choice(["k0", "k1", "k2", "k3", "noneret"])
        return ("tryre", a, c, b)

    def expr(self, cid, nparams, arities, depth):
        if self.block_p and depth > 0 and cid > 0 and not self.no_try and self.rng.random() < self.block_p:
            return self.block(cid, nparams, arities, depth)
        r = self.rng.random()
        if depth <= 0 or r < 0.22:
            return self.leaf(nparams)
        if r < 0.45:
            op = self.rng.choice(["add", "add", "sub", "mul", "lt"])
            return (op, self.expr(cid, nparams, arities, depth - 1), self.expr(cid, nparams, arities, depth - 1))
        if r < 0.55:
            return ("if", self.expr(cid, nparams, arities, depth - 1), self.expr(cid, nparams, arities, depth - 1),
                    self.expr(cid, nparams, arities, depth - 1))
        if r < 0.80 and cid > 0:
            j = self.rng.randrange(cid)
            if self.default_p:
                return self.maybe_via(self.mkcall(j, arities, lambda: self.expr(cid, nparams, arities, depth - 2)))
            ar = arities[j]
            if self.rng.random() < 0.04:
                ar = max(0, ar + self.rng.choice([-1, 1]))       # wrong arity: TypeError in the caller
            return self.maybe_via(("call", j, [self.expr(cid, nparams, arities, depth - 2) for _ in range(ar)]))
        if r < 0.80 + self.raise_p:
            return ("raise", self.rng.choice([0, 1, 2, 0, 1, 2, 6]))
        if r < 0.95 and self.no_try:
            return ("add", self.leaf(nparams), self.expr(cid, nparams, arities, depth - 1))
        if r < 0.95:
            c = "all" if self.rng.random() < self.catch_all_p else self.rng.choice(["k0", "k1", "k2", "k3", "noneret"])
            if self.trx_p and self.rng.random() < self.trx_p:
                # the failure is translated: a new exception object of another kind leaves the formula
                return ("trx", self.expr(cid, nparams, arities, depth - 1), c, self.rng.choice([0, 1, 2, 3]),
                        self.rng.randrange(2))
            return ("try", self.expr(cid, nparams, arities, depth - 1), c, self.expr(cid, nparams, arities, depth - 2))
        return self.leaf(nparams)

    def body(self, cid, nparams, arities):
        e = self.expr(cid, nparams, arities, self.rng.randint(1, 4))
        if nparams and self.rng.random() < 0.45:
            # self recursion on the first parameter
            rec = self.maybe_via(self.mkcall(cid, arities, lambda: self.leaf(nparams), first=("sub", ("p", 0), ("lit", 1))))
            step = self.rng.choice([
                ("add", rec, self.leaf(nparams)),
                ("add", rec, e),
                ("add", ("mul", rec, ("lit", 1)), ("lit", 1)),
            ])
            if self.rng.random() < 0.15 and not self.no_try:
                step = ("try", step, "all" if self.rng.random() < self.catch_all_p else "k0", ("lit", -1))
            return ("if", ("lt", ("lit", 0), ("p", 0)), step, self.expr(cid, nparams, arities, 1))
        return e

    def fail_body(self, cid, nparams, arities):
        """a formula that fails whatever the arguments: a raise, a call of such a cells, or a recursion that
        descends p0 levels and raises at the bottom"""
        kind = self.rng.choice([0, 0, 1, 1, 2, 3])
        if self.after_call_p and cid > 0 and self.rng.random() < self.after_call_p:
            call = self.mkcall(self.rng.randrange(cid), arities, lambda: self.leaf(nparams))
            if nparams and self.rng.random() < 0.5:
                # fails for some arguments only: a repair by a value edit of the precedent is possible
                return ("if", ("lt", ("lit", 1), call), ("raise", kind), ("add", call, ("lit", 1)))
            return ("add", call, ("raise", kind))
        r = self.rng.random()
        if self.failing and r < 0.4:
            j = self.rng.choice(self.failing)
            call = self.maybe_via(self.mkcall(j, arities, lambda: self.leaf(nparams)))
            return call if self.rng.random() < 0.6 else ("add", call, self.leaf(nparams))
        if nparams and r < 0.6:
            rec = self.maybe_via(self.mkcall(cid, arities, lambda: self.leaf(nparams),
                                             first=("sub", ("p", 0), ("lit", 1))))
            return ("if", ("lt", ("lit", 0), ("p", 0)), rec, self.maybe_via(("raise", kind)))
        return self.maybe_via(("raise", kind))

    def handled_then(self, cid, nparams, arities, rest):
        """(try: call … except …) k times, then `rest`"""
        tries = []
        for _ in range(self.rng.choice([1, 1, 2, 3])):
            if self.failing and self.rng.random() < 0.75:
                j = self.rng.choice(self.failing)
            else:
                j = self.rng.randrange(cid)
            call = self.mkcall(j, arities, lambda: self.leaf(nparams))
            c = "all" if self.rng.random() < 0.5 else self.rng.choice(["k0", "k1", "k2", "k3"])
            if self.trx_p:
                # (C05) no catch-all (a caught depth error is another matter), and the handler TRANSLATES: a default
                # computed while a callee failed is C02's matter (no dependency on a failed callee is recorded)
                c = self.rng.choice(["k0", "k1", "k2", "k3"])
                tries.append(("trx", call, c, self.rng.choice([0, 1, 2, 3]), self.rng.randrange(2)))
                continue
            tries.append(("try", call, c, self.leaf(nparams)))
        for t in reversed(tries):
            rest = ("add", t, rest)
        return rest

    def program(self, ncells):
        arities, cells = [], []
        for cid in range(ncells):
            nparams = self.rng.choice([0, 1, 1, 2, 2, 3] if self.default_p else [0, 1, 1, 1, 2])
            arities.append(nparams)
            dflt = None
            if self.default_p and nparams and self.rng.random() < self.default_p:
                # mostly two or more defaulted parameters, with values that differ from each other
                nd = self.rng.choice([nparams, nparams, max(1, nparams - 1), self.rng.randint(1, nparams)])
                dflt = self.rng.sample(range(0, 7), nd)
                if self.rng.random() < 0.08:
                    dflt[self.rng.randrange(nd)] = None
                self.defaults[cid] = dflt
            if self.space_p:
                self.cur_space = 1 if self.rng.random() < self.space_p else 0
            cells.append({
                "id": cid,
                "nparams": nparams,
                "cached": self.rng.random() < 0.8,
                "allow_none": self.rng.random() < 0.3,
                "body": self.body(cid, nparams, arities),
            })
            c = cells[-1]
            if dflt is not None:
                c["defaults"] = dflt
            if self.space_p:
                c["space"] = self.cur_space
            if self.fail_cell_p and self.rng.random() < self.fail_cell_p:
                c["body"] = self.fail_body(cid, nparams, arities)
                self.failing.append(cid)
            elif self.handled_seq_p and cid > 0 and self.rng.random() < self.handled_seq_p:
                c["body"] = self.handled_then(cid, nparams, arities, c["body"])
            if self.lam_p and lambda_ok(c["body"]) and self.rng.random() < self.lam_p:
                c["lam"] = True
        # allow_none is looked up cells -> space -> model: in a third of the programs the settings are spread over
        # the three levels (every combination of unset / allowed / not allowed arises)
        if cells and self.rng.random() < 0.35:
            cells[0]["an_space"] = self.rng.choice([None, None, True, False])
            cells[0]["an_model"] = self.rng.choice([False, False, True])
            for c in cells:
                c["allow_none"] = self.rng.choice([None, None, True, False])
        refs = {r: self.rng.randint(-1, 4) for r in range(self.n_rn + self.n_ra)}
        return cells, refs

    def args(self, nparams):
        out = []
        for _ in range(nparams):
            r = self.rng.random()
            out.append("N" if r < 0.04 else str(self.rng.randint(-1, 6)))
        return out
