"""Common machinery of every check: regenerate tables, build and audit the Lean
development, run the property's correspondence and oracle, decide, write evidence.

Exit codes: 0 = property held on everything explored, 1 = violation (a VIOLATION line was
printed), 2 = infrastructure failure / timeout (never a VIOLATION line).
"""
import fcntl
import hashlib
import json
import os
import random
import re
import subprocess
import sys
import time
import traceback

ROOT = os.path.dirname(os.path.dirname(os.path.dirname(os.path.abspath(__file__))))
LEAN_DIR = os.path.join(ROOT, "lean")
EVIDENCE_DIR = os.path.join(ROOT, "evidence")
REPLAY_DIR = os.path.join(ROOT, "replays")
CORPUS_DIR = os.path.join(ROOT, "corpus")
DRIVER = os.path.join(LEAN_DIR, ".lake", "build", "bin", "mxdriver")
REPO = os.environ.get("MODELX_REPO", "/repo")

ALLOWED_AXIOMS = {"propext", "Classical.choice", "Quot.sound"}
FORBIDDEN = re.compile(
    r"\bsorry\b|\badmit\b|^\s*axiom\s|native_decide|bv_decide|implemented_by|\bunsafe\s|maxHeartbeats\s+0")

TRUSTED_BASE = [
    "Lean 4.33.0 kernel (lake build re-elaborates and kernel-checks every proof)",
    "axioms allowed in property theorems: propext, Classical.choice, Quot.sound (audited by #print axioms on every run)",
    "the hand-written Lean model is tied to /repo only by the differential correspondence run in this check (harness/mxh)",
    "the compiled driver (Lean compiler + C toolchain) is assumed to agree with the kernel's reading of the same definitions",
    "harness: op->API mapping, canonicalisation of observations, generators (what is never generated is never seen)",
    "CPython, networkx, and the other third-party libraries modelx runs on are modelled or sampled, not verified",
]


class Infra(Exception):
    """infrastructure failure -> exit 2"""


def raised_by_impl(e):
    """True when the exception came out of the code under verification (some frame of its traceback is
    in REPO/modelx): then it is an observation about the implementation (to be reported as a failure
    with the history that led to it), not a fault of the harness"""
    root = os.path.join(os.path.realpath(REPO), "modelx") + os.sep
    t = e.__traceback__
    while t is not None:
        if os.path.realpath(t.tb_frame.f_code.co_filename).startswith(root):
            return True
        t = t.tb_next
    return False


def impl_error_text(e):
    """short deterministic text of an exception raised by the implementation (no addresses)"""
    msg = re.sub(r"0x[0-9a-fA-F]+", "0x..", str(e)).replace("\n", " ")[:160]
    return "%s: %s" % (type(e).__name__, msg)


class Ctx:
    def __init__(self, prop, tier, seed):
        self.prop = prop
        self.tier = tier
        self.seed = seed
        self.t0 = time.time()
        self.notes = []

    def rng(self, *salt):
        h = hashlib.sha256(repr((self.seed, self.prop) + salt).encode()).digest()
        return random.Random(int.from_bytes(h[:8], "big"))

    def n(self, quick, thorough):
        return quick if self.tier == "quick" else thorough


# --------------------------------------------------------------------------------------
# Lean side

class _Lock:
    def __enter__(self):
        os.makedirs(os.path.join(LEAN_DIR, ".lake"), exist_ok=True)
        self.f = open(os.path.join(LEAN_DIR, ".lake", "verif.lock"), "w")
        fcntl.flock(self.f, fcntl.LOCK_EX)
        return self

    def __exit__(self, *a):
        fcntl.flock(self.f, fcntl.LOCK_UN)
        self.f.close()


def _run(cmd, cwd=None, timeout=3600, input=None):
    p = subprocess.run(cmd, cwd=cwd, capture_output=True, text=True, timeout=timeout, input=input)
    return p.returncode, p.stdout + p.stderr


def lean_build(targets, timeout=3600):
    """Returns (ok, log).  Serialised with a file lock: several checks may run at once."""
    with _Lock():
        rc, out = _run(["lake", "build"] + list(targets), cwd=LEAN_DIR, timeout=timeout)
    return rc == 0, out


def strip_comments(src):
    # remove /- ... -/ (nested) and -- ... comments
    out = []
    i, depth, n = 0, 0, len(src)
    while i < n:
        if src.startswith("/-", i):
            depth += 1
            i += 2
        elif depth and src.startswith("-/", i):
            depth -= 1
            i += 2
        elif depth:
            if src[i] == "\n":
                out.append("\n")
            i += 1
        elif src.startswith("--", i):
            while i < n and src[i] != "\n":
                i += 1
        else:
            out.append(src[i])
            i += 1
    return "".join(out)


def lean_sources():
    res = []
    for base, dirs, files in os.walk(LEAN_DIR):
        if ".lake" in base:
            continue
        for f in files:
            if f.endswith(".lean"):
                res.append(os.path.join(base, f))
    return sorted(res)


def forbidden_tokens():
    hits = []
    for p in lean_sources():
        for ln, line in enumerate(strip_comments(open(p).read()).split("\n"), 1):
            if FORBIDDEN.search(line):
                hits.append("%s:%d: %s" % (os.path.relpath(p, ROOT), ln, line.strip()))
    return hits


def theorems_of(prop):
    path = os.path.join(LEAN_DIR, "MxModel", "Props", prop + ".lean")
    src = strip_comments(open(path).read())
    return re.findall(r"^\s*theorem\s+([A-Za-z_][A-Za-z0-9_'.]*)", src, re.M)


def lean_audit(prop):
    """#print axioms for every theorem of Props/<prop>.lean -> {theorem: [axioms]}"""
    names = theorems_of(prop)
    if not names:
        raise Infra("no theorem found in Props/%s.lean" % prop)
    body = "import MxModel.Props.%s\n" % prop
    for nm in names:
        body += "#print axioms MxModel.%s.%s\n" % (prop, nm)
    tmp = os.path.join(LEAN_DIR, ".lake", "audit_%s_%d.lean" % (prop, os.getpid()))
    open(tmp, "w").write(body)
    try:
        with _Lock():
            rc, out = _run(["lake", "env", "lean", tmp], cwd=LEAN_DIR, timeout=1800)
    finally:
        os.unlink(tmp)
    res = {}
    for m in re.finditer(r"'MxModel\.%s\.([^']+)' depends on axioms: \[([^\]]*)\]" % prop, out):
        res[m.group(1)] = [a.strip() for a in m.group(2).replace("\n", " ").split(",") if a.strip()]
    for m in re.finditer(r"'MxModel\.%s\.([^']+)' does not depend on any axioms" % prop, out):
        res[m.group(1)] = []
    missing = [n for n in names if n not in res]
    return res, missing, out


def leanchecker(modules):
    with _Lock():
        rc, out = _run(["lake", "env", "leanchecker"] + modules, cwd=LEAN_DIR, timeout=3600)
    return rc == 0, out


USED_LAYERS = set()
# the first driver conversations of this run (layer, input lines, output lines), kept so that the thorough tier can
# replay them through Lean's interpreter (`lean --run`) and compare with what the natively compiled driver answered
DRIVER_SAMPLE = []
DRIVER_SAMPLE_MAX_LINES = 4000
DRIVER_SAMPLE_MAX_CONV = 40


def interpreter_cross_run():
    """-> (conversations replayed, lines compared, first difference or None).  The theorems are about the kernel's
    reading of the model definitions; the correspondence runs their COMPILED form (Lean compiler + C toolchain).  This
    re-runs a sample through the IR interpreter, which shares the front end but not the C back end or the linker."""
    n_conv = n_lines = 0
    main = os.path.join(LEAN_DIR, "Driver", "Main.lean")
    for layer, lines, out in DRIVER_SAMPLE:
        pr = subprocess.run(["lake", "env", "lean", "--run", main, layer], cwd=LEAN_DIR, timeout=1800,
                            input="\n".join(lines) + "\n", capture_output=True, text=True)
        if pr.returncode != 0:
            raise Infra("interpreter run of the driver failed (layer %s): %s" % (layer, pr.stderr[-1500:]))
        got = pr.stdout.split("\n")
        if got and got[-1] == "":
            got.pop()
        n_conv += 1
        n_lines += len(lines)
        if got != out:
            k = next((i for i, (a, b) in enumerate(zip(got, out)) if a != b), min(len(got), len(out)))
            return n_conv, n_lines, {"layer": layer, "line": lines[k] if k < len(lines) else None,
                                     "compiled": out[k] if k < len(out) else None,
                                     "interpreted": got[k] if k < len(got) else None}
    return n_conv, n_lines, None


def run_driver(layer, lines, timeout=600):
    """Feed `lines` to the compiled model driver; one output line per input line."""
    USED_LAYERS.add(layer)
    if not os.path.exists(DRIVER):
        raise Infra("driver not built: " + DRIVER)
    data = "\n".join(lines) + "\n"
    p = subprocess.run([DRIVER, layer], input=data, capture_output=True, text=True, timeout=timeout)
    if p.returncode != 0:
        raise Infra("driver failed rc=%s: %s" % (p.returncode, p.stderr[-2000:]))
    out = p.stdout.split("\n")
    if out and out[-1] == "":
        out.pop()
    if len(out) != len(lines):
        raise Infra("driver returned %d lines for %d ops" % (len(out), len(lines)))
    if (len(DRIVER_SAMPLE) < DRIVER_SAMPLE_MAX_CONV
            and sum(len(c[1]) for c in DRIVER_SAMPLE) + len(lines) <= DRIVER_SAMPLE_MAX_LINES):
        DRIVER_SAMPLE.append((layer, list(lines), list(out)))
    return out


class DriverProc:
    """one long-lived `mxdriver <layer>` process per layer for drivers that flush after every line (struct,
    relative): a check that asks the model thousands of small questions does not pay a process start for each.
    Every question starts with `reset`, so questions are independent of each other."""
    procs = {}

    @classmethod
    def ask(cls, layer, lines):
        USED_LAYERS.add(layer)
        p = cls.procs.get(layer)
        if p is None or p.poll() is not None:
            if not os.path.exists(DRIVER):
                raise Infra("driver not built: " + DRIVER)
            p = subprocess.Popen([DRIVER, layer], stdin=subprocess.PIPE, stdout=subprocess.PIPE, text=True, bufsize=1)
            cls.procs[layer] = p
        out = []
        for i in range(0, len(lines), 200):       # chunks smaller than the pipe buffers, answers read in between
            chunk = lines[i:i + 200]
            p.stdin.write("\n".join(chunk) + "\n")
            p.stdin.flush()
            for _ in chunk:
                line = p.stdout.readline()
                if not line:
                    raise Infra("model driver %s died (rc=%s)" % (layer, p.poll()))
                out.append(line.rstrip("\n"))
        return out

    @classmethod
    def close(cls):
        for p in cls.procs.values():
            try:
                p.stdin.close()
                p.wait(timeout=5)
            except Exception:
                p.kill()
        cls.procs = {}


import atexit  # noqa: E402
atexit.register(DriverProc.close)


# --------------------------------------------------------------------------------------
# findings, replays, evidence

def load_findings(prop):
    path = os.path.join(ROOT, "known_findings.json")
    if not os.path.exists(path):
        return []
    data = json.load(open(path))
    return [f for f in data.get("findings", []) if f.get("property") == prop and f.get("status") == "known"]


def write_replay(prop, payload):
    os.makedirs(REPLAY_DIR, exist_ok=True)
    blob = json.dumps(payload, sort_keys=True, indent=1, default=str)
    h = hashlib.sha256(blob.encode()).hexdigest()[:12]
    path = os.path.join(REPLAY_DIR, "%s-%s.json" % (prop, h))
    open(path, "w").write(blob)
    return path


def write_evidence(ctx, coverage, violations, assumptions=None, level="proof"):
    os.makedirs(EVIDENCE_DIR, exist_ok=True)
    ev = {
        "property_id": ctx.prop,
        "tier": ctx.tier,
        "seed": ctx.seed,
        "level": level,
        "coverage": coverage,
        "assumptions": assumptions or [],
        "wall_s": round(time.time() - ctx.t0, 2),
        "violations": violations,
    }
    path = os.path.join(EVIDENCE_DIR, ctx.prop + ".json")
    tmp = path + ".tmp%d" % os.getpid()
    open(tmp, "w").write(json.dumps(ev, indent=1, sort_keys=True, default=str))
    os.replace(tmp, path)


class Outcome:
    """What a property's own run reports back to the generic decision procedure."""

    def __init__(self):
        self.failures = []        # oracle failures on the implementation: dict(what=, history=, detail=, finding_key=)
        self.disagreements = []   # model vs implementation: dict(history=, index=, impl=, model=)
        self.coverage = {}        # measured counts, samples, distributions
        self.assumptions = []
        self.level = "proof"

    def fail(self, what, history, detail=None, key=None):
        self.failures.append({"what": what, "history": history, "detail": detail, "key": key})

    def disagree(self, history, index, impl, model, layer=None):
        self.disagreements.append({"history": history, "index": index, "impl": impl, "model": model,
                                   "layer": layer})


def classify(prop, failure, findings):
    """Return the known finding a failure belongs to, or None.  A finding matches only by its
    explicit `key` (set by the oracle from the specific trigger it recognised)."""
    for f in findings:
        if failure.get("key") and failure["key"] == f.get("key"):
            return f
    return None


def main_check(prop_module, prop, tier, seed, replay=None):
    ctx = Ctx(prop, tier, seed)
    try:
        return _main_check(ctx, prop_module, replay)
    except Infra as e:
        print("INFRA-FAILURE: %s" % e)
        return 2
    except subprocess.TimeoutExpired as e:
        print("INFRA-FAILURE: timeout %s" % e)
        return 2
    except Exception:
        traceback.print_exc()
        print("INFRA-FAILURE: unexpected exception in the check itself")
        return 2


def _main_check(ctx, pm, replay):
    from . import tables
    prop = ctx.prop
    findings = load_findings(prop)

    if replay:
        payload = json.load(open(replay))
        out = Outcome()
        pm.replay(ctx, payload, out)
        bad = 0
        for f in out.failures:
            k = classify(prop, f, findings)
            if k:
                print("KNOWN-FINDING: property=%s %s" % (prop, k["what"]))
            else:
                bad += 1
                print("replay: still fails: %s" % f["what"])
        for d in out.disagreements:
            print("replay: model/implementation disagreement at op %s: impl=%r model=%r" % (
                d["index"], d["impl"], d["model"]))
        if bad:
            print("VIOLATION property=%s replay=%s" % (prop, replay))
            return 1
        print("replay: no failure")
        return 0

    # 1. regenerate tables from /repo
    tables.regenerate()

    # 2. build proofs + driver
    proof_problems = []
    ok, log = lean_build(["MxModel.Props." + prop, "mxdriver"])
    build_ok = ok
    if not ok:
        # the driver may still be buildable when only a proof broke
        errs = [l for l in log.split("\n") if l.startswith("error")]
        proof_problems.append("lake build failed: " + " | ".join(errs[:6]))
        ok2, log2 = lean_build(["mxdriver"])
        if not ok2:
            if tables.is_pristine():
                raise Infra("driver does not build on pristine tables:\n" + log2[-3000:])
            proof_problems.append("driver does not build with regenerated tables")

    # 3. audit
    axioms = {}
    if build_ok:
        axioms, missing, raw = lean_audit(prop)
        if missing:
            raise Infra("audit could not read axioms of %s\n%s" % (missing, raw[-2000:]))
        for thm, ax in axioms.items():
            extra = [a for a in ax if a not in ALLOWED_AXIOMS]
            if extra:
                raise Infra("theorem %s depends on non-allowed axioms %s" % (thm, extra))
        hits = forbidden_tokens()
        if hits:
            raise Infra("forbidden tokens in Lean sources: %s" % hits[:5])
        if ctx.tier == "thorough":
            okc, outc = leanchecker(["MxModel.Props." + prop])
            if not okc:
                raise Infra("leanchecker rejected MxModel.Props.%s:\n%s" % (prop, outc[-2000:]))
            ctx.notes.append("leanchecker re-checked MxModel.Props.%s" % prop)

    # 4. correspondence + oracle
    out = Outcome()
    pm.run(ctx, out)
    if ctx.tier == "thorough" and DRIVER_SAMPLE:
        n_conv, n_lines, diff = interpreter_cross_run()
        if diff:
            raise Infra("the compiled driver and Lean's interpreter disagree on the model: %s" % diff)
        ctx.notes.append("interpreter cross-run: %d driver conversations (%d lines) replayed through `lean --run`, "
                         "identical to the compiled driver's answers" % (n_conv, n_lines))

    # 5. decide
    violations = 0
    known_hit = {}
    reported = set()
    for f in out.failures:
        k = classify(prop, f, findings)
        if k:
            known_hit.setdefault(k["id"], k)
            continue
        sig = f["what"]
        if sig in reported:
            continue
        reported.add(sig)
        path = write_replay(prop, {"property": prop, "kind": "oracle-failure", "what": f["what"],
                                   "history": f["history"], "detail": f["detail"], "seed": ctx.seed})
        print("VIOLATION property=%s replay=%s" % (prop, path))
        violations += 1
        if violations >= 5:
            break
    for k in known_hit.values():
        print("KNOWN-FINDING: property=%s %s" % (prop, k["what"]))

    # a table whose pattern no longer matches /repo breaks the tie for the properties whose theorems
    # or driver layers use that table (and only for those)
    table_mine, table_other = tables.problems_for(prop, sorted(USED_LAYERS))
    proof_problems = table_mine + proof_problems
    if table_other:
        ctx.notes.append("table extraction problems that do not concern this property: %s" % table_other)

    unexplained = []
    if proof_problems:
        unexplained.append({"kind": "proof", "detail": proof_problems})
    if out.disagreements:
        d = out.disagreements[0]
        unexplained.append({"kind": "correspondence", "detail": d,
                            "count": len(out.disagreements)})
    if unexplained and violations == 0:
        # the property is no longer shown to hold; the oracle (already run on every
        # generated history, plus the property's extra search) found no failing input
        extra = Outcome()
        if hasattr(pm, "search"):
            pm.search(ctx, out, extra)
        for f in extra.failures:
            if classify(prop, f, findings):
                continue
            path = write_replay(prop, {"property": prop, "kind": "oracle-failure", "what": f["what"],
                                       "history": f["history"], "detail": f["detail"], "seed": ctx.seed})
            print("VIOLATION property=%s replay=%s" % (prop, path))
            violations += 1
            break
        if violations == 0:
            path = write_replay(prop, {"property": prop, "kind": "not-shown", "unexplained": unexplained,
                                       "theorems": theorems_of(prop), "seed": ctx.seed})
            print("VIOLATION property=%s replay=%s no-failing-input-found" % (prop, path))
            violations += 1

    # 6. evidence
    thms = theorems_of(prop)
    cov = dict(out.coverage)
    cov.update({
        "obligations": len(thms),
        "discharged": len(axioms) if build_ok else 0,
        "checker_cmd": "cd lean && lake build MxModel.Props.%s && lake env lean <#print axioms of every theorem>" % prop
                       + (" && lake env leanchecker MxModel.Props.%s" % prop if ctx.tier == "thorough" else ""),
        "trusted_base": TRUSTED_BASE,
        "theorem_axioms": axioms,
        "tables_regenerated_from_repo": tables.summary(),
        "proof_problems": proof_problems,
        "model_impl_disagreements": len(out.disagreements),
        "known_findings_hit": sorted(known_hit),
        "notes": ctx.notes,
    })
    cov.setdefault("evaluations", 0)
    cov.setdefault("distinct_nontrivial", 0)
    cov.setdefault("rule", "")
    cov.setdefault("samples", [])
    write_evidence(ctx, cov, violations, out.assumptions, out.level)
    print("%s %s seed=%d: theorems=%d evaluations=%s disagreements=%d known=%d violations=%d (%.1fs)" % (
        prop, ctx.tier, ctx.seed, len(thms), cov.get("evaluations"), len(out.disagreements),
        len(known_hit), violations, time.time() - ctx.t0))
    return 1 if violations else 0
