"""The formulas of an Exec program as PLAIN PYTHON functions – an evaluation in which modelx takes no part.

Every cells `c<i>` is the function its rendered `def` (or lambda) defines, compiled by Python and called by Python:
argument binding is the interpreter's own (positional, keyword, defaults), there is no cache, no call stack, no
dependency graph.  Names are resolved as a formula of that space resolves them: sibling cells and the references of
the own space by name, the other space through `Ch` / `_space.parent`, `_space` for the own space.  User-assigned values
(inputs) are kept in a table the functions consult first, keyed by the arguments bound with `inspect.signature` of the
plain function.  What it does not have: modelx's recursion limit (`DeepReferenceError` never arises) – callers compare
only where the limit plays no part.

Used as the independent reference of C01 ("whatever was computed before, the value is what the formula gives") and C06
("an assigned value is what the cells returns for those arguments under every spelling").
"""
import inspect
import types

from .expr import Renderer
from .execworld import parse_val, val_s, split_args, COPY_BASE
from .impl import err_kind
from modelx.core.errors import DeepReferenceError, NoneReturnedError


class PlainWorld:
    def __init__(self, cells, refs, n_rn, enforce_none=None):
        """enforce_none: cid -> bool, the cells whose formula must not return None (modelx applies the rule when it
        stores a value: cached cells that do not allow None)"""
        self.cells_def = [dict(c) for c in cells]
        self.n_rn = n_rn
        self.cell_space = {c["id"]: int(c.get("space", 0)) for c in cells}
        self.inputs = {}                                    # cid -> {key tuple: value}
        self.funcs = {}
        self.sigs = {}
        # spaces: 0 = S, 1 = S.Ch, 3 = S.Cp (a copy of Ch, made by `copyspace`); index 2 is the model
        self.spaces = [types.SimpleNamespace(), types.SimpleNamespace(), types.SimpleNamespace(), types.SimpleNamespace()]
        self.spaces[1].parent = self.spaces[0]
        self.spaces[3].parent = self.spaces[0]
        self.spaces[0].Ch = self.spaces[1]
        self.glob = set(cells[0].get("glob") or []) if cells else set()
        self.mrefs = {}                                     # model-level references: id -> value
        self.srefs = {}                                     # (space, id) -> value: references the space owns
        self.enforce = dict(enforce_none or {})
        self.globals = [self._base_globals(0), self._base_globals(1), None, self._base_globals(3)]
        self.cur = None
        names = {"cell": self._cell_name, "rn": lambda r: "r%d" % r, "ra": self._attr_path, "rg": self._glob_path}
        self.rend = Renderer(names, None, None)
        for r, v in refs.items():
            self.set_ref(r, v)
        for c in self.cells_def:
            if not c.get("absent"):
                self.define(c, bool(enforce_none and enforce_none.get(c["id"])))

    def _base_globals(self, k):
        g = {"DeepReferenceError": DeepReferenceError, "NoneReturnedError": NoneReturnedError,
             "_space": self.spaces[k], "_model": self.spaces[2]}
        if k == 0:
            g["Ch"] = self.spaces[1]
        return g

    def ref_space(self, r):
        if r in self.glob:
            return 2
        return 0 if r < self.n_rn else 1

    def set_ref(self, r, v):
        k = self.ref_space(r)
        if k == 2:
            self.mrefs[r] = v
            setattr(self.spaces[2], "r%d" % r, v)
        else:
            self.srefs[(k, r)] = v
        self._sync(r)

    def set_space_ref(self, r, k, v):
        """a reference named r<r> owned by space k (shadows a model-level reference of that name)"""
        self.srefs[(k, r)] = v
        self._sync(r)

    def del_ref(self, r, k=None):
        k = self.ref_space(r) if k is None else k
        if k == 2:
            self.mrefs.pop(r, None)
            if hasattr(self.spaces[2], "r%d" % r):
                delattr(self.spaces[2], "r%d" % r)
        else:
            self.srefs.pop((k, r), None)
        self._sync(r)

    def _sync(self, r):
        """what the name r<r> denotes in each space: the space's own reference, else the model-level one, else nothing"""
        nm = "r%d" % r
        for k in (0, 1, 3):
            if (k, r) in self.srefs:
                v = self.srefs[(k, r)]
            elif r in self.mrefs:
                v = self.mrefs[r]
            else:
                self.globals[k].pop(nm, None)
                if hasattr(self.spaces[k], nm):
                    delattr(self.spaces[k], nm)
                continue
            self.globals[k][nm] = v
            setattr(self.spaces[k], nm, v)

    def _glob_path(self, r, form):
        here = self.cell_space.get(self.rend.cid, 0)
        if form == 0:
            return "r%d" % r
        if form == 1:
            return "_space.r%d" % r
        if form == 2:
            return ("Ch.r%d" if here == 0 else "_space.parent.r%d") % r
        if form == 3:
            return "_model.r%d" % r
        return ("_space.Ch.r%d" if here == 0 else "_space.parent.Ch.r%d") % r

    def _path_to(self, k):
        here = self.cell_space.get(self.rend.cid, 0)
        if here == k:
            return None
        return "Ch" if k == 1 else "_space.parent"

    def _cell_name(self, c):
        p = self._path_to(self.cell_space.get(c, 0))
        return "c%d" % c if p is None else "%s.c%d" % (p, c)

    def _attr_path(self, r):
        if r in self.glob:
            return self._glob_path(r, 1)
        p = self._path_to(self.ref_space(r))
        return "%s.r%d" % ("_space" if p is None else p, r)

    def define(self, c, enforce_none, copy_of=None, name=None):
        """copy_of: the cells is a COPY of cells `copy_of`: the formula text is the one written for the source (names
        spelled as seen from the source's space), evaluated in the namespace of the space the copy lives in; name: the
        name the cells has in its space (default c<id>)"""
        cid, k = c["id"], int(c.get("space", 0))
        rid = cid if copy_of is None else copy_of
        src, _ = self.rend.render("c%d" % rid, rid, c["nparams"], c["body"], lam=bool(c.get("lam")),
                                  enforce_none=enforce_none, defaults=c.get("defaults") or ())
        g = self.globals[k]
        if src.startswith("lambda"):
            raw = eval(src.strip(), g)                              # noqa: S307 (source rendered by this harness)
        else:
            keep = g.get("c%d" % rid)
            exec(src, g)                                    # noqa: S102
            raw = g.pop("c%d" % rid)
            if keep is not None:
                g["c%d" % rid] = keep
        name = name or "c%d" % cid
        sig = inspect.signature(raw)
        self.sigs[cid] = sig
        inputs = self.inputs.setdefault(cid, {})

        def f(*args, **kwargs):
            if inputs:
                b = sig.bind(*args, **kwargs)               # TypeError as for the formula itself
                b.apply_defaults()
                key = tuple(b.arguments.values())
                if key in inputs:
                    return inputs[key]
            return raw(*args, **kwargs)
        self.funcs[cid] = f
        g[name] = f
        g["z" + name] = f                                   # the name of a reference that holds the cells (call style "alias")
        setattr(self.spaces[k], name, f)

    def bind(self, cid, toks):
        pos, kw = split_args(toks)
        try:
            b = self.sigs[cid].bind(*pos, **{"a%d" % i: v for i, v in kw.items()})
        except TypeError:
            return None
        b.apply_defaults()
        return tuple(b.arguments.values())

    def eval(self, cid, toks):
        """-> "ok <v>" / "err <kind>" (the kind of the exception the plain call raises)"""
        pos, kw = split_args(toks)
        try:
            v = self.funcs[cid](*pos, **{"a%d" % i: x for i, x in kw.items()})
        except BaseException as e:      # noqa: BLE001 (generated formulas raise KeyboardInterrupt too)
            if isinstance(e, (KeyboardInterrupt, SystemExit)) and not e.args:
                raise
            if isinstance(e, RecursionError):
                return "err Deep"
            return "err " + err_kind(e)
        return "ok " + val_s(v)

    def apply_edit(self, op, applied):
        """a value edit the live model accepted (`applied`): only the table of inputs changes"""
        kind, cid = op[0], int(op[1])
        if kind == "set" and applied:
            eq = op.index("=")
            key = self.bind(cid, op[2:eq])
            if key is not None:
                self.inputs[cid][key] = parse_val(op[eq + 1])
        elif kind == "clearat" and applied:
            key = self.bind(cid, op[2:])
            self.inputs[cid].pop(key, None)
        elif kind == "clearall" and applied:
            self.inputs[cid].clear()
        # clear(): inputs stay

    def apply_op(self, op, applied):
        """any operation of a history but `eval`: value edits, reference edits, formula edits, copies (only what the
        live model accepted: `applied`)"""
        kind = op[0]
        if not applied:
            return
        if kind in ("set", "clearat", "clearall", "clear"):
            self.apply_edit(op, applied)
        elif kind == "setref":
            self.set_ref(int(op[1]), parse_val(op[2]))
        elif kind == "delref":
            self.del_ref(int(op[1]))
        elif kind == "shadow":
            self.set_space_ref(int(op[1]), int(op[2]), parse_val(op[3]))
        elif kind == "unshadow":
            self.del_ref(int(op[1]), int(op[2]))
        elif kind == "copycell":
            src, k, dst = int(op[1]), int(op[2]), int(op[3])
            old = next(x for x in self.cells_def if x["id"] == src)
            # the formula text is the one rendered for the ORIGINAL cells of the chain of copies
            origin = old.get("copy_of", src)
            c = dict(old, id=dst, space=k, copy_of=origin)
            c.pop("absent", None)
            self.cells_def = [x for x in self.cells_def if x["id"] != dst] + [c]
            self.cell_space[dst] = k
            self.enforce[dst] = self.enforce.get(src, False)
            self.inputs[dst] = dict(self.inputs.get(src, {}))       # the INPUT values go with the copy, nothing else
            self.define(c, self.enforce[dst], copy_of=origin)
        elif kind == "copyspace":
            self.spaces[0].Cp = self.spaces[3]
            for (k, r), v in list(self.srefs.items()):
                if k == 1:
                    self.srefs[(3, r)] = v
            for r in {r for (k, r) in self.srefs} | set(self.mrefs):
                self._sync(r)
            for old in list(self.cells_def):
                if self.cell_space.get(old["id"]) == 1 and old["id"] in self.funcs and old["id"] < COPY_BASE:
                    origin = old.get("copy_of", old["id"])
                    dst = COPY_BASE + old["id"]
                    c = dict(old, id=dst, space=3, copy_of=origin)
                    self.cells_def.append(c)
                    self.cell_space[dst] = 3
                    self.enforce[dst] = self.enforce.get(old["id"], False)
                    self.inputs[dst] = dict(self.inputs.get(old["id"], {}))
                    self.define(c, self.enforce[dst], copy_of=origin, name="c%d" % old["id"])
