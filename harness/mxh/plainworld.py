"""The formulas of an Exec program as PLAIN PYTHON functions – an evaluation in which modelx takes no part.

Every cells `c<i>` is the function its rendered `def` (or lambda) defines, compiled by Python and called by Python:
argument binding is the interpreter's own (positional, keyword, defaults), there is no cache, no call stack, no
dependency graph.  Names are resolved as a formula of that space resolves them: sibling cells and the references of
the own space by name, the other space through `Ch` / `_space.parent`, `_space` for the own space.  User-assigned values
(inputs) are kept in a table the functions consult first, keyed by the arguments bound with `inspect.signature` of the
plain function.  What it does not have: modelx's recursion limit (`DeepReferenceError` never arises) – callers compare
only where the limit plays no part.

Used as the independent reference of C01 ("whatever was computed before, the value is what the formula gives") and C06
("an assigned value is what the cells returns for those arguments under every spelling").
"""
import inspect
import types

from .expr import Renderer
from .execworld import parse_val, val_s, split_args
from .impl import err_kind
from modelx.core.errors import DeepReferenceError, NoneReturnedError


class PlainWorld:
    def __init__(self, cells, refs, n_rn, enforce_none=None):
        """enforce_none: cid -> bool, the cells whose formula must not return None (modelx applies the rule when it
        stores a value: cached cells that do not allow None)"""
        self.cells_def = [dict(c) for c in cells]
        self.n_rn = n_rn
        self.cell_space = {c["id"]: int(c.get("space", 0)) for c in cells}
        self.inputs = {}                                    # cid -> {key tuple: value}
        self.funcs = {}
        self.sigs = {}
        self.spaces = [types.SimpleNamespace(), types.SimpleNamespace()]
        self.spaces[1].parent = self.spaces[0]
        self.spaces[0].Ch = self.spaces[1]
        self.globals = [self._base_globals(0), self._base_globals(1)]
        self.cur = None
        names = {"cell": self._cell_name, "rn": lambda r: "r%d" % r, "ra": self._attr_path}
        self.rend = Renderer(names, None, None)
        for r, v in refs.items():
            self.set_ref(r, v)
        for c in self.cells_def:
            if not c.get("absent"):
                self.define(c, bool(enforce_none and enforce_none.get(c["id"])))

    def _base_globals(self, k):
        g = {"DeepReferenceError": DeepReferenceError, "NoneReturnedError": NoneReturnedError,
             "_space": self.spaces[k]}
        if k == 0:
            g["Ch"] = self.spaces[1]
        return g

    def ref_space(self, r):
        return 0 if r < self.n_rn else 1

    def set_ref(self, r, v):
        k = self.ref_space(r)
        self.globals[k]["r%d" % r] = v
        setattr(self.spaces[k], "r%d" % r, v)

    def _path_to(self, k):
        here = self.cell_space.get(self.rend.cid, 0)
        if here == k:
            return None
        return "Ch" if k == 1 else "_space.parent"

    def _cell_name(self, c):
        p = self._path_to(self.cell_space.get(c, 0))
        return "c%d" % c if p is None else "%s.c%d" % (p, c)

    def _attr_path(self, r):
        p = self._path_to(self.ref_space(r))
        return "%s.r%d" % ("_space" if p is None else p, r)

    def define(self, c, enforce_none):
        cid, k = c["id"], int(c.get("space", 0))
        src, _ = self.rend.render("c%d" % cid, cid, c["nparams"], c["body"], lam=bool(c.get("lam")),
                                  enforce_none=enforce_none, defaults=c.get("defaults") or ())
        g = self.globals[k]
        if src.startswith("lambda"):
            raw = eval(src.strip(), g)                              # noqa: S307 (source rendered by this harness)
        else:
            exec(src, g)                                    # noqa: S102
            raw = g["c%d" % cid]
        sig = inspect.signature(raw)
        self.sigs[cid] = sig
        inputs = self.inputs.setdefault(cid, {})

        def f(*args, **kwargs):
            if inputs:
                b = sig.bind(*args, **kwargs)               # TypeError as for the formula itself
                b.apply_defaults()
                key = tuple(b.arguments.values())
                if key in inputs:
                    return inputs[key]
            return raw(*args, **kwargs)
        self.funcs[cid] = f
        g["c%d" % cid] = f
        g["zc%d" % cid] = f                                 # the name of a reference that holds the cells (call style "alias")
        setattr(self.spaces[k], "c%d" % cid, f)

    def bind(self, cid, toks):
        pos, kw = split_args(toks)
        try:
            b = self.sigs[cid].bind(*pos, **{"a%d" % i: v for i, v in kw.items()})
        except TypeError:
            return None
        b.apply_defaults()
        return tuple(b.arguments.values())

    def eval(self, cid, toks):
        """-> "ok <v>" / "err <kind>" (the kind of the exception the plain call raises)"""
        pos, kw = split_args(toks)
        try:
            v = self.funcs[cid](*pos, **{"a%d" % i: x for i, x in kw.items()})
        except BaseException as e:      # noqa: BLE001 (generated formulas raise KeyboardInterrupt too)
            if isinstance(e, (KeyboardInterrupt, SystemExit)) and not e.args:
                raise
            if isinstance(e, RecursionError):
                return "err Deep"
            return "err " + err_kind(e)
        return "ok " + val_s(v)

    def apply_edit(self, op, applied):
        """a value edit the live model accepted (`applied`): only the table of inputs changes"""
        kind, cid = op[0], int(op[1])
        if kind == "set" and applied:
            eq = op.index("=")
            key = self.bind(cid, op[2:eq])
            if key is not None:
                self.inputs[cid][key] = parse_val(op[eq + 1])
        elif kind == "clearat" and applied:
            key = self.bind(cid, op[2:])
            self.inputs[cid].pop(key, None)
        elif kind == "clearall" and applied:
            self.inputs[cid].clear()
        # clear(): inputs stay
