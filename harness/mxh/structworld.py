"""Structure-level histories on real modelx: spaces, inheritance, cells, references, edits.

One `Live` object holds a modelx model and applies operations through the public API.
`describe(model)` is the complete canonical public description used by the oracles;
`definitions(model)` extracts only what the user defined (the input of derivation from
scratch); `rebuild(defs)` builds a brand-new model from definitions alone.
"""
import types

from . import core
from .impl import mx, close_all, quiet, err_kind
from modelx.core.errors import FormulaError

TOP = ["A", "B", "C", "D"]
CHILD = ["X", "Y"]
CELLS = ["f", "g", "h", "k"]
REFS = ["r", "s", "t"]
MREFS = ["r", "u"]
QUERY_ARGS = [0, 1, 2]

TEMPLATES = [
    "def {n}(x): return x + {k}",
    "def {n}(x): return {a}(x) * 2 + {k}",
    "def {n}(x): return {r} + x",
    "def {n}(x): return {c}.{r} + x",
    "def {n}(x): return {c}.{a}(x) + 1",
    "def {n}(x): return {a}(x - 1) + 1 if x > 0 else {k}",
    "lambda x: x * {k} + {r}",
    "def {n}(x): return u + x",
    "def {n}(x):\n    try:\n        return {a}(x)\n    except (NameError, AttributeError, TypeError):\n        return -{k}",
    "def {n}(x): return {r}(x) + {k}",          # {r}: a reference holding a cells
    "def {n}(x): return {c}[{k}].{a}(x) + 1",   # through an ItemSpace of a parametrised child
    # -- extended vocabulary (only generated / enumerated by the properties that ask for it: `ext`)
    "def {n}(x): return {a}(x) + {c}.{r}",      # calls a cells AND reads a reference by attribute path
    "def {n}(x): return {a}(x) + {r}",          # calls a cells AND reads a reference by name
    # partial formulas: the evaluation FAILS for exactly one of the query arguments (k % 3) and succeeds for the
    # others, so that failing evaluations (rolled back) are interleaved with successful ones in every history;
    # the error is one template 8 (a caller that catches) handles
    "def {n}(x):\n    if x == {k} % 3:\n        raise TypeError('outside the domain')\n    return {a}(x) + {k}",
    "def {n}(x):\n    if x == {k} % 3:\n        raise TypeError('outside the domain')\n    return {r} + x",
    # a cells of a child space reading a cells of the PARENT space by attribute path (`_space.parent.rate(x)`)
    "def {n}(x): return _space.parent.{a}(x) + {k}",
    # (not drawn by gen_formula; scenario families only) a reference read as an attribute of the space itself
    "def {n}(x): return _space.{r} + x",
    # (not drawn by gen_formula; motif programs only) a value that depends on the NAME of the cells' space and of
    # its ancestors (the model's name left out): renaming a space changes what the formula returns.  Only the names
    # the USER chose: the name of an ItemSpace on the path (`__Space<n>`) is read as `[]` (so a cells of an ItemSpace
    # still answers differently from the cells of the static space it was made from), because <n> is the parent's
    # running count of ItemSpaces created so far (`itemspacenamer`, never reset by `del_all_itemspaces`) - a function
    # of how many were created and discarded by earlier evaluations, not of the definitions (R9C02: with it a live
    # model answered from `C.X.__Space3` what the edits-only model answered from `C.X.__Space1`, 20 apart, no value
    # stale).  For a static space the text read is what it always was (`C.X`).
    "def {n}(x): return sum(map(ord, '.'.join('[]' if p.startswith('__Space') else p "
    "for p in _space.fullname.split('.')[1:]))) * 10 + x + {k}",
    # (not drawn by gen_formula; motif programs only) the same for the name of ANOTHER space, read through the
    # object-valued reference `{c}` to it: no cells of the renamed space lies between the reader and the name
    "def {n}(x): return sum(map(ord, {c}.fullname.split('.', 1)[1])) * 10 + x + {k}",
]
N_GEN_TEMPLATES = 16
N_BASE_TEMPLATES = 11

# formulas of parametrised spaces (`set_param path [i, r, c, a]`; `set_param path 1` is SPACE_TEMPLATES[1]).
# Every ItemSpace gets a reference `s` computed by the space formula, so that the cells of the space
# (and whatever calls them from elsewhere) depend on what the SPACE formula read.
SPACE_TEMPLATES = [
    None,
    "lambda i: None",
    "lambda i: {{'refs': {{'s': _space.parent.{r} * 10 + i}}}}",   # the parent's reference, by attribute path
    "lambda i: {{'refs': {{'s': {r} * 10 + i}}}}",                 # a reference of the namespace, by name
    "lambda i: {{'refs': {{'s': {c}.{r} * 10 + i}}}}",             # a reference of another space, by attribute path
    "lambda i: {{'refs': {{'s': {a}(i) * 10}}}}",                  # a cells of the space itself
    "lambda i: {{'refs': {{'s': _space.{r} * 10 + i}}}}",          # the space's own reference, by attribute path
]


def space_formula_src(v):
    """0 / None -> no formula; 1 -> the constant formula; [i, r, c, a] -> SPACE_TEMPLATES[i]"""
    if not v:
        return None
    if v == 1:
        return SPACE_TEMPLATES[1]
    if v == "BAD":
        return "lambda i: ("            # malformed source text
    i, r, c, a = v
    return SPACE_TEMPLATES[i].format(r=r, c=c, a=a)


def formula_src(name, t):
    """t = (template index, k, a, r, c)"""
    i, k, a, r, c = t
    return TEMPLATES[i].format(n=name, k=k, a=a, r=r, c=c)


NEEDS = [set(), {"a"}, {"r"}, {"c", "cr"}, {"c", "ca"}, {"a"}, {"r"}, {"u"}, {"a"}, {"ro"}, {"ci"},
         {"a", "c", "cr"}, {"a", "r"}, {"a"}, {"r"}, {"pa"}]


def gen_formula(rng, spaces, space=None, ext=False):
    """mostly names that resolve in `space` (a live UserSpace), sometimes arbitrary ones;
    ext: the extended templates too (the draws of the other properties do not move)"""
    n_templates = N_GEN_TEMPLATES if ext else N_BASE_TEMPLATES
    if space is None or rng.random() < 0.12:
        return (rng.randrange(n_templates), rng.randint(1, 5), rng.choice(CELLS), rng.choice(REFS), rng.choice(CHILD))
    cells = list(space.cells)
    refs = [r for r in space.refs if not r.startswith("_")]
    childs = [c for c in space.spaces]
    have = set()
    if cells:
        have.add("a")
    if refs:
        have.add("r")
    if "u" in refs:
        have.add("u")
    ch_ref = [(c, r) for c in childs for r in space.spaces[c].refs if not r.startswith("_")
              and not hasattr(space.spaces[c].refs[r], "_impl")]
    ch_cells = [(c, a) for c in childs for a in space.spaces[c].cells]
    obj_refs = [r for r in refs if type(space.refs[r]).__name__ == "Cells"]
    refs = [r for r in refs if not hasattr(space.refs[r], "_impl")]
    ch_item = [(c, a) for c in childs if space.spaces[c].formula is not None for a in space.spaces[c].cells]
    if obj_refs:
        have.add("ro")
    if ch_item:
        have.add("ci")
    if ch_ref:
        have |= {"c", "cr"}
    if ch_cells:
        have |= {"c", "ca"}
    pcells = []
    if ext:
        try:
            pcells = list(space.parent.cells) if "." in space.fullname.split(".", 1)[-1] else []
        except Exception:   # noqa
            pcells = []
        if pcells:
            have.add("pa")
    ok = [i for i in range(n_templates) if NEEDS[i] <= have]
    i = rng.choice(ok)
    a = rng.choice(cells) if cells else rng.choice(CELLS)
    r = rng.choice(refs) if refs else rng.choice(REFS)
    c = rng.choice(childs) if childs else rng.choice(CHILD)
    if i in (3, 11):
        c, r = rng.choice(ch_ref)
    if i == 4:
        c, a = rng.choice(ch_cells)
    if i == 9:
        r = rng.choice(obj_refs)
    if i == 10:
        c, a = rng.choice(ch_item)
        return (i, rng.randint(0, 1), a, r, c)
    if i == 15:
        a = rng.choice(pcells)
    return (i, rng.randint(1, 5), a, r, c)


# real functions (source retrievable) for `mx.defcells(func)`: named like the cells of the alphabet
def f(x): return x + 31


def g(x): return x + 32


def h(x): return x + 33


def k(x): return x + 34


DEF_FUNCS = {"f": f, "g": g, "h": h, "k": k}
del f, g, h, k


# ----------------------------------------------------------------------------- live model

class Live:
    def __init__(self, name="M", recursion=60):
        self.m = mx.new_model(name)
        self.formulas = {}      # source text -> formula tuple id (for canonical description)
        self.recursion = recursion
        self.last_exc = None    # what the last operation raised (the oracles that recognise a known finding read its text)

    # -- lookup
    def space(self, path):
        obj = self.m
        for p in path.split("."):
            obj = obj.spaces[p]
        return obj

    def has_space(self, path):
        try:
            self.space(path)
            return True
        except Exception:
            return False

    # -- ops
    def apply(self, op):
        k = op[0]
        self.last_exc = None
        try:
            with quiet():
                old = mx.get_recursion()
                mx.set_recursion(self.recursion)
                try:
                    return self._apply(k, op)
                finally:
                    mx.set_recursion(old)
        except FormulaError as e:
            self.last_exc = e
            return "err Formula " + err_kind(mx.get_error())
        except Exception as e:
            self.last_exc = e
            return "err " + err_kind(e)

    def _apply(self, k, op):
        m = self.m
        if k == "new_space":
            parent = m if op[1] == "-" else self.space(op[1])
            bases = [self.space(b) for b in op[3]] if op[3] else None
            if len(op) > 4 and op[4]:
                # references handed to the constructor: ["new_space", parent, name, bases, {name: value}]
                parent.new_space(op[2], bases=bases, refs={k_: self.refvalue(v) for k_, v in dict(op[4]).items()})
            else:
                parent.new_space(op[2], bases=bases)
            return "ok"
        if k == "del_space":
            path = op[1]
            parent = m if "." not in path else self.space(path.rsplit(".", 1)[0])
            delattr(parent, path.rsplit(".", 1)[-1])
            return "ok"
        if k == "rename_space":
            self.space(op[1]).rename(op[2])
            return "ok"
        if k == "new_cells":
            s = self.space(op[1])
            src = formula_src(op[2], op[3]) if op[3] != "BAD" else "def %s(x: return" % op[2]
            s.new_cells(op[2], formula=src)
            return "ok"
        if k == "set_formula":
            c = self.space(op[1]).cells[op[2]]
            src = formula_src(op[2], op[3]) if op[3] != "BAD" else "def %s(x: return" % op[2]
            c.formula = src
            return "ok"
        if k == "set_cached":
            self.space(op[1]).cells[op[2]].is_cached = bool(op[3])
            return "ok"
        if k == "del_cells":
            del self.space(op[1]).cells[op[2]]
            return "ok"
        if k == "rename_cells":
            self.space(op[1]).cells[op[2]].rename(op[3])
            return "ok"
        if k == "add_bases":
            self.space(op[1]).add_bases(*[self.space(b) for b in op[2]])
            return "ok"
        if k == "remove_bases":
            self.space(op[1]).remove_bases(*[self.space(b) for b in op[2]])
            return "ok"
        if k == "set_ref":
            s = self.space(op[1])
            v = self.refvalue(op[3])
            if len(op) > 4 and op[4] != "auto":
                s.set_ref(op[2], v, op[4])
            else:
                setattr(s, op[2], v)
            return "ok"
        if k == "del_ref":
            delattr(self.space(op[1]), op[2])
            return "ok"
        if k == "set_mref":
            setattr(m, op[1], self.refvalue(op[2]))
            return "ok"
        if k == "del_mref":
            delattr(m, op[1])
            return "ok"
        if k == "set_value":
            self.space(op[1]).cells[op[2]][op[3]] = op[4]
            return "ok"
        if k == "clear_at":
            self.space(op[1]).cells[op[2]].clear_at(op[3])
            return "ok"
        if k == "clear":
            self.space(op[1]).cells[op[2]].clear()
            return "ok"
        if k == "clear_all":
            self.space(op[1]).cells[op[2]].clear_all()
            return "ok"
        if k == "eval":
            v = self.space(op[1]).cells[op[2]](op[3])
            return "ok " + val_repr(v)
        if k == "new_cells_src":
            self.space(op[1]).new_cells(op[2], formula=op[3])
            return "ok"
        if k == "set_param":
            self.space(op[1]).formula = space_formula_src(op[2])
            return "ok"
        if k == "eval_item":
            v = self.space(op[1])[op[2]].cells[op[3]](op[4])
            return "ok " + val_repr(v)
        if k == "allow_none":
            self.space(op[1]).allow_none = op[2]
            return "ok"
        if k == "cur_space":
            # the SESSION's handle: ["cur_space", path, how]; how "mx" -> mx.cur_space(space object),
            # "parent" -> <model or parent space>.cur_space(name)
            if len(op) > 2 and op[2] == "parent":
                parent = m if "." not in op[1] else self.space(op[1].rsplit(".", 1)[0])
                parent.cur_space(op[1].rsplit(".", 1)[-1])
            else:
                mx.cur_space(self.space(op[1]))
            return "ok"
        if k == "cur_cells":
            # API use through the session's handle: ["cur_cells", name, formula tuple, how]
            #   "new_cells": mx.cur_space().new_cells(name, formula)   (nothing when there is no current space)
            #   "model":     the same through model.cur_space()
            #   "defcells":  mx.defcells(<function named `name`>) - acts on the current space of the current model,
            #                creating one when there is none
            how = op[3] if len(op) > 3 else "new_cells"
            if how == "defcells":
                mx.cur_model(m.name)
                c = mx.defcells(DEF_FUNCS[op[1]])
                return "ok " + rel(m, c)
            mx.cur_model(m.name)
            cur = mx.cur_space() if how == "new_cells" else m.cur_space()
            if cur is None:
                return "ok none"
            c = cur.new_cells(op[1], formula=formula_src(op[1], op[2]))
            return "ok " + rel(m, c)
        if k in ("new_cells_obj", "set_formula_obj", "set_param_obj", "new_space_obj"):
            return self._apply_obj(k, op)
        if k.startswith("batch_") or k == "copy_space":
            # one call that creates several members (batch_api: pandas / csv / module imports, Space.copy)
            from . import batch_api
            return batch_api.apply(self, k, op)
        return "bad-op"

    def _apply_obj(self, k, op):
        """a formula given as a Python OBJECT (formula_objs.OBJECTS[kind]) through every API that takes one:
          ["new_cells_obj", space, name, kind]           space.new_cells(name, formula=obj)
          ["set_formula_obj", space, cells, kind, how]   cells.formula = obj / cells.set_formula(obj) / @defcells(space, name)
          ["set_param_obj", space, kind, how]            space.formula = obj / space.set_formula(obj)
          ["new_space_obj", parent, name, bases, kind]   new_space(name, bases, formula=obj)"""
        from . import formula_objs as FO
        import warnings
        with warnings.catch_warnings():
            warnings.simplefilter("ignore")
            if k == "new_cells_obj":
                self.space(op[1]).new_cells(op[2], formula=FO.make(op[3]))
            elif k == "set_formula_obj":
                s = self.space(op[1])
                c = s.cells[op[2]]
                obj, how = FO.make(op[3]), op[4]
                if how == "attr":
                    c.formula = obj
                elif how == "method":
                    c.set_formula(obj)
                elif how == "defcells":
                    mx.defcells(space=s, name=op[2])(obj)
                else:
                    mx.defcells(space=s, name=op[2], is_cached=bool(c.is_cached))(obj)
            elif k == "set_param_obj":
                s = self.space(op[1])
                if op[3] == "attr":
                    s.formula = FO.make(op[2])
                else:
                    s.set_formula(FO.make(op[2]))
            else:
                parent = self.m if op[1] == "-" else self.space(op[1])
                parent.new_space(op[2], bases=[self.space(b) for b in op[3]] or None, formula=FO.make(op[4]))
        return "ok"

    def refvalue(self, v):
        """ints as they are; ('obj', path) denotes a space or cells of this model"""
        if isinstance(v, (tuple, list)) and v and v[0] == "obj":
            parts = v[1].split(".")
            obj = self.m
            for p in parts:
                obj = getattr(obj, p)
            return obj
        return v

    def close(self):
        try:
            self.m.close()
        except Exception:
            pass


def val_repr(v):
    if v is None:
        return "N"
    if isinstance(v, bool):
        return "B%d" % v
    if isinstance(v, int):
        return str(v)
    if hasattr(v, "_impl"):
        try:
            return "<%s>" % v.fullname.split(".", 1)[-1]
        except Exception:
            return "<dead>"
    return "?" + type(v).__name__


# ----------------------------------------------------------------------------- description

def all_spaces(model):
    out = []

    def walk(parent, prefix):
        for name, s in parent.spaces.items():
            path = prefix + name
            out.append((path, s))
            walk(s, path + ".")
    walk(model, "")
    return out


def rel(model, obj):
    return obj.fullname.split(".", 1)[1] if "." in obj.fullname else ""


def describe(model, with_values=True, with_items=False):
    """complete public description: per space its direct bases, linearisation, cells (derived flag,
    source, cached flag, allow_none, held values with input marks) and references (derived flag,
    value, mode); with_items: also the ItemSpaces a parametrised space holds (argument keys, the
    source of the space formula) - they are held results like the values of a cells"""
    d = {"mrefs": {}, "spaces": {}}
    for k, v in model.refs.items():
        if k.startswith("__"):
            continue
        d["mrefs"][k] = val_repr(v)
    for path, s in all_spaces(model):
        sd = {"direct_bases": [rel(model, b) for b in s._direct_bases],
              "bases": [rel(model, b) for b in s.bases],
              "cells": {}, "refs": {}, "children": sorted(s.spaces), "param": s.formula is not None}
        for cn, c in s.cells.items():
            cd = {"derived": bool(c._is_derived()), "src": c.formula.source if c.formula else None,
                  "cached": bool(c.is_cached), "allow_none": c.allow_none}
            if with_values:
                cd["values"] = sorted("%r=%s%s" % (k, val_repr(v), "I" if k in c._impl.input_keys else "C")
                                      for k, v in c._impl.data.items())
            sd["cells"][cn] = cd
        for rn in s._own_refs:
            r = s._impl.own_refs[rn]
            sd["refs"][rn] = {"derived": bool(r.is_derived()), "value": val_repr(r.interface),
                              "mode": r.refmode}
        if with_items:
            sd["items"] = sorted(repr(k) for k in s._impl.param_spaces)
            sd["param_src"] = getattr(s.formula, "source", None) if s.formula is not None else None
        d["spaces"][path] = sd
    return d


def definitions(model):
    """what the user defined: everything derivation from scratch starts from"""
    d = describe(model, with_values=False)
    out = {"mrefs": d["mrefs"], "spaces": {}}
    for path, sd in d["spaces"].items():
        out["spaces"][path] = {
            "direct_bases": sd["direct_bases"],
            "cells": {n: c for n, c in sd["cells"].items() if not c["derived"]},
            "refs": {n: r for n, r in sd["refs"].items() if not r["derived"]},
            "param": sd["param"],
        }
    return out


def struct_lines(defs):
    """definitions in the line protocol of the Lean `struct` driver"""
    lines = ["reset"]
    for path, sd in defs["spaces"].items():
        lines.append("space %s %s %s %s" % (
            path, ",".join(sd["direct_bases"]) or "-", ",".join(sd["cells"]) or "-", ",".join(sd["refs"]) or "-"))
    return lines


def python_c3(defs):
    """independent linearisation: Python's own C3 (type.__mro__) over classes mirroring the spaces"""
    classes = {}
    res = {}
    pending = dict(defs["spaces"])
    progress = True
    while pending and progress:
        progress = False
        for path, sd in list(pending.items()):
            if all(b in classes for b in sd["direct_bases"]):
                try:
                    classes[path] = type(path.replace(".", "_"), tuple(classes[b] for b in sd["direct_bases"]), {"_p": path})
                    res[path] = [c._p for c in classes[path].__mro__[:-1]]
                except TypeError:
                    classes[path] = type(path.replace(".", "_"), (), {"_p": path})
                    res[path] = None
                del pending[path]
                progress = True
    for path in pending:
        res[path] = None
    return res


def expected_members(defs, mros):
    """derivation from scratch in Python: per space {cells: name -> definer path, refs: ...}"""
    out = {}
    for path, sd in defs["spaces"].items():
        mro = mros.get(path)
        if mro is None:
            out[path] = None
            continue
        e = {"cells": {}, "refs": {}}
        for kind in ("cells", "refs"):
            for b in mro[1:]:
                for n in defs["spaces"][b][kind]:
                    if n not in sd[kind] and n not in e[kind]:
                        e[kind][n] = b
        out[path] = e
    return out
