"""The small translator: constants and decision tables read from /repo's *current* sources
with `ast` (never by importing a cached copy) and written to
lean/MxModel/Generated/Tables.lean, so that the theorems depending on them are re-checked
by `lake build` against what the code says now.

A pattern that no longer matches the source is reported (returned as a problem), which
starts the failing-input search rather than silently keeping an old table.
"""
import ast
import keyword
import os

from . import core

OUT = os.path.join(core.LEAN_DIR, "MxModel", "Generated", "Tables.lean")
BASELINE = os.path.join(core.LEAN_DIR, "MxModel", "Generated", "Tables.baseline")

_summary = {}


def _parse(rel):
    path = os.path.join(core.REPO, rel)
    return ast.parse(open(path).read(), filename=path)


def _lean_str_list(xs):
    return "[" + ", ".join('"%s"' % x for x in xs) + "]"


def _find_assign(tree, name):
    for node in ast.walk(tree):
        if isinstance(node, ast.Assign):
            for t in node.targets:
                if isinstance(t, ast.Name) and t.id == name:
                    return node.value
    return None


def _class(tree, name):
    for node in ast.walk(tree):
        if isinstance(node, ast.ClassDef) and node.name == name:
            return node
    return None


def _method(cls, name):
    for node in cls.body:
        if isinstance(node, ast.FunctionDef) and node.name == name:
            return node
    return None


def extract():
    """-> (dict of tables, list of problems)"""
    t, problems = {}, []

    t["pythonKeywords"] = list(keyword.kwlist)

    # serialize/__init__.py: DEFAULT_MAX_BACKUPS
    try:
        v = _find_assign(_parse("modelx/serialize/__init__.py"), "DEFAULT_MAX_BACKUPS")
        t["defaultMaxBackups"] = int(ast.literal_eval(v))
    except Exception as e:
        problems.append((["defaultMaxBackups"], "DEFAULT_MAX_BACKUPS not found in serialize/__init__.py: %r" % e))
        t["defaultMaxBackups"] = 0

    # system.py: CallStack.default_maxdepth for this interpreter (>= 3.12 branch)
    try:
        cls = _class(_parse("modelx/core/system.py"), "CallStack")
        val = None
        for node in cls.body:
            if isinstance(node, ast.If):
                for sub in node.body:
                    if isinstance(sub, ast.Assign) and sub.targets[0].id == "default_maxdepth":
                        val = int(ast.literal_eval(sub.value))
        if val is None:
            raise ValueError("pattern")
        t["defaultMaxdepth"] = val
    except Exception as e:
        problems.append((["defaultMaxdepth"], "CallStack.default_maxdepth not found: %r" % e))
        t["defaultMaxdepth"] = 0

    # serialize/serializer_6.py: selector class orders, tags, reader phases (C04)
    try:
        t.update(_serializer_tables(_parse("modelx/serialize/serializer_6.py"), problems))
    except Exception as e:
        problems.append((list(_SERIALIZER_KEYS), "serializer_6.py selector tables not found: %r" % e))
        for k in _SERIALIZER_KEYS:
            t.setdefault(k, [])

    # core/formula.py: _DOCSTR_ESCAPES (C04, C20)
    try:
        t["docstrEscapes"] = _docstr_escapes(_parse("modelx/core/formula.py"))
    except Exception as e:
        problems.append((["docstrEscapes"], "_DOCSTR_ESCAPES not found in core/formula.py: %r" % e))
        t["docstrEscapes"] = []

    # space.py: order of the namespace chain and of the reference chains (C12)
    try:
        t.update(_namespace_tables(_parse("modelx/core/space.py")))
    except Exception as e:
        problems.append((["namespaceOrder", "userRefsOrder", "dynRefsOrder"],
                         "space.py namespace chain orders not found: %r" % e))
        for k in ("namespaceOrder", "userRefsOrder", "dynRefsOrder"):
            t.setdefault(k, [])

    # ---- C15: export decision logic -------------------------------------------------
    t["pythonBuiltins"] = _transformer_builtins()
    for key, fn, dflt in (("exportCallLoop", _export_call_loop, []),
                          ("exportReplaceOrder", _export_replace_order, []),
                          ("exportDummyFor", _export_dummy_for, []),
                          ("mxNamespaceOrder", _mx_namespace_order, []),
                          ("mxDynRefsOrder", _mx_dyn_refs_order, []),
                          ("mxAllargsOrder", _mx_allargs_order, [])):
        try:
            t[key] = fn()
        except Exception as e:
            problems.append(([key], "%s: pattern not found: %r" % (key, e)))
            t[key] = dflt
    try:
        t["exportRefCopyRule"] = _export_ref_copy_rule()
    except Exception as e:
        problems.append((["exportRefCopyRule"], "exportRefCopyRule: pattern not found: %r" % e))
        t["exportRefCopyRule"] = []
    try:
        t.update(_export_builtin_params())
    except Exception as e:
        problems.append((["exportStaticFallbackFor", "exportStaticFallbackUnless"],
                         "exportStaticFallback: pattern not found: %r" % e))
        t.update({"exportStaticFallbackFor": [], "exportStaticFallbackUnless": []})
    try:
        t.update(_export_cache_methods())
    except Exception as e:
        problems.append((["exportCacheNoParam", "exportCacheParam"],
                         "exportCacheMethods: pattern not found: %r" % e))
        t.update({"exportCacheNoParam": [], "exportCacheParam": []})
    try:
        t.update(_export_ref_value())
    except Exception as e:
        problems.append((["exportRefValueOrder", "exportLiteralTypes", "exportLiteralTest"],
                         "exportRefValue: pattern not found: %r" % e))
        t.update({"exportRefValueOrder": [], "exportLiteralTypes": [], "exportLiteralTest": "unknown"})

    return t, problems


# ------------------------------------------------------------------------------------------
# C15: modelx/export (transformer.py, exporter.py) and the reference chains of space.py

def _transformer_builtins():
    """the table FormulaTransformer.__init__ builds: builtins minus dunder names"""
    import builtins
    return sorted(n for n in builtins.__dict__.keys() if n[:2] != '__' or n[-2:] != '__')


def _src_of(node):
    return ast.unparse(node)


def _export_call_loop():
    """statements of the `for` loop in the `__call__` of SpaceTranslator.itemspace_methods, in order"""
    cls = _class(_parse("modelx/export/exporter.py"), "SpaceTranslator")
    tmpl = None
    for node in cls.body:
        if isinstance(node, ast.Assign) and node.targets[0].id == "itemspace_methods":
            for sub in ast.walk(node.value):
                if isinstance(sub, ast.Constant) and isinstance(sub.value, str):
                    tmpl = sub.value
    import textwrap
    code = textwrap.dedent(tmpl).format(args="a", params="a", idx_args="a",
                                        param_copies="    pass", param_assigns="    pass")
    call = [n for n in ast.walk(ast.parse(code)) if isinstance(n, ast.FunctionDef) and n.name == "__call__"][0]
    loops = [n for n in ast.walk(call) if isinstance(n, ast.For) and "_mx_walk" in _src_of(n.iter)]
    if len(loops) != 1:
        raise ValueError("loop over _mx_walk not found")
    tags = []
    for st in loops[0].body:
        src = _src_of(st)
        if isinstance(st, ast.For) and "_mx_roots" in _src_of(st.iter) and "_mx_copy_params" in src:
            tags.append("copy_params")
        elif isinstance(st, ast.Expr) and "._mx_copy_refs(" in src:
            tags.append("copy_refs")
        elif isinstance(st, ast.Expr) and "._mx_assign_params(" in src:
            tags.append("assign_params")
        elif isinstance(st, ast.Expr) and "._mx_roots.extend(" in src:
            tags.append("roots_extend")
        elif isinstance(st, ast.Expr) and "._mx_roots.append(" in src:
            tags.append("roots_append")
        elif isinstance(st, ast.Assign) and isinstance(st.value, ast.Call) and \
                isinstance(st.value.func, ast.Attribute) and st.value.func.attr == "__next__" and \
                any(isinstance(a, ast.Assign) and _src_of(a.targets[0]) == _src_of(st.value.func.value)
                    and "_mx_walk()" in _src_of(a.value) for a in ast.walk(call)):
            continue        # the pairing of new and base spaces, written without the built-in `zip`
        else:
            raise ValueError("unknown statement in __call__ loop: " + src[:60])
    return tags


def cache_method_tokens(fn, name="x", key=None):
    """a generated cache method (ast.FunctionDef) as a program over the cache of ONE element:
         ["ifhas" | "ifnothas", op .., "else", op .., "end", op ..]
    (`has`: `self._has_<name>` for a cells without parameters; `<key> in self._v_<name>` for one with), ops:
         evalTmp    <local> = self._f_<name>(..)                 evalSlot   self._v_<name> = self._f_<name>()
         evalBoth   <local> = self._v_<name> = self._f_<name>()  evalItem   self._v_<name>[key] = self._f_<name>(..)
         setHas / clearHas   self._has_<name> = True / False
         storeTmp   self._v_<name> = <local>                     putTmp     self._v_<name>[key] = <local>
         retSlot    return self._v_<name>     retItem  return self._v_<name>[key]     retTmp   return <local>
    Anything else raises ValueError (the pattern no longer matches)."""
    has, slot, f = "self._has_" + name, "self._v_" + name, "self._f_" + name
    norm = lambda text: _src_of(ast.parse(text, mode="eval").body)       # noqa: E731
    item = None if key is None else norm("%s[%s]" % (slot, key))
    body = list(fn.body)
    if not body or not isinstance(body[0], ast.If):
        raise ValueError("cache method does not start with an if: " + _src_of(fn)[:80])
    test = _src_of(body[0].test)
    tests = {has: "ifhas", "not " + has: "ifnothas"} if key is None else \
        {norm("%s in %s" % (key, slot)): "ifhas", norm("%s not in %s" % (key, slot)): "ifnothas"}
    if test not in tests:
        raise ValueError("unknown test in cache method: " + test)
    local = None

    def is_call(node):
        return isinstance(node, ast.Call) and _src_of(node.func) == f

    def op(st):
        nonlocal local
        src = _src_of(st)
        if isinstance(st, ast.Return) and st.value is not None:
            v = _src_of(st.value)
            if v == slot and key is None:
                return "retSlot"
            if item is not None and v == item:
                return "retItem"
            if local is not None and v == local:
                return "retTmp"
        if isinstance(st, ast.Assign):
            tg = [_src_of(x) for x in st.targets]
            if is_call(st.value):
                if len(tg) == 1 and isinstance(st.targets[0], ast.Name):
                    local = tg[0]
                    return "evalTmp"
                if tg == [slot] and key is None:
                    return "evalSlot"
                if item is not None and tg == [item]:
                    return "evalItem"
                if len(tg) == 2 and isinstance(st.targets[0], ast.Name) and tg[1] == slot and key is None:
                    local = tg[0]
                    return "evalBoth"
            elif len(tg) == 1:
                v = _src_of(st.value)
                if tg[0] == has and v in ("True", "False") and key is None:
                    return "setHas" if v == "True" else "clearHas"
                if local is not None and v == local:
                    if tg[0] == slot and key is None:
                        return "storeTmp"
                    if item is not None and tg[0] == item:
                        return "putTmp"
        raise ValueError("unknown statement in cache method: " + src[:80])
    toks = [tests[test]] + [op(st) for st in body[0].body] + ["else"] + [op(st) for st in body[0].orelse]
    return toks + ["end"] + [op(st) for st in body[1:]]


def _export_cache_methods():
    """SpaceTranslator.cache_method_noparam / cache_method (exporter.py): the methods through which an exported
    package reads a cached cells.  -> exportCacheNoParam, exportCacheParam (see cache_method_tokens)"""
    import textwrap
    cls = _class(_parse("modelx/export/exporter.py"), "SpaceTranslator")
    tmpl = {}
    for node in cls.body:
        if isinstance(node, ast.Assign) and isinstance(node.targets[0], ast.Name) and \
                node.targets[0].id in ("cache_method_noparam", "cache_method"):
            for sub in ast.walk(node.value):
                if isinstance(sub, ast.Constant) and isinstance(sub.value, str):
                    tmpl[node.targets[0].id] = sub.value
    res = {}
    for attr, tname, kw, key in (("cache_method_noparam", "exportCacheNoParam", {}, None),
                                 ("cache_method", "exportCacheParam",
                                  {"params": "a, b", "args": "a, b", "idx_args": "(a, b)"}, "(a, b)")):
        code = textwrap.dedent(tmpl[attr]).format(name="x", **kw)
        fns = [n for n in ast.parse(code).body if isinstance(n, ast.FunctionDef)]
        if len(fns) != 1 or fns[0].name != "x":
            raise ValueError(attr + ": not one method")
        res[tname] = cache_method_tokens(fns[0], "x", key)
    return res


def _export_replace_order():
    """the tests under `if symbol.is_global():` in FormulaTransformer.should_replace, in order"""
    cls = _class(_parse("modelx/export/transformer.py"), "FormulaTransformer")
    fn = _method(cls, "should_replace")
    target = [n for n in ast.walk(fn) if isinstance(n, ast.If) and _src_of(n.test) == "symbol.is_global()"]
    if len(target) != 1:
        raise ValueError("if symbol.is_global() not found")
    tags = []

    def test_tag(test):
        src = _src_of(test)
        if src == "symbol_top":
            return "top"
        if src == "node.value in self.builtins":
            return "builtin"
        raise ValueError("unknown test " + src)

    def returns(body, what):
        return len(body) == 1 and isinstance(body[0], ast.Return) and _src_of(body[0].value) == what

    def walk(stmts):
        for st in stmts:
            if isinstance(st, ast.Assign):
                if _src_of(st) != "symbol_top = self.name_to_symbol[0].get(node.value, None)":
                    raise ValueError("unknown assignment " + _src_of(st))
            elif isinstance(st, ast.If):
                tag = test_tag(st.test)
                if tag == "top" and not returns(
                        st.body, "(symbol_top.is_global() or symbol_top.is_local()) and symbol_top.is_assigned()"):
                    raise ValueError("top branch changed")
                if tag == "builtin" and not returns(st.body, "False"):
                    raise ValueError("builtin branch changed")
                tags.append(tag)
                if st.orelse:
                    if len(st.orelse) == 1 and isinstance(st.orelse[0], ast.If):
                        walk(st.orelse)
                    elif returns(st.orelse, "True"):
                        tags.append("else")
                    else:
                        raise ValueError("unknown else branch")
            elif isinstance(st, ast.Return) and _src_of(st.value) == "True":
                tags.append("else")
            else:
                raise ValueError("unknown statement " + _src_of(st)[:60])
    walk(target[0].body)
    if not returns(target[0].orelse, "False"):
        raise ValueError("non-global branch changed")
    return tags


def _export_dummy_for():
    """containers for whose names SpaceTranslator._get_class_def emits `name = None` lines.
    Two shapes are known: one loop per container (`for k, v in space.refs.items(): … lines.append(k + ' = None')`),
    and - since fix 77f6b99 - a list `names` collected from `space.refs`, `space.spaces` and the `parameters` of
    the space and of the spaces it is in, emitted by one loop over `dict.fromkeys(names)`."""
    cls = _class(_parse("modelx/export/exporter.py"), "SpaceTranslator")
    fn = _method(cls, "_get_class_def")
    res = []
    collected = []       # containers that feed the list `names`
    params_walk = False
    for st in fn.body:
        src = _src_of(st)
        if isinstance(st, ast.Assign) and _src_of(st.targets[0]) == "names":
            m = [c for c in ("refs", "cells", "spaces") if src == "names = [k for k in space.%s if k[0] != '_']" % c]
            if not m:
                raise ValueError("unknown initial value of names: " + src)
            collected.append(m[0])
        elif isinstance(st, ast.Expr) and src.startswith("names.extend("):
            if src == "names.extend(params)":
                if not params_walk:
                    raise ValueError("names.extend(params) before the walk that collects params")
                collected.append("params")
                continue
            m = [c for c in ("refs", "cells", "spaces")
                 if src == "names.extend((k for k in space.%s if k[0] != '_'))" % c]
            if not m:
                raise ValueError("unknown extension of names: " + src)
            collected.append(m[0])
        elif isinstance(st, ast.While) and "names.extend" in src:
            ok = (_src_of(st.test) == "isinstance(parent, BaseSpace)"
                  and [_src_of(b) for b in st.body] ==
                  ["if parent.parameters:\n    names.extend(parent.parameters)", "parent = parent.parent"])
            if not ok:
                raise ValueError("unknown parameter walk: " + src)
            collected.append("params")
        elif isinstance(st, ast.While) and "params.extend" in src:
            # since fix 28e12dc the parameters are collected in a list of their own (`params`), which is then
            # appended to `names` (and also feeds the class-level fall-backs, see _export_builtin_params)
            ok = (_src_of(st.test) == "isinstance(parent, BaseSpace)"
                  and [_src_of(b) for b in st.body] ==
                  ["if parent.parameters:\n    params.extend(parent.parameters)", "parent = parent.parent"]
                  and any(_src_of(x) == "params = []" for x in fn.body))
            if not ok:
                raise ValueError("unknown parameter walk: " + src)
            params_walk = True
        elif isinstance(st, ast.For) and "lines.append(k + ' = None')" in src:
            it = _src_of(st.iter)
            if it == "dict.fromkeys(names)":
                if [_src_of(b) for b in st.body] != ["lines.append(k + ' = None')"]:
                    raise ValueError("unknown body of the dummy loop")
                res.extend(collected)
                continue
            m = [c for c in ("refs", "cells", "spaces") if it == "space.%s.items()" % c]
            if not m:
                raise ValueError("unknown container " + it)
            res.append(m[0])
    if not res:
        raise ValueError("no dummy assignment loop")
    return res


def _export_ref_copy_rule():
    """ParentTranslator.ref_copies: what the generated `_mx_copy_refs` does with a reference to a cells / space, by
    reference mode.  -> exportRefCopyRule: [(mode | "*", action)] in source order of the if/elif chain; mode "none" is
    `refmode is None` (model-level references), "*" an `else` branch that does something; action "base": the item
    gets the base's object (`self.k = base.k`), "inside": the item's counterpart iff the object lies in the base
    root (`... if base.k._mx_is_in(base_root) else base.k`).  An `else: raise` gives no entry."""
    cls = _class(_parse("modelx/export/exporter.py"), "ParentTranslator")
    fn = _method(cls, "ref_copies")
    outer = [n for n in ast.walk(fn) if isinstance(n, ast.If) and _src_of(n.test) == "isinstance(v, (Cells, BaseSpace))"]
    if len(outer) != 1:
        raise ValueError("the branch for cells / spaces was not found")
    chain = [n for n in outer[0].body if isinstance(n, ast.If)]
    if len(chain) != 1:
        raise ValueError("no single if-chain on refmode")

    def modes(test):
        if isinstance(test, ast.BoolOp) and isinstance(test.op, ast.Or):
            res = []
            for v in test.values:
                res += modes(v)
            return res
        src = _src_of(test)
        if src == "refmode is None":
            return ["none"]
        if isinstance(test, ast.Compare) and len(test.ops) == 1 and isinstance(test.ops[0], ast.Eq) and \
                _src_of(test.left) == "refmode" and isinstance(test.comparators[0], ast.Constant):
            return [test.comparators[0].value]
        raise ValueError("unknown test on refmode: " + src)

    def action(body):
        src = "\n".join(_src_of(b) for b in body)
        if len(body) == 1 and isinstance(body[0], ast.Raise):
            return None
        if "_mx_is_in(base_root)" in src and "result.append(" in src:
            return "inside"
        if src == "result.append(self_k + ' = ' + base_k)":
            return "base"
        raise ValueError("unknown action in ref_copies: " + src[:80])
    rule = []
    node = chain[0]
    while True:
        a = action(node.body)
        for md in modes(node.test):
            if a:
                rule.append((md, a))
        if len(node.orelse) == 1 and isinstance(node.orelse[0], ast.If):
            node = node.orelse[0]
            continue
        if node.orelse:
            a = action(node.orelse)
            if a:
                rule.append(("*", a))
        break
    return rule


def _export_builtin_params():
    """the class-level fall-backs of SpaceTranslator._get_class_def (fix 28e12dc): one line `k = k` in the class
    body - the class attribute is bound to the BUILT-IN of the name - for every name of `exportStaticFallbackFor`
    that is a built-in and is in none of the containers `exportStaticFallbackUnless`.  Before the fix: no such
    statement, both tables empty."""
    cls = _class(_parse("modelx/export/exporter.py"), "SpaceTranslator")
    fn = _method(cls, "_get_class_def")
    st = [x for x in fn.body if isinstance(x, ast.Assign) and _src_of(x.targets[0]) == "builtin_params"]
    if not st:
        if "builtin_params" in _src_of(fn):
            raise ValueError("builtin_params is used but not assigned by one statement")
        return {"exportStaticFallbackFor": [], "exportStaticFallbackUnless": []}
    if len(st) != 1 or not isinstance(st[0].value, ast.ListComp):
        raise ValueError("unknown form of builtin_params")
    lc = st[0].value
    if _src_of(lc.elt) != "k + ' = ' + k" or len(lc.generators) != 1:
        raise ValueError("unknown element of builtin_params: " + _src_of(lc.elt))
    gen = lc.generators[0]
    if _src_of(gen.target) != "k" or _src_of(gen.iter) != "dict.fromkeys(params)" or len(gen.ifs) != 1:
        raise ValueError("unknown source of builtin_params: " + _src_of(gen.iter))
    test = gen.ifs[0]
    if not (isinstance(test, ast.BoolOp) and isinstance(test.op, ast.And)) or \
            _src_of(test.values[0]) != "hasattr(builtins, k)":
        raise ValueError("unknown test of builtin_params: " + _src_of(test))
    unless = []
    for v in test.values[1:]:
        m = [c for c in ("cells", "refs", "spaces") if _src_of(v) == "k not in space.%s" % c]
        if not m:
            raise ValueError("unknown exclusion in builtin_params: " + _src_of(v))
        unless.append(m[0])
    # the lines must reach the class body: a placeholder of that name in the class template, before `__init__`
    tmpl = None
    for node in cls.body:
        if isinstance(node, ast.Assign) and _src_of(node.targets[0]) == "class_template":
            for sub in ast.walk(node.value):
                if isinstance(sub, ast.Constant) and isinstance(sub.value, str):
                    tmpl = sub.value
    if not tmpl or "{builtin_params}" not in tmpl or \
            not (tmpl.index("class _c_{name}") < tmpl.index("{builtin_params}") < tmpl.index("def __init__")):
        raise ValueError("builtin_params does not reach the class body")
    return {"exportStaticFallbackFor": ["params"], "exportStaticFallbackUnless": unless}


_FINITE_GUARD = " and (not (type(value) is float and (not math.isfinite(value))))"


def _literal_test(src):
    """the test of the literal branch of ref_value -> "exact" | "isinstance", with "-finite" appended when the
    floats that are not finite are excluded (since fix 3bae90c: their repr is a name and they are pickled)"""
    suffix = ""
    if src.endswith(_FINITE_GUARD):
        src, suffix = src[:-len(_FINITE_GUARD)], "-finite"
    if src in ("any((type(value) is t for t in literal_types))", "type(value) in literal_types"):
        return "exact" + suffix
    if src in ("isinstance(value, literal_types)", "isinstance(value, tuple(literal_types))",
               "any((isinstance(value, t) for t in literal_types))"):
        return "isinstance" + suffix
    return None


def _export_ref_value():
    """ParentTranslator.ref_value (exporter.py): how a reference value is written.
    -> exportRefValueOrder: the branches of the if/elif chain in source order
         ("interface": a modelx object -> relative attribute path, "literal": pprint.pformat,
          "module": import_module, "data": IO data or the pickled dict);
       exportLiteralTypes: the types written as source literals;
       exportLiteralTest: how membership is tested - "exact" (`type(value) is t` / `type(value) in`)
         or "isinstance" (which also admits instances of subclasses)."""
    cls = _class(_parse("modelx/export/exporter.py"), "ParentTranslator")
    fn = _method(cls, "ref_value")
    lits = None
    chain = None
    for st in fn.body:
        if isinstance(st, ast.Assign) and len(st.targets) == 1 and _src_of(st.targets[0]) == "literal_types":
            if not isinstance(st.value, (ast.List, ast.Tuple)):
                raise ValueError("literal_types is not a list/tuple display")
            lits = []
            for e in st.value.elts:
                src = _src_of(e)
                if isinstance(e, ast.Name):
                    lits.append(e.id)
                elif src == "type(None)":
                    lits.append("NoneType")
                else:
                    raise ValueError("unknown literal type " + src)
        elif isinstance(st, ast.If):
            if chain is not None:
                raise ValueError("more than one if statement")
            chain = st
        elif isinstance(st, ast.Expr) and isinstance(st.value, ast.Constant):
            pass
        else:
            raise ValueError("unknown statement " + _src_of(st)[:60])
    if lits is None or chain is None:
        raise ValueError("literal_types / if chain not found")

    def ret(body):
        if len(body) == 1 and isinstance(body[0], ast.Return):
            return _src_of(body[0].value)
        return None
    order, test = [], None
    node = chain
    while True:
        src = _src_of(node.test)
        if src == "isinstance(value, Interface)":
            inner = node.body
            ok = (len(inner) == 1 and isinstance(inner[0], ast.If) and _src_of(inner[0].test) == "value._is_valid()"
                  and ret(inner[0].orelse) == "'None'" and isinstance(inner[0].body[-1], ast.Return)
                  and _src_of(inner[0].body[-1].value) == "'.'.join(attrs)")
            if not ok:
                raise ValueError("interface branch changed")
            order.append("interface")
        elif _literal_test(src) is not None:
            test = _literal_test(src)
            order.append("literal")
        elif src == "isinstance(value, types.ModuleType) and value in sys.modules.values()":
            if ret(node.body) != "\"_mx_sys.import_module('\" + value.__name__ + \"')\"":
                raise ValueError("module branch changed: %r" % ret(node.body))
            order.append("module")
        else:
            raise ValueError("unknown test " + src[:80])
        if order[-1] == "literal" and ret(node.body) != "pprint.pformat(value)":
            raise ValueError("literal branch changed")
        if len(node.orelse) == 1 and isinstance(node.orelse[0], ast.If):
            node = node.orelse[0]
            continue
        if ret(node.orelse) != "self.io_manager.get_code(value)":
            raise ValueError("else branch changed")
        order.append("data")
        break
    if test is None:
        raise ValueError("no literal branch")
    return {"exportRefValueOrder": order, "exportLiteralTypes": lits, "exportLiteralTest": test}


def _chain_elems(call):
    """the list literal among the arguments of an ImplChainMap/RefChainMap call"""
    for a in list(call.args) + [k.value for k in call.keywords]:
        if isinstance(a, ast.List):
            return a.elts
    raise ValueError("no list argument")


def _mx_namespace_order():
    tree = _parse("modelx/core/space.py")
    cls = _class(tree, "BaseSpaceImpl")
    for node in ast.walk(cls):
        if isinstance(node, ast.Call) and _src_of(node.func) == "ImplChainMap" and node.args \
                and isinstance(node.args[0], ast.Constant) and node.args[0].value == "namespace":
            ids = [k.value for k in node.keywords if k.arg == "map_ids"][0]
            names = [e.value for e in ids.elts]
            elems = [_src_of(e) for e in _chain_elems(node)]
            want = {"cells": "self._cells", "refs": "self._refs", "spaces": "self._named_spaces"}
            if elems != [want[n] for n in names]:
                raise ValueError("namespace maps and map_ids differ: %s %s" % (elems, names))
            return names
    raise ValueError("namespace ImplChainMap not found")


def _mx_dyn_refs_order():
    cls = _class(_parse("modelx/core/space.py"), "DynamicSpaceImpl")
    fn = _method(cls, "_init_refs")
    ret = [n for n in ast.walk(fn) if isinstance(n, ast.Return)][0]
    names = {"*self._allargs.maps": "allargs", "self._own_refs": "own_refs", "self._sys_refs": "sys_refs",
             "self._dynbase_refs": "dynbase_refs", "self.model._global_refs": "global_refs"}
    return [names[_src_of(e)] for e in _chain_elems(ret.value)]


def _mx_allargs_order():
    cls = _class(_parse("modelx/core/space.py"), "DynamicSpaceImpl")
    fn = _method(cls, "_init_allargs")
    for node in ast.walk(fn):
        if isinstance(node, ast.If) and "ItemSpaceImpl" in _src_of(node.test):
            lst = node.body[0].value
            names = {"self._arguments": "own", "*self.parent._allargs.maps": "parent"}
            return [names[_src_of(e)] for e in lst.elts]
    raise ValueError("ItemSpaceImpl branch not found")


def _attr_name(e):
    """self._own_refs -> own_refs ; self.model._global_refs -> global_refs ; *self._allargs.maps -> allargs"""
    if isinstance(e, ast.Starred):
        e = e.value
        if isinstance(e, ast.Attribute) and e.attr == "maps":
            e = e.value
    if isinstance(e, ast.Attribute):
        return e.attr.lstrip("_")
    raise ValueError(ast.dump(e))


def _namespace_tables(tree):
    t = {}
    base = _class(tree, "BaseSpaceImpl")
    init = _method(base, "__init__")
    order = None
    for node in ast.walk(init):
        if isinstance(node, ast.Call) and getattr(node.func, "id", "") == "ImplChainMap":
            for kw in node.keywords:
                if kw.arg == "map_ids":
                    order = [e.value for e in kw.value.elts]
                    maps = [_attr_name(e) for e in node.args[3].elts]
                    if maps != [{"cells": "cells", "refs": "refs", "spaces": "named_spaces"}[o] for o in order]:
                        raise ValueError("namespace maps %s do not match map_ids %s" % (maps, order))
    if order is None:
        raise ValueError("namespace ImplChainMap not found")
    t["namespaceOrder"] = order

    def refs_order(clsname):
        m = _method(_class(tree, clsname), "_init_refs")
        for node in ast.walk(m):
            if isinstance(node, ast.Call) and getattr(node.func, "id", "") in ("RefChainMap", "ImplChainMap") \
                    and node.args and isinstance(node.args[0], ast.Constant) and node.args[0].value == "refs":
                return [_attr_name(e) for e in node.args[3].elts]
        raise ValueError(clsname + "._init_refs")
    t["userRefsOrder"] = refs_order("UserSpaceImpl")
    t["dynRefsOrder"] = refs_order("DynamicSpaceImpl")
    return t


_SERIALIZER_KEYS = ("encoderClasses", "decoderClasses", "parserClasses", "literalTypes", "unconditionalClasses", "instructionMethods",
                    "atParseMethods", "encoderTags", "decoderTags", "decoderCompatTags", "encoderConditions",
                    "decoderConditions", "readerPhases", "readerSteps")


def _docstr_escapes(tree):
    """the dict literal `_DOCSTR_ESCAPES` of formula.py as [(code point, [code points of the replacement])]"""
    v = _find_assign(tree, "_DOCSTR_ESCAPES")
    if not isinstance(v, ast.Dict):
        raise ValueError("_DOCSTR_ESCAPES is not a dict display")
    res = []
    for k, val in zip(v.keys, v.values):
        if not (isinstance(k, ast.Constant) and isinstance(k.value, str) and len(k.value) == 1
                and isinstance(val, ast.Constant) and isinstance(val.value, str)):
            raise ValueError("unknown entry " + ast.unparse(k))
        res.append((ord(k.value), [ord(c) for c in val.value]))
    if not res:
        raise ValueError("empty table")
    return res


def _condition_source(tree, name):
    """normalised source text (ast.unparse, docstring dropped) of the `condition` classmethod that class `name`
    uses: its own, or the one of the first base class (in this file) that defines one"""
    seen = set()
    while name and name not in seen:
        seen.add(name)
        cls = _class(tree, name)
        if cls is None:
            break
        m = _method(cls, "condition")
        if m is not None:
            if [ast.unparse(d) for d in m.decorator_list] != ["classmethod"]:
                raise ValueError("%s.condition is not a plain classmethod" % name)
            body = [b for b in m.body if not (isinstance(b, ast.Expr) and isinstance(b.value, ast.Constant)
                                              and isinstance(b.value.value, str))]
            return "(%s) %s" % (", ".join(a.arg for a in m.args.args), "; ".join(
                ast.unparse(b).replace("\n", " ") for b in body))
        name = next((getattr(b, "id", None) for b in cls.bases if getattr(b, "id", None)), None)
    raise ValueError("no condition found for " + str(name))


def _encoder_tag(name, m):
    """the tag written as the first element of the tuple text that `encode()` returns; "" when every return
    value is the bare text of a literal (`str(...)` / `json.dumps(...)`).  Anything else is not understood."""
    import re
    kinds = set()
    for node in ast.walk(m):
        if not isinstance(node, ast.Return):
            continue
        v = node.value
        fmt = None
        if isinstance(v, ast.BinOp) and isinstance(v.op, ast.Mod) and isinstance(v.left, ast.Constant) \
                and isinstance(v.left.value, str):
            fmt = v.left.value
        elif isinstance(v, ast.Constant) and isinstance(v.value, str):
            fmt = v.value
        if fmt is not None:
            mm = re.match(r'\(\"(\w+)\", ', fmt)
            if not mm:
                raise ValueError("encoder %s returns a text that does not start with a tag: %r" % (name, fmt))
            kinds.add(mm.group(1))
        elif isinstance(v, ast.Call) and ast.unparse(v.func) in ("str", "json.dumps"):
            kinds.add("")
        else:
            raise ValueError("encoder %s: return value not understood: %s" % (name, ast.unparse(v)[:60]))
    if len(kinds) != 1:
        raise ValueError("encoder %s writes %s" % (name, sorted(kinds) or "nothing"))
    return kinds.pop()


def _class_list(tree, clsname, attr):
    cls = _class(tree, clsname)
    for node in cls.body:
        if isinstance(node, ast.Assign) and node.targets[0].id == attr:
            return [getattr(e, "id", None) or ast.unparse(e) for e in node.value.elts]
    raise ValueError("%s.%s" % (clsname, attr))


def _serializer_tables(tree, problems):
    import re
    t = {}
    t["encoderClasses"] = _class_list(tree, "EncoderSelector", "classes")
    decoder_classes = _class_list(tree, "DecoderSelector", "classes")
    # the selection orders of the reader: the statement-level reader model (Kernels/SerialRead.lean) dispatches over them
    t["decoderClasses"] = decoder_classes
    t["parserClasses"] = _class_list(tree, "ParserSelector", "classes")
    t["literalTypes"] = _class_list(tree, "LiteralEncoder", "literal_types")

    # the `condition` of every selector class, as normalised source text
    t["encoderConditions"] = [(n, _condition_source(tree, n)) for n in t["encoderClasses"]]
    t["decoderConditions"] = [(n, _condition_source(tree, n)) for n in decoder_classes]

    # classes whose `condition` is `return True`
    t["unconditionalClasses"] = [n for n, c in t["encoderConditions"] + t["decoderConditions"]
                                 if c.split(") ", 1)[1] == "return True"]

    # tag an encoder writes as the first element of its tuple text; "" = the bare text of a literal
    t["encoderTags"] = []
    for name in t["encoderClasses"]:
        try:
            t["encoderTags"].append((name, _encoder_tag(name, _method(_class(tree, name), "encode"))))
        except ValueError as e:
            # no answer is better than a wrong one: the class is left out of the table (the theorems over
            # `encoderTags` then speak about fewer classes) and the table is reported as not extracted
            problems.append((["encoderTags"], str(e)))

    # tag a decoder accepts: DECTYPE class attribute ("" = none), and DECTYPE_COMPAT
    dec_tags, compat = [], []
    for name in decoder_classes:
        tag = ""
        for node in _class(tree, name).body:
            if isinstance(node, ast.Assign) and node.targets[0].id == "DECTYPE":
                tag = node.value.value
            if isinstance(node, ast.Assign) and node.targets[0].id == "DECTYPE_COMPAT":
                compat.append((name, node.value.value))
        dec_tags.append((name, tag))
    t["decoderTags"] = dec_tags
    t["decoderCompatTags"] = compat

    # phases of ModelReader._read_model_inner
    phases = []
    for node in ast.walk(_method(_class(tree, "ModelReader"), "_read_model_inner")):
        if (isinstance(node, ast.Call) and isinstance(node.func, ast.Attribute)
                and node.func.attr == "execute_selected_methods"):
            phases.append((node.lineno, [e.value for e in node.args[0].elts]))
    t["readerPhases"] = [p for _, p in sorted(phases)]
    if not t["readerPhases"]:
        raise ValueError("no execute_selected_methods call")

    # every statement of _read_model_inner, in order: ("phase", i) for the i-th execute_selected_methods call,
    # (<name>, 0) for any other `[x =] self.<name>()`, ("return", 0) - anything else is not understood
    steps, k = [], 0
    for st in _method(_class(tree, "ModelReader"), "_read_model_inner").body:
        v = st.value if isinstance(st, (ast.Expr, ast.Assign)) else None
        if isinstance(st, ast.Return) and isinstance(st.value, ast.Name):
            steps.append(("return", 0))
        elif isinstance(v, ast.Call) and isinstance(v.func, ast.Attribute) and v.func.attr == "execute_selected_methods" \
                and ast.unparse(v.func.value) == "self.instructions":
            steps.append(("phase", k))
            k += 1
        elif isinstance(v, ast.Call) and isinstance(v.func, ast.Attribute) and ast.unparse(v.func.value) == "self" \
                and not v.args and not v.keywords:
            steps.append((v.func.attr, 0))
        else:
            raise ValueError("_read_model_inner: statement not understood: " + ast.unparse(st)[:60])
    if k != len(t["readerPhases"]):
        raise ValueError("_read_model_inner: execute_selected_methods is also called inside another statement")
    t["readerSteps"] = steps

    # names under which parsers file their instructions (Instruction.func.__name__)
    methods, at_parse = [], []
    for cls in [n for n in tree.body if isinstance(n, ast.ClassDef)]:
        bases = [getattr(b, "id", "") for b in cls.bases]
        is_parser = cls.name.endswith("Parser") or cls.name in ("ModelReader", "CellsInputDataMixin")
        if not is_parser:
            continue
        found = []
        consts = {}
        for node in ast.walk(cls):
            if isinstance(node, ast.Assign) and len(node.targets) == 1 and isinstance(node.targets[0], ast.Name) \
                    and isinstance(node.value, ast.Constant) and isinstance(node.value.value, str):
                consts.setdefault(node.targets[0].id, []).append(node.value.value)
        for node in ast.walk(cls):
            if not isinstance(node, ast.Call):
                continue
            f = node.func
            if isinstance(f, ast.Attribute) and f.attr == "from_method" and getattr(f.value, "id", "") == "Instruction":
                kw = {k.arg: k.value for k in node.keywords}
                mv = kw.get("method")
                if isinstance(mv, ast.Constant):
                    if mv.value == "fset" and isinstance(kw.get("obj"), ast.Attribute):
                        found.append(kw["obj"].attr)      # property setter: __name__ is the property's name
                    else:
                        found.append(mv.value)
                elif isinstance(mv, ast.Name):
                    found.extend(consts.get(mv.id, []))
                elif isinstance(mv, ast.Attribute) and mv.attr == "METHOD":
                    pass    # resolved through the subclasses' METHOD constants below
                else:
                    raise ValueError("unrecognised method= in %s" % cls.name)
            elif getattr(f, "id", "") == "Instruction" and node.args and isinstance(node.args[0], ast.Attribute):
                found.append(node.args[0].attr)
        found.extend(consts.get("METHOD", []))
        prio = [n for n in cls.body if isinstance(n, ast.Assign) and n.targets[0].id == "default_priority"]
        if prio and ast.unparse(prio[0].value).endswith("AT_PARSE"):
            at_parse.extend(found)
        else:
            methods.extend(found)
    t["instructionMethods"] = sorted(set(methods))
    t["atParseMethods"] = sorted(set(at_parse))
    if not t["instructionMethods"]:
        raise ValueError("no instruction found")
    return t


def _lean_str(x):
    return '"' + x.replace("\\", "\\\\").replace('"', '\\"').replace("\n", "\\n") + '"'


def _lean_pair_list(xs):
    return "[" + ", ".join("(%s, %s)" % (_lean_str(a), _lean_str(b)) for a, b in xs) + "]"


def render(t):
    lines = [
        "/-! GENERATED by harness/mxh/tables.py from /repo and the running interpreter – do not edit. -/",
        "namespace MxModel.Generated",
        "def pythonKeywords : List String := " + _lean_str_list(t["pythonKeywords"]),
        "def defaultMaxBackups : Nat := %d" % t["defaultMaxBackups"],
        "def defaultMaxdepth : Nat := %d" % t["defaultMaxdepth"],
        "/-- space.py: the maps of a space's namespace, first match wins -/",
        "def namespaceOrder : List String := " + _lean_str_list(t["namespaceOrder"]),
        "/-- UserSpaceImpl._init_refs: the maps of `refs`, first match wins -/",
        "def userRefsOrder : List String := " + _lean_str_list(t["userRefsOrder"]),
        "/-- DynamicSpaceImpl._init_refs -/",
        "def dynRefsOrder : List String := " + _lean_str_list(t["dynRefsOrder"]),
        "/-- serializer_6.py: EncoderSelector.classes, in selection order -/",
        "def encoderClasses : List String := " + _lean_str_list(t["encoderClasses"]),
        "/-- DecoderSelector.classes / ParserSelector.classes, in selection order (used by the reader model) -/",
        "def decoderClasses : List String := " + _lean_str_list(t["decoderClasses"]),
        "def parserClasses : List String := " + _lean_str_list(t["parserClasses"]),
        "/-- LiteralEncoder.literal_types -/",
        "def literalTypes : List String := " + _lean_str_list(t["literalTypes"]),
        "/-- selector classes whose `condition` is `return True` -/",
        "def unconditionalClasses : List String := " + _lean_str_list(t["unconditionalClasses"]),
        "/-- (encoder class, tag it writes as first tuple element; \"\" = a bare literal) -/",
        "def encoderTags : List (String × String) := " + _lean_pair_list(t["encoderTags"]),
        "/-- DecoderSelector.classes in selection order: (decoder class, DECTYPE it accepts; \"\" = none) -/",
        "def decoderTags : List (String × String) := " + _lean_pair_list(t["decoderTags"]),
        "/-- (decoder class, DECTYPE_COMPAT: a second tag it accepts, written by older versions) -/",
        "def decoderCompatTags : List (String × String) := " + _lean_pair_list(t["decoderCompatTags"]),
        "/-- (encoder class, `(parameters) body` of the `condition` it uses, normalised with ast.unparse) -/",
        "def encoderConditions : List (String × String) := " + _lean_pair_list(t["encoderConditions"]),
        "/-- the same for the decoder classes (an inherited `condition` is listed for the inheriting class) -/",
        "def decoderConditions : List (String × String) := " + _lean_pair_list(t["decoderConditions"]),
        "/-- the statements of ModelReader._read_model_inner in order: (\"phase\", i) = the i-th call of",
        "execute_selected_methods, (name, 0) = `self.name()`, (\"return\", 0) -/",
        "def readerSteps : List (String × Nat) := [" + ", ".join(
            "(%s, %d)" % (_lean_str(a), b) for a, b in t["readerSteps"]) + "]",
        "/-- core/formula.py _DOCSTR_ESCAPES: (code point, code points of the replacement text) -/",
        "def docstrEscapes : List (Nat × List Nat) := [" + ", ".join(
            "(%d, [%s])" % (k, ", ".join(str(c) for c in v)) for k, v in t["docstrEscapes"]) + "]",
        "/-- ModelReader._read_model_inner: the method names executed, phase by phase -/",
        "def readerPhases : List (List String) := [" + ", ".join(_lean_str_list(p) for p in t["readerPhases"]) + "]",
        "/-- names under which the parsers file deferred instructions -/",
        "def instructionMethods : List String := " + _lean_str_list(t["instructionMethods"]),
        "/-- instructions executed while parsing (PriorityID.AT_PARSE) -/",
        "def atParseMethods : List String := " + _lean_str_list(t["atParseMethods"]),
        "def pythonBuiltins : List String := " + _lean_str_list(t["pythonBuiltins"]),
        "def exportCallLoop : List String := " + _lean_str_list(t["exportCallLoop"]),
        "def exportReplaceOrder : List String := " + _lean_str_list(t["exportReplaceOrder"]),
        "def exportDummyFor : List String := " + _lean_str_list(t["exportDummyFor"]),
        "def exportRefCopyRule : List (String × String) := [" + ", ".join(
            '("%s", "%s")' % (a, b) for a, b in t["exportRefCopyRule"]) + "]",
        "def exportStaticFallbackFor : List String := " + _lean_str_list(t["exportStaticFallbackFor"]),
        "def exportStaticFallbackUnless : List String := " + _lean_str_list(t["exportStaticFallbackUnless"]),
        "/-- exporter.py SpaceTranslator.cache_method_noparam / cache_method as programs (tables.cache_method_tokens) -/",
        "def exportCacheNoParam : List String := " + _lean_str_list(t["exportCacheNoParam"]),
        "def exportCacheParam : List String := " + _lean_str_list(t["exportCacheParam"]),
        "def mxNamespaceOrder : List String := " + _lean_str_list(t["mxNamespaceOrder"]),
        "def mxDynRefsOrder : List String := " + _lean_str_list(t["mxDynRefsOrder"]),
        "def mxAllargsOrder : List String := " + _lean_str_list(t["mxAllargsOrder"]),
        "/-- exporter.py ParentTranslator.ref_value: branches in source order -/",
        "def exportRefValueOrder : List String := " + _lean_str_list(t["exportRefValueOrder"]),
        "/-- the types whose instances are written as source literals -/",
        "def exportLiteralTypes : List String := " + _lean_str_list(t["exportLiteralTypes"]),
        "/-- how membership in them is tested: \"exact\" (type(value) is t) or \"isinstance\" -/",
        "def exportLiteralTest : String := \"%s\"" % t["exportLiteralTest"],
        "end MxModel.Generated",
        "",
    ]
    return "\n".join(lines)


_DRIVER_FILES = {"registry": "Registry", "exec": "Exec", "items": "ItemSpace", "relative": "Relative",
                 "relhist": "RelHist",
                 "export": "Export", "codec": "Codec", "iospec": "IOSpec", "iosession": "IOSession", "capture": "Capture",
                 "backup": "Backup", "calcsteps": "CalcSteps", "struct": "Struct", "smech": "SMech",
                 "serial": "Serial", "edit": "Edit"}


def _import_closure(start_files):
    """transitive `import MxModel.…` / `import Driver.…` closure of Lean files (paths relative to lean/)"""
    import re
    seen, todo = set(), list(start_files)
    while todo:
        f = todo.pop()
        if f in seen:
            continue
        path = os.path.join(core.LEAN_DIR, f)
        if not os.path.exists(path):
            continue
        seen.add(f)
        for m in re.finditer(r"^import\s+((?:MxModel|Driver)[\w.]*)", open(path).read(), re.M):
            todo.append(m.group(1).replace(".", "/") + ".lean")
    return seen


def keys_used_by(prop, layers):
    """the table names that the property's theorems (transitively) and the driver layers its check
    talked to refer to - a table whose extraction failed matters to a property only if it is among them"""
    import re
    files = _import_closure(["MxModel/Props/%s.lean" % prop] +
                            ["Driver/%s.lean" % _DRIVER_FILES[l] for l in layers if l in _DRIVER_FILES])
    unknown = [l for l in layers if l not in _DRIVER_FILES]
    words = set()
    for f in files:
        if f.endswith("Generated/Tables.lean"):
            continue
        words.update(re.findall(r"[A-Za-z_][A-Za-z0-9_']*", open(os.path.join(core.LEAN_DIR, f)).read()))
    return words, unknown


def problems_for(prop, layers):
    """-> (problems that concern `prop`, problems elsewhere)"""
    words, unknown = keys_used_by(prop, layers)
    mine, other = [], []
    for keys, msg in _summary.get("raw_problems", []):
        (mine if (unknown or any(k in words for k in keys)) else other).append("table extraction: " + msg)
    return mine, other


def regenerate():
    global _summary
    t, problems = extract()
    text = render(t)
    old = open(OUT).read() if os.path.exists(OUT) else None
    if old != text:
        os.makedirs(os.path.dirname(OUT), exist_ok=True)
        open(OUT, "w").write(text)
    _summary = {k: (v if not isinstance(v, list) else len(v)) for k, v in t.items()}
    _summary["problems"] = [m for _, m in problems]
    _summary["raw_problems"] = problems
    _summary["differs_from_baseline"] = not is_pristine()
    return ["table extraction: " + m for _, m in problems]


def is_pristine():
    if not (os.path.exists(OUT) and os.path.exists(BASELINE)):
        return True
    return open(OUT).read() == open(BASELINE).read()


def summary():
    return _summary


if __name__ == "__main__":
    print(regenerate())
    print(summary())
