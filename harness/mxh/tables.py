"""The small translator: constants and decision tables read from /repo's *current* sources
with `ast` (never by importing a cached copy) and written to
lean/MxModel/Generated/Tables.lean, so that the theorems depending on them are re-checked
by `lake build` against what the code says now.

A pattern that no longer matches the source is reported (returned as a problem), which
starts the failing-input search rather than silently keeping an old table.
"""
import ast
import keyword
import os

from . import core

OUT = os.path.join(core.LEAN_DIR, "MxModel", "Generated", "Tables.lean")
BASELINE = os.path.join(core.LEAN_DIR, "MxModel", "Generated", "Tables.baseline")

_summary = {}


def _parse(rel):
    path = os.path.join(core.REPO, rel)
    return ast.parse(open(path).read(), filename=path)


def _lean_str_list(xs):
    return "[" + ", ".join('"%s"' % x for x in xs) + "]"


def _find_assign(tree, name):
    for node in ast.walk(tree):
        if isinstance(node, ast.Assign):
            for t in node.targets:
                if isinstance(t, ast.Name) and t.id == name:
                    return node.value
    return None


def _class(tree, name):
    for node in ast.walk(tree):
        if isinstance(node, ast.ClassDef) and node.name == name:
            return node
    return None


def _method(cls, name):
    for node in cls.body:
        if isinstance(node, ast.FunctionDef) and node.name == name:
            return node
    return None


def extract():
    """-> (dict of tables, list of problems)"""
    t, problems = {}, []

    t["pythonKeywords"] = list(keyword.kwlist)

    # serialize/__init__.py: DEFAULT_MAX_BACKUPS
    try:
        v = _find_assign(_parse("modelx/serialize/__init__.py"), "DEFAULT_MAX_BACKUPS")
        t["defaultMaxBackups"] = int(ast.literal_eval(v))
    except Exception as e:
        problems.append("DEFAULT_MAX_BACKUPS not found in serialize/__init__.py: %r" % e)
        t["defaultMaxBackups"] = 0

    # system.py: CallStack.default_maxdepth for this interpreter (>= 3.12 branch)
    try:
        cls = _class(_parse("modelx/core/system.py"), "CallStack")
        val = None
        for node in cls.body:
            if isinstance(node, ast.If):
                for sub in node.body:
                    if isinstance(sub, ast.Assign) and sub.targets[0].id == "default_maxdepth":
                        val = int(ast.literal_eval(sub.value))
        if val is None:
            raise ValueError("pattern")
        t["defaultMaxdepth"] = val
    except Exception as e:
        problems.append("CallStack.default_maxdepth not found: %r" % e)
        t["defaultMaxdepth"] = 0

    # serialize/serializer_6.py: selector class orders, tags, reader phases (C04)
    try:
        t.update(_serializer_tables(_parse("modelx/serialize/serializer_6.py")))
    except Exception as e:
        problems.append("serializer_6.py selector tables not found: %r" % e)
        for k in ("encoderClasses", "decoderClasses", "parserClasses", "literalTypes", "unconditionalClasses",
                  "instructionMethods", "atParseMethods"):
            t.setdefault(k, [])
        t.setdefault("encoderTags", [])
        t.setdefault("decoderTags", [])
        t.setdefault("readerPhases", [])

    # space.py: order of the namespace chain and of the reference chains (C12)
    try:
        t.update(_namespace_tables(_parse("modelx/core/space.py")))
    except Exception as e:
        problems.append("space.py namespace chain orders not found: %r" % e)
        for k in ("namespaceOrder", "userRefsOrder", "dynRefsOrder"):
            t.setdefault(k, [])

    return t, problems


def _attr_name(e):
    """self._own_refs -> own_refs ; self.model._global_refs -> global_refs ; *self._allargs.maps -> allargs"""
    if isinstance(e, ast.Starred):
        e = e.value
        if isinstance(e, ast.Attribute) and e.attr == "maps":
            e = e.value
    if isinstance(e, ast.Attribute):
        return e.attr.lstrip("_")
    raise ValueError(ast.dump(e))


def _namespace_tables(tree):
    t = {}
    base = _class(tree, "BaseSpaceImpl")
    init = _method(base, "__init__")
    order = None
    for node in ast.walk(init):
        if isinstance(node, ast.Call) and getattr(node.func, "id", "") == "ImplChainMap":
            for kw in node.keywords:
                if kw.arg == "map_ids":
                    order = [e.value for e in kw.value.elts]
                    maps = [_attr_name(e) for e in node.args[3].elts]
                    if maps != [{"cells": "cells", "refs": "refs", "spaces": "named_spaces"}[o] for o in order]:
                        raise ValueError("namespace maps %s do not match map_ids %s" % (maps, order))
    if order is None:
        raise ValueError("namespace ImplChainMap not found")
    t["namespaceOrder"] = order

    def refs_order(clsname):
        m = _method(_class(tree, clsname), "_init_refs")
        for node in ast.walk(m):
            if isinstance(node, ast.Call) and getattr(node.func, "id", "") in ("RefChainMap", "ImplChainMap") \
                    and node.args and isinstance(node.args[0], ast.Constant) and node.args[0].value == "refs":
                return [_attr_name(e) for e in node.args[3].elts]
        raise ValueError(clsname + "._init_refs")
    t["userRefsOrder"] = refs_order("UserSpaceImpl")
    t["dynRefsOrder"] = refs_order("DynamicSpaceImpl")
    return t


def _class_list(tree, clsname, attr):
    cls = _class(tree, clsname)
    for node in cls.body:
        if isinstance(node, ast.Assign) and node.targets[0].id == attr:
            return [getattr(e, "id", None) or ast.unparse(e) for e in node.value.elts]
    raise ValueError("%s.%s" % (clsname, attr))


def _serializer_tables(tree):
    import re
    t = {}
    t["encoderClasses"] = _class_list(tree, "EncoderSelector", "classes")
    t["decoderClasses"] = _class_list(tree, "DecoderSelector", "classes")
    t["parserClasses"] = _class_list(tree, "ParserSelector", "classes")
    t["literalTypes"] = _class_list(tree, "LiteralEncoder", "literal_types")

    # classes whose `condition` is `return True`
    uncond = []
    for name in t["encoderClasses"] + t["decoderClasses"]:
        m = _method(_class(tree, name), "condition")
        if m is not None:
            body = [b for b in m.body if not (isinstance(b, ast.Expr) and isinstance(b.value, ast.Constant))]
            if (len(body) == 1 and isinstance(body[0], ast.Return)
                    and isinstance(body[0].value, ast.Constant) and body[0].value.value is True):
                uncond.append(name)
    t["unconditionalClasses"] = uncond

    # tag an encoder writes: first ("Tag" in a string constant of its encode(); "" = bare literal
    enc_tags = []
    for name in t["encoderClasses"]:
        m = _method(_class(tree, name), "encode")
        tags = []
        for node in ast.walk(m):
            if isinstance(node, ast.Constant) and isinstance(node.value, str):
                mm = re.match(r'\(\"(\w+)\"', node.value)
                if mm:
                    tags.append(mm.group(1))
        if len(set(tags)) > 1:
            raise ValueError("encoder %s writes several tags %s" % (name, tags))
        enc_tags.append((name, tags[0] if tags else ""))
    t["encoderTags"] = enc_tags

    # tag a decoder accepts: DECTYPE class attribute; "" = none
    dec_tags = []
    for name in t["decoderClasses"]:
        tag = ""
        for node in _class(tree, name).body:
            if isinstance(node, ast.Assign) and node.targets[0].id == "DECTYPE":
                tag = node.value.value
        dec_tags.append((name, tag))
    t["decoderTags"] = dec_tags

    # phases of ModelReader._read_model_inner
    phases = []
    for node in ast.walk(_method(_class(tree, "ModelReader"), "_read_model_inner")):
        if (isinstance(node, ast.Call) and isinstance(node.func, ast.Attribute)
                and node.func.attr == "execute_selected_methods"):
            phases.append((node.lineno, [e.value for e in node.args[0].elts]))
    t["readerPhases"] = [p for _, p in sorted(phases)]
    if not t["readerPhases"]:
        raise ValueError("no execute_selected_methods call")

    # names under which parsers file their instructions (Instruction.func.__name__)
    methods, at_parse = [], []
    for cls in [n for n in tree.body if isinstance(n, ast.ClassDef)]:
        bases = [getattr(b, "id", "") for b in cls.bases]
        is_parser = cls.name.endswith("Parser") or cls.name in ("ModelReader", "CellsInputDataMixin")
        if not is_parser:
            continue
        found = []
        consts = {}
        for node in ast.walk(cls):
            if isinstance(node, ast.Assign) and len(node.targets) == 1 and isinstance(node.targets[0], ast.Name) \
                    and isinstance(node.value, ast.Constant) and isinstance(node.value.value, str):
                consts.setdefault(node.targets[0].id, []).append(node.value.value)
        for node in ast.walk(cls):
            if not isinstance(node, ast.Call):
                continue
            f = node.func
            if isinstance(f, ast.Attribute) and f.attr == "from_method" and getattr(f.value, "id", "") == "Instruction":
                kw = {k.arg: k.value for k in node.keywords}
                mv = kw.get("method")
                if isinstance(mv, ast.Constant):
                    if mv.value == "fset" and isinstance(kw.get("obj"), ast.Attribute):
                        found.append(kw["obj"].attr)      # property setter: __name__ is the property's name
                    else:
                        found.append(mv.value)
                elif isinstance(mv, ast.Name):
                    found.extend(consts.get(mv.id, []))
                elif isinstance(mv, ast.Attribute) and mv.attr == "METHOD":
                    pass    # resolved through the subclasses' METHOD constants below
                else:
                    raise ValueError("unrecognised method= in %s" % cls.name)
            elif getattr(f, "id", "") == "Instruction" and node.args and isinstance(node.args[0], ast.Attribute):
                found.append(node.args[0].attr)
        found.extend(consts.get("METHOD", []))
        prio = [n for n in cls.body if isinstance(n, ast.Assign) and n.targets[0].id == "default_priority"]
        if prio and ast.unparse(prio[0].value).endswith("AT_PARSE"):
            at_parse.extend(found)
        else:
            methods.extend(found)
    t["instructionMethods"] = sorted(set(methods))
    t["atParseMethods"] = sorted(set(at_parse))
    if not t["instructionMethods"]:
        raise ValueError("no instruction found")
    return t


def _lean_pair_list(xs):
    return "[" + ", ".join('("%s", "%s")' % (a, b) for a, b in xs) + "]"


def render(t):
    lines = [
        "/-! GENERATED by harness/mxh/tables.py from /repo and the running interpreter – do not edit. -/",
        "namespace MxModel.Generated",
        "def pythonKeywords : List String := " + _lean_str_list(t["pythonKeywords"]),
        "def defaultMaxBackups : Nat := %d" % t["defaultMaxBackups"],
        "def defaultMaxdepth : Nat := %d" % t["defaultMaxdepth"],
        "/-- space.py: the maps of a space's namespace, first match wins -/",
        "def namespaceOrder : List String := " + _lean_str_list(t["namespaceOrder"]),
        "/-- UserSpaceImpl._init_refs: the maps of `refs`, first match wins -/",
        "def userRefsOrder : List String := " + _lean_str_list(t["userRefsOrder"]),
        "/-- DynamicSpaceImpl._init_refs -/",
        "def dynRefsOrder : List String := " + _lean_str_list(t["dynRefsOrder"]),
        "/-- serializer_6.py: EncoderSelector.classes, in selection order -/",
        "def encoderClasses : List String := " + _lean_str_list(t["encoderClasses"]),
        "/-- DecoderSelector.classes, in selection order -/",
        "def decoderClasses : List String := " + _lean_str_list(t["decoderClasses"]),
        "/-- ParserSelector.classes, in selection order -/",
        "def parserClasses : List String := " + _lean_str_list(t["parserClasses"]),
        "/-- LiteralEncoder.literal_types -/",
        "def literalTypes : List String := " + _lean_str_list(t["literalTypes"]),
        "/-- selector classes whose `condition` is `return True` -/",
        "def unconditionalClasses : List String := " + _lean_str_list(t["unconditionalClasses"]),
        "/-- (encoder class, tag it writes as first tuple element; \"\" = a bare literal) -/",
        "def encoderTags : List (String × String) := " + _lean_pair_list(t["encoderTags"]),
        "/-- (decoder class, DECTYPE it accepts; \"\" = none) -/",
        "def decoderTags : List (String × String) := " + _lean_pair_list(t["decoderTags"]),
        "/-- ModelReader._read_model_inner: the method names executed, phase by phase -/",
        "def readerPhases : List (List String) := [" + ", ".join(_lean_str_list(p) for p in t["readerPhases"]) + "]",
        "/-- names under which the parsers file deferred instructions -/",
        "def instructionMethods : List String := " + _lean_str_list(t["instructionMethods"]),
        "/-- instructions executed while parsing (PriorityID.AT_PARSE) -/",
        "def atParseMethods : List String := " + _lean_str_list(t["atParseMethods"]),
        "end MxModel.Generated",
        "",
    ]
    return "\n".join(lines)


def regenerate():
    global _summary
    t, problems = extract()
    text = render(t)
    old = open(OUT).read() if os.path.exists(OUT) else None
    if old != text:
        os.makedirs(os.path.dirname(OUT), exist_ok=True)
        open(OUT, "w").write(text)
    _summary = {k: (v if not isinstance(v, list) else len(v)) for k, v in t.items()}
    _summary["problems"] = problems
    _summary["differs_from_baseline"] = not is_pristine()
    return ["table extraction: " + p for p in problems]


def is_pristine():
    if not (os.path.exists(OUT) and os.path.exists(BASELINE)):
        return True
    return open(OUT).read() == open(BASELINE).read()


def summary():
    return _summary


if __name__ == "__main__":
    print(regenerate())
    print(summary())
