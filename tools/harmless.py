#!/usr/bin/env python3
"""harmless.py <patch.diff> [checks…]: apply a behaviour-preserving patch to a scratch worktree of /repo, run the checks
(default: all twenty) from an isolated copy of this machinery against it, print every check that does not exit 0.
A non-zero exit on a harmless change is a FALSE ALARM of the machinery."""
import json, os, shutil, subprocess, sys
ROOT = os.path.dirname(os.path.dirname(os.path.abspath(__file__)))


def sh(cmd):
    return subprocess.run(cmd, shell=True, capture_output=True, text=True)


def main():
    patch = os.path.abspath(sys.argv[1])
    checks = sys.argv[2:] or ["C%02d" % i for i in range(1, 21)]
    tag = "%s_%d" % (os.path.basename(patch).replace(".", "_"), os.getpid())
    wt, vroot = "/tmp/wt/hl_" + tag, "/tmp/wt/hv_" + tag
    os.makedirs("/tmp/wt", exist_ok=True)
    r = sh("git -C /repo worktree add -q --detach %s HEAD" % wt)
    assert r.returncode == 0, r.stderr
    res = {}
    try:
        r = sh("git -C %s apply %s" % (wt, patch))
        assert r.returncode == 0, "patch does not apply: " + r.stderr
        r = sh("rsync -a --exclude .git --exclude replays %s/ %s/" % (ROOT, vroot))
        assert r.returncode == 0, r.stderr
        for c in checks:
            p = sh("cd %s && MODELX_REPO=%s ./check %s --tier quick" % (vroot, wt, c))
            lines = [l for l in p.stdout.split("\n") if l.startswith(("VIOLATION", "INFRA"))]
            res[c] = {"rc": p.returncode, "lines": lines[:3]}
            if p.returncode != 0:
                print(os.path.basename(patch), c, res[c], flush=True)
                for l in lines[:1]:
                    rp = l.split("replay=")[-1].split()[0] if "replay=" in l else None
                    if rp and os.path.exists(rp):
                        os.makedirs(os.path.join(ROOT, "replays"), exist_ok=True)
                        shutil.copy(rp, os.path.join(ROOT, "replays", "harmless_%s_%s" % (os.path.basename(patch), os.path.basename(rp))))
    finally:
        sh("git -C /repo worktree remove --force %s" % wt)
        shutil.rmtree(vroot, ignore_errors=True)
    bad = [c for c, v in res.items() if v["rc"] != 0]
    print(os.path.basename(patch), "checks run:", len(res), "alarms:", bad)
    return 1 if bad else 0


if __name__ == "__main__":
    sys.exit(main())
