#!/bin/sh
# build every property module (proofs) once, so that the checks start from a warm .lake
cd "$(dirname "$0")/../lean" || exit 2
mods=$(ls MxModel/Props/*.lean | sed 's|/|.|g; s|\.lean$||')
exec lake build $mods
