#!/usr/bin/env python3
"""merge_agent.py <ID> <layer-name> <DriverModule>: copy a builder's deliverables from /tmp/ag/<ID>/verif into /verif"""
import json, os, shutil, subprocess, sys
P, layer, mod = sys.argv[1], sys.argv[2], sys.argv[3]
src = "/tmp/ag/%s/verif" % P
dst = "/verif"
out = subprocess.run("git status --porcelain", shell=True, cwd=src, capture_output=True, text=True).stdout
for line in out.split("\n"):
    if not line.strip():
        continue
    st, path = line[:2], line[3:]
    if path.startswith(("evidence/", "replays/", "lean/.lake")):
        continue
    if path.rstrip("/") == "deliver":
        os.makedirs(os.path.join(dst, "notes"), exist_ok=True)
        if os.path.exists(os.path.join(src, "deliver/NOTES.md")):
            shutil.copy(os.path.join(src, "deliver/NOTES.md"), os.path.join(dst, "notes", "%s-builder-notes.md" % P))
        for f in os.listdir(os.path.join(src, "deliver")):
            if f.endswith(".py"):
                shutil.copy(os.path.join(src, "deliver", f), os.path.join(dst, "notes", "%s-%s" % (P, f)))
        continue
    if st.strip() == "??":
        s, d = os.path.join(src, path), os.path.join(dst, path)
        if os.path.isdir(s):
            shutil.copytree(s, d, dirs_exist_ok=True)
        else:
            os.makedirs(os.path.dirname(d), exist_ok=True)
            shutil.copy(s, d)
        print("added", path)
    else:
        print("CHANGED (merge by hand unless handled below):", path)
# shared files
main = os.path.join(dst, "lean/Driver/Main.lean")
s = open(main).read()
if "import Driver.%s" % mod not in s:
    s = s.replace("import Driver.Exec\n", "import Driver.Exec\nimport Driver.%s\n" % mod)
    s = s.replace('  | ["exec"] => Driver.Exec.main; return 0\n',
                  '  | ["exec"] => Driver.Exec.main; return 0\n  | ["%s"] => Driver.%s.main; return 0\n' % (layer, mod))
    open(main, "w").write(s)
    print("Main.lean: layer", layer)
kf_s = json.load(open(os.path.join(src, "known_findings.json")))
kf_d = json.load(open(os.path.join(dst, "known_findings.json")))
ids = {f["id"] for f in kf_d["findings"]}
for f in kf_s["findings"]:
    if f["id"] not in ids:
        kf_d["findings"].append(f)
        print("known finding:", f["id"], f.get("status"))
json.dump(kf_d, open(os.path.join(dst, "known_findings.json"), "w"), indent=1)
ce = os.path.join(src, "deliver/claims_entry.json")
if os.path.exists(ce):
    extra = json.load(open(os.path.join(dst, "tools/claims_extra.json")))
    extra.update(json.load(open(ce)))
    json.dump(extra, open(os.path.join(dst, "tools/claims_extra.json"), "w"), indent=1)
    print("claims_extra updated")
