#!/usr/bin/env python3
"""mkwriters.py <letter>: prepare one scratch worktree of /repo HEAD and one prompt per property for a round of seeded
changes (/tmp/mut/<P><letter>, /tmp/mut/<P><letter>.prompt).  The writers see the property text only, nothing of /verif."""
import glob, json, os, subprocess, sys
ROOT = os.path.dirname(os.path.dirname(os.path.abspath(__file__)))
letter = sys.argv[1]
only = sys.argv[2:]
os.makedirs("/tmp/mut", exist_ok=True)
subprocess.check_call(["cp", os.path.join(ROOT, "tools", "baseline.py"), "/tmp/mut/baseline.py"])
TEMPLATE = open(os.path.join(ROOT, "tools", "WRITER.md")).read()
for line in open(os.path.join(ROOT, "properties.jsonl")):
    p = json.loads(line)
    P = p["id"]
    if only and P not in only:
        continue
    wt = "/tmp/mut/%s%s" % (P, letter)
    subprocess.call(["git", "-C", "/repo", "worktree", "remove", "--force", wt], stderr=subprocess.DEVNULL)
    subprocess.check_call(["git", "-C", "/repo", "worktree", "add", "-q", "--detach", wt, "HEAD"])
    earlier = []
    for d in sorted(glob.glob(os.path.join(ROOT, "seeded", P + "-*"))):
        try:
            earlier.append("  - " + json.load(open(d + "/meta.json"))["summary"].replace("\n", " ")[:200])
        except Exception:
            pass
    txt = (TEMPLATE.replace("@WT@", wt).replace("@P@", P).replace("@PROP@", json.dumps(p, indent=1))
           .replace("@EARLIER@", "\n".join(earlier)))
    open(wt + ".prompt", "w").write(txt)
    print(wt)
