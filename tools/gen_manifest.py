#!/usr/bin/env python3
"""Regenerates MANIFEST.json from the table below (one place to keep claims honest)."""
import json, os
ROOT = os.path.dirname(os.path.dirname(os.path.abspath(__file__)))
props = [json.loads(l) for l in open(os.path.join(ROOT, "properties.jsonl"))]

PROOF_NOTE = ("Trusted: Lean 4.33 kernel; axioms propext/Classical.choice/Quot.sound only (audited every run); the "
              "hand-written Lean model is tied to /repo only by this check's differential correspondence; compiled "
              "driver assumed faithful to the kernel's reading; CPython/networkx sampled, not verified. ")

CLAIMS = {
 "C01": dict(
   text="Lean theorems for every formula behaviour, every reachable cache state, every element: the mechanism model of eval_node/_eval_formula/CallStack/cache returns exactly the spec value Den (uncached pure evaluation) and keeps all held values correct (eval_value_is_denotation_partial, under 'the recursion limit was never hit' - the full statement is refuted by a kernel-checked witness, known finding C01-caught-deep); conversely within the limit the spec result is returned (eval_returns_denotation); order independence; a held element is never re-executed. Tied to /repo by differential runs (eval results, held values, execution log after every op) and an implementation-only oracle (fresh replica with edits only; all-uncached pure recomputation; spellings positional/keyword/subscript/.value).",
   note=PROOF_NOTE + "Argument binding (inspect.Signature.bind) and Python arithmetic are exercised by the oracle, not modelled; names are resolved by the harness (flat world: one space, a child space for attribute-path references).",
   tech="Lean 4 refinement proof (memoised mechanism refines spec, induction on depth and on Prog) + differential correspondence"),
 "C05": dict(
   text="Lean theorems over all formula behaviours and failure points (raise at any depth, None where not allowed; for exceeding the depth limit see the note): every top-level call leaves call stack, index stack, reference stack and roll-back list empty (failure_quiescent, proved by a frame lemma for _eval_formula); the FormulaError carries the spec's error and all held values stay the spec's (failure_consistent_partial); later evaluations are unaffected (retry_unaffected_partial); failing elements hold no value; held values are kept; chains within the limit never hit it (below_limit_no_deep). Tied to /repo by differential runs (results, values, trace graph, stack emptiness) and an oracle using the interpreter's own traceback of the original exception.",
   note=PROOF_NOTE + "'does not crash the interpreter' is a CPython C-stack fact: exercised only. Theorems marked _partial assume that the recursion limit was NEVER hit - neither in this call nor in any earlier one of the history (the model's ghost flag `hit` is sticky): for the depth-limit failure itself only failure_quiescent and the held-values-are-kept half are proved in C05; consistency after a limit failure for programs that do not catch failures follows from C02's eval_keeps_certificates (no depth hypothesis). Lifting the sticky flag (the mechanism never reads it) is open work.",
   tech="Lean 4 invariant proofs (stack discipline, soundness under failure) + differential correspondence"),
 "C19": dict(
   text="Lean 4 theorems over the registry state machine (all operation sequences, all names): invariant name->model with that name, unique names and identities, no model dropped except by its own close, close removes exactly one; tied to /repo by differential runs of the model driver against mx.new_model/read_model/rename/close after every op. Isolation between models is checked by an implementation-only oracle (not a theorem).",
   note=PROOF_NOTE + "Model of System.new_model/rename_model/_rename_samename/close_model/ModelReader.read_model; the isolation clause is sampled, not proved.",
   tech="Lean 4 invariant proof by induction over operations + differential correspondence"),
}
EXTRA = json.load(open(os.path.join(ROOT, "tools", "claims_extra.json"))) if os.path.exists(os.path.join(ROOT, "tools", "claims_extra.json")) else {}
CLAIMS.update(EXTRA)

NA_REASON = {}
na_path = os.path.join(ROOT, "tools", "not_applicable.json")
if os.path.exists(na_path):
    NA_REASON = json.load(open(na_path))

m = {
 "version": 1,
 "setup_cmd": "cd lean && lake build MxModel mxdriver && cd .. && ./tools/build_props.sh",
 "hooks": {"guard": "MODELX_VERIF",
           "enable": "no hooks: every observable is read from Python (public API or private attributes) and faults are injected by monkey-patching inside the harness process; nothing in /repo is guarded",
           "baseline_off_cmd": "cd /repo && /venv/bin/python -m pytest -ra -q -p no:cacheprovider --timeout=900 --continue-on-collection-errors",
           "source_commits": [], "add_only": True},
 "engines": [
  {"name": "lean-mxmodel", "path": "lean/", "serves_properties": sorted(CLAIMS),
   "kind_free_text": "Lean 4 model of modelx mechanisms (MxModel/Exec, Kernels, ...), property theorems (MxModel/Props), compiled line-protocol driver (mxdriver), tables regenerated from /repo (Generated/Tables.lean)"},
  {"name": "mxh", "path": "harness/mxh/", "serves_properties": sorted(CLAIMS),
   "kind_free_text": "Python correspondence harness: generators, real-modelx runner, diff against the Lean driver, implementation-only oracles, shrinking, table translator, evidence"}],
 "checks": [], "not_applicable": [],
 "notes": "See DESIGN.md. Exit 2 = infrastructure failure (never a VIOLATION line). Fix commits in /repo are listed in known_findings.json.",
}
for p in props:
    pid = p["id"]
    if pid in CLAIMS:
        c = CLAIMS[pid]
        m["checks"].append({
            "property_id": pid, "quick_cmd": "./check %s --tier quick" % pid,
            "thorough_cmd": "./check %s --tier thorough" % pid,
            "evidence_file": "evidence/%s.json" % pid,
            "replay_cmd_template": "./check %s --replay {path}" % pid, "engine": "lean-mxmodel",
            "level_claimed": {"category": c.get("category", "proof"), "text": c["text"], "design_ref": "DESIGN.md section 5, " + pid},
            "level_note": c["note"], "technique": c["tech"]})
    else:
        m["not_applicable"].append({"property_id": pid, "reason": NA_REASON.get(pid,
            "no check is claimed yet: model, theorem and correspondence for this property are not built in the committed state (build order in DESIGN.md section 9); the technique applies, nothing is claimed until it exists")})
json.dump(m, open(os.path.join(ROOT, "MANIFEST.json"), "w"), indent=1)
print("claimed:", sorted(CLAIMS))
